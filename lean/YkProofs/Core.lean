/-
  Proofs for YkProps/C03: the books of the scheduler core (application totals = Σ items, queue totals = Σ live
  applications at or below the queue, node allocated = Σ non-foreign allocations, available = total − allocated −
  occupied; all pointwise on sparse vectors) are preserved by every operation of the stepped model
  (YkModel/CoreOps.lean), return to zero when everything is released, and follow from the executable clauses.
-/
import YkModel.CoreOps
import YkProofs.Res
import YkProofs.Node
namespace Yk
open Res Core

/-! ### sums over lists -/

/-- Σ_{x ∈ l, c x} w x -/
def sumIf {α : Type} (l : List α) (c : α → Bool) (w : α → Int) : Int := ((l.filter c).map w).sum

section ListSums
variable {α : Type}

theorem sumIf_eq (l : List α) (c : α → Bool) (w : α → Int) :
    sumIf l c w = (l.map (fun x => if c x = true then w x else 0)).sum := by
  unfold sumIf
  induction l with
  | nil => rfl
  | cons a t ih =>
    rw [List.filter_cons, List.map_cons, List.sum_cons, ← ih]
    by_cases h : c a = true
    · simp [h]
    · simp [h]

@[simp] theorem sumIf_nil (c : α → Bool) (w : α → Int) : sumIf ([] : List α) c w = 0 := rfl

theorem sumIf_cons (a : α) (l : List α) (c : α → Bool) (w : α → Int) :
    sumIf (a :: l) c w = (if c a = true then w a else 0) + sumIf l c w := by
  rw [sumIf_eq, sumIf_eq, List.map_cons, List.sum_cons]

theorem sumIf_append (l1 l2 : List α) (c : α → Bool) (w : α → Int) :
    sumIf (l1 ++ l2) c w = sumIf l1 c w + sumIf l2 c w := by
  induction l1 with
  | nil => simp
  | cons a t ih => rw [List.cons_append, sumIf_cons, sumIf_cons, ih]; omega

theorem sumIf_single (a : α) (c : α → Bool) (w : α → Int) :
    sumIf [a] c w = (if c a = true then w a else 0) := by
  rw [sumIf_cons, sumIf_nil]; omega

theorem sumIf_congr (l : List α) (c c' : α → Bool) (w w' : α → Int)
    (h : ∀ x ∈ l, (if c x = true then w x else 0) = (if c' x = true then w' x else 0)) :
    sumIf l c w = sumIf l c' w' := by
  induction l with
  | nil => rfl
  | cons a t ih =>
    rw [sumIf_cons, sumIf_cons, ih (fun x hx => h x (List.mem_cons_of_mem _ hx)), h a List.mem_cons_self]

theorem sumIf_zero (l : List α) (c : α → Bool) (w : α → Int) (h : ∀ x ∈ l, c x = true → w x = 0) :
    sumIf l c w = 0 := by
  induction l with
  | nil => rfl
  | cons a t ih =>
    rw [sumIf_cons, ih (fun x hx => h x (List.mem_cons_of_mem _ hx))]
    by_cases hc : c a = true
    · simp [hc, h a List.mem_cons_self hc]
    · simp [hc]

theorem sumIf_nonneg (l : List α) (c : α → Bool) (w : α → Int) (h : ∀ x ∈ l, c x = true → 0 ≤ w x) :
    0 ≤ sumIf l c w := by
  induction l with
  | nil => simp
  | cons a t ih =>
    rw [sumIf_cons]
    have := ih (fun x hx => h x (List.mem_cons_of_mem _ hx))
    by_cases hc : c a = true
    · have := h a List.mem_cons_self hc; simp only [hc, if_true]; omega
    · simp only [hc]; simp; omega

/-- every term of a sum of non-negative terms is at most the sum -/
theorem le_sumIf (l : List α) (c : α → Bool) (w : α → Int) (h : ∀ x ∈ l, c x = true → 0 ≤ w x)
    (a : α) (ha : a ∈ l) (hc : c a = true) : w a ≤ sumIf l c w := by
  induction l with
  | nil => cases ha
  | cons b t ih =>
    rw [sumIf_cons]
    have ht : ∀ x ∈ t, c x = true → 0 ≤ w x := fun x hx => h x (List.mem_cons_of_mem _ hx)
    have hn := sumIf_nonneg t c w ht
    cases ha with
    | head => simp only [hc, if_true]; omega
    | tail _ ha' =>
      have := ih ht ha'
      by_cases hb : c b = true
      · have := h b List.mem_cons_self hb; simp only [hb, if_true]; omega
      · simp only [hb]; simp; omega

/-- at most one element of `l` satisfies `d` -/
def AtMostOne (l : List α) (d : α → Bool) : Prop := l.Pairwise (fun x y => d x = true → d y = true → False)

theorem map_upd_none (l : List α) (d : α → Bool) (f : α → α) (h : ∀ x ∈ l, d x = false) :
    l.map (fun x => if d x = true then f x else x) = l := by
  induction l with
  | nil => rfl
  | cons a t ih =>
    rw [List.map_cons, ih (fun x hx => h x (List.mem_cons_of_mem _ hx)), h a List.mem_cons_self]
    simp

theorem filter_not_none (l : List α) (d : α → Bool) (h : ∀ x ∈ l, d x = false) :
    l.filter (fun x => !d x) = l := by
  rw [List.filter_eq_self]; intro x hx; simp [h x hx]

/-- updating the unique element that satisfies `d` changes a sum by that element's term -/
theorem sum_map_upd (l : List α) (d : α → Bool) (f : α → α) (w : α → Int) (a : α)
    (hu : AtMostOne l d) (ha : a ∈ l) (hd : d a = true) :
    ((l.map (fun x => if d x = true then f x else x)).map w).sum = (l.map w).sum - w a + w (f a) := by
  induction l with
  | nil => cases ha
  | cons b t ih =>
    have hp := List.pairwise_cons.mp hu
    rw [List.map_cons, List.map_cons, List.sum_cons, List.map_cons, List.sum_cons]
    cases ha with
    | head =>
      rw [map_upd_none t d f (fun x hx => by
        cases hdx : d x with
        | false => rfl
        | true => exact absurd hdx (fun h => hp.1 x hx hd h))]
      simp only [hd, if_true]; omega
    | tail _ ha' =>
      have hb : d b = false := by
        cases hdb : d b with
        | false => rfl
        | true => exact absurd hd (fun h => hp.1 a ha' hdb h)
      rw [ih hp.2 ha']
      simp only [hb, Bool.false_eq_true, if_false]; omega

/-- removing the unique element that satisfies `d` removes its term -/
theorem sum_filter_rm (l : List α) (d : α → Bool) (w : α → Int) (a : α)
    (hu : AtMostOne l d) (ha : a ∈ l) (hd : d a = true) :
    ((l.filter (fun x => !d x)).map w).sum = (l.map w).sum - w a := by
  induction l with
  | nil => cases ha
  | cons b t ih =>
    have hp := List.pairwise_cons.mp hu
    rw [List.filter_cons, List.map_cons, List.sum_cons]
    cases ha with
    | head =>
      rw [filter_not_none t d (fun x hx => by
        cases hdx : d x with
        | false => rfl
        | true => exact absurd hdx (fun h => hp.1 x hx hd h))]
      simp only [hd, Bool.not_true, Bool.false_eq_true, if_false]; omega
    | tail _ ha' =>
      have hb : d b = false := by
        cases hdb : d b with
        | false => rfl
        | true => exact absurd hd (fun h => hp.1 a ha' hdb h)
      simp only [hb, Bool.not_false, if_true, List.map_cons, List.sum_cons]
      rw [ih hp.2 ha']; omega

theorem sumIf_map_upd (l : List α) (d : α → Bool) (f : α → α) (c : α → Bool) (w : α → Int) (a : α)
    (hu : AtMostOne l d) (ha : a ∈ l) (hd : d a = true) :
    sumIf (l.map (fun x => if d x = true then f x else x)) c w =
      sumIf l c w - (if c a = true then w a else 0) + (if c (f a) = true then w (f a) else 0) := by
  rw [sumIf_eq, sumIf_eq, sum_map_upd l d f _ a hu ha hd]

theorem sumIf_filter_rm (l : List α) (d : α → Bool) (c : α → Bool) (w : α → Int) (a : α)
    (hu : AtMostOne l d) (ha : a ∈ l) (hd : d a = true) :
    sumIf (l.filter (fun x => !d x)) c w = sumIf l c w - (if c a = true then w a else 0) := by
  rw [sumIf_eq, sumIf_eq, sum_filter_rm l d _ a hu ha hd]

theorem atMostOne_of_pairwise_ne {β : Type} [DecidableEq β] (l : List α) (key : α → β) (k : β)
    (h : l.Pairwise (fun x y => key x ≠ key y)) : AtMostOne l (fun x => key x == k) := by
  unfold AtMostOne
  refine List.Pairwise.imp ?_ h
  intro x y hne hx hy
  simp only [beq_iff_eq] at hx hy
  exact hne (hx.trans hy.symm)

end ListSums

/-! ### well-formed dumps and the books -/

/-- Σ over the items `i` of an application with `c i` of `i.res[k]` -/
def itemSum (l : List CItem) (c : CItem → Bool) (k : String) : Int := sumIf l c (fun i => i.res.getD k)

/-- Σ over the live applications `a` at or below queue `p` of `g a` -/
def qsum (apps : List CApp) (p : String) (g : CApp → Int) : Int :=
  sumIf apps (fun a => a.live && under a.queue p) g

/-- Σ over the non-foreign allocations on a node of `res[k]` -/
def allocSum (l : List CNodeAlloc) (k : String) : Int := sumIf l (fun x => !x.foreign) (fun x => x.res.getD k)

/-- all entries of a vector are ≥ 0 (`Core.nonNeg`) -/
def NonNeg (r : Res) : Prop := ∀ p ∈ r, 0 ≤ p.2

/-- Well-formedness of a dumped state: the vectors are Go maps (unique keys), identifiers are unique where the
    implementation keeps a map, quantities of asks are non-negative int64 values. -/
structure CoreWF (s : Core) : Prop where
  /-- partition.applications is a map keyed by application id -/
  appIds : s.apps.Pairwise (fun a b => a.live = true → b.live = true → a.id ≠ b.id)
  /-- partition.nodes is a map keyed by node id -/
  nodeIds : s.nodes.Pairwise (fun a b => a.id ≠ b.id)
  /-- application.requests / allocations are maps keyed by allocation key -/
  itemKeys : ∀ a ∈ s.apps, a.live = true → a.items.Pairwise (fun i j => i.key ≠ j.key)
  /-- node.allocations is a map keyed by allocation key -/
  allocKeys : ∀ n ∈ s.nodes, n.allocs.Pairwise (fun x y => x.key ≠ y.key)
  appRes : ∀ a ∈ s.apps, a.live = true → wf a.pending = true ∧ wf a.allocated = true ∧ wf a.allocatedPh = true
  /-- the resource of an ask / allocation is a map without negative quantities -/
  itemRes : ∀ a ∈ s.apps, a.live = true → ∀ i ∈ a.items, wf i.res = true ∧ NonNeg i.res
  /-- what application.allocations lists has been allocated -/
  boundAllocated : ∀ a ∈ s.apps, a.live = true → ∀ i ∈ a.items, i.bound = true → i.allocated = true
  /-- queue totals are maps; pending holds int64 values -/
  queueRes : ∀ q ∈ s.queues, wf q.allocated = true ∧ wf q.pending = true ∧ allInR q.pending
  nodeRes : ∀ n ∈ s.nodes, wf n.total = true ∧ wf n.occupied = true ∧ wf n.allocated = true ∧ wf n.available = true
  allocRes : ∀ n ∈ s.nodes, ∀ x ∈ n.allocs, wf x.res = true

/-- an application's totals are the sums over its items -/
structure AppBooks (a : CApp) : Prop where
  allocated : ∀ k, a.allocated.getD k = itemSum a.items (fun i => i.bound && !i.ph) k
  allocatedPh : ∀ k, a.allocatedPh.getD k = itemSum a.items (fun i => i.bound && i.ph) k
  pending : ∀ k, a.pending.getD k = itemSum a.items (fun i => i.inReq && !i.allocated) k

/-- a queue's totals are the sums over the live applications at or below it -/
structure QueueBooks (apps : List CApp) (q : CQueue) : Prop where
  allocated : ∀ k, q.allocated.getD k = qsum apps q.path (fun a => a.allocated.getD k + a.allocatedPh.getD k)
  pending : ∀ k, q.pending.getD k = qsum apps q.path (fun a => a.pending.getD k)

/-- the node ledger (C01) -/
structure NodeBooks (n : CNode) : Prop where
  allocated : ∀ k, n.allocated.getD k = allocSum n.allocs k
  available : ∀ k, n.available.getD k = n.total.getD k - n.allocated.getD k - n.occupied.getD k

/-- The books agree, pointwise for every resource type. -/
structure Books (s : Core) : Prop where
  apps : ∀ a ∈ s.apps, a.live = true → AppBooks a
  queues : ∀ q ∈ s.queues, QueueBooks s.apps q
  nodes : ∀ n ∈ s.nodes, NodeBooks n

theorem mem_liveApps {s : Core} {a : CApp} : a ∈ s.liveApps ↔ a ∈ s.apps ∧ a.live = true := by
  unfold liveApps; rw [List.mem_filter]

/-- `qsum` is the sum over `s.liveApps` filtered by `under` -/
theorem qsum_liveApps (s : Core) (p : String) (g : CApp → Int) :
    qsum s.apps p g = (((s.liveApps.filter (fun a => under a.queue p)).map g).sum) := by
  unfold qsum sumIf liveApps; rw [List.filter_filter]
  congr 2
  apply List.filter_congr
  intro x _; exact Bool.and_comm _ _

/-! ### the update helpers of the model -/

theorem findApp_some {s : Core} {id : String} {a : CApp} (h : s.findApp id = some a) :
    a ∈ s.apps ∧ a.live = true ∧ a.id = id := by
  unfold findApp at h
  have hm := List.mem_of_find?_eq_some h
  have hp := List.find?_some h
  rw [mem_liveApps] at hm
  exact ⟨hm.1, hm.2, by simpa using hp⟩

theorem findApp_none {s : Core} {id : String} (h : s.findApp id = none) :
    ∀ a ∈ s.apps, a.live = true → a.id ≠ id := by
  intro a ha hl
  unfold findApp at h
  have := List.find?_eq_none.mp h a (mem_liveApps.mpr ⟨ha, hl⟩)
  simpa using this

theorem findNode_some {s : Core} {id : String} {n : CNode} (h : s.findNode id = some n) :
    n ∈ s.nodes ∧ n.id = id := by
  unfold findNode at h
  exact ⟨List.mem_of_find?_eq_some h, by simpa using List.find?_some h⟩

theorem appIds_atMostOne {apps : List CApp} (id : String)
    (h : apps.Pairwise (fun a b => a.live = true → b.live = true → a.id ≠ b.id)) :
    AtMostOne apps (fun x => x.live && x.id == id) := by
  unfold AtMostOne
  refine List.Pairwise.imp ?_ h
  intro x y hne hx hy
  simp only [Bool.and_eq_true, beq_iff_eq] at hx hy
  exact hne hx.1 hy.1 (hx.2.trans hy.2.symm)

/-- the application list after `updApp` -/
abbrev updApps (apps : List CApp) (id : String) (f : CApp → CApp) : List CApp :=
  apps.map (fun a => if (a.live && a.id == id) = true then f a else a)

abbrev updQs (queues : List CQueue) (paths : List String) (f : CQueue → CQueue) : List CQueue :=
  queues.map (fun q => if paths.contains q.path = true then f q else q)

abbrev updNs (nodes : List CNode) (id : String) (f : CNode → CNode) : List CNode :=
  nodes.map (fun n => if (n.id == id) = true then f n else n)

@[simp] theorem updApp_apps (s : Core) (id : String) (f : CApp → CApp) : (updApp s id f).apps = updApps s.apps id f := rfl
@[simp] theorem updApp_queues (s : Core) (id : String) (f : CApp → CApp) : (updApp s id f).queues = s.queues := rfl
@[simp] theorem updApp_nodes (s : Core) (id : String) (f : CApp → CApp) : (updApp s id f).nodes = s.nodes := rfl
@[simp] theorem updQueues_apps (s : Core) (ps : List String) (f : CQueue → CQueue) : (updQueues s ps f).apps = s.apps := rfl
@[simp] theorem updQueues_queues (s : Core) (ps : List String) (f : CQueue → CQueue) :
    (updQueues s ps f).queues = updQs s.queues ps f := rfl
@[simp] theorem updQueues_nodes (s : Core) (ps : List String) (f : CQueue → CQueue) : (updQueues s ps f).nodes = s.nodes := rfl
@[simp] theorem updNode_apps (s : Core) (id : String) (f : CNode → CNode) : (updNode s id f).apps = s.apps := rfl
@[simp] theorem updNode_queues (s : Core) (id : String) (f : CNode → CNode) : (updNode s id f).queues = s.queues := rfl
@[simp] theorem updNode_nodes (s : Core) (id : String) (f : CNode → CNode) : (updNode s id f).nodes = updNs s.nodes id f := rfl

/-- the queues on the chain of `p` are exactly the queues `q` with `under p q.path` -/
theorem mem_pathChain (queues : List CQueue) (p : String) (path : String) (hq : ∃ q ∈ queues, q.path = path) :
    ((queues.filter (fun q => under p q.path)).map (·.path)).contains path = true ↔ under p path = true := by
  rw [List.contains_iff_mem, List.mem_map]
  constructor
  · rintro ⟨q, hm, rfl⟩; exact (List.mem_filter.mp hm).2
  · intro hu
    obtain ⟨q, hm, rfl⟩ := hq
    exact ⟨q, List.mem_filter.mpr ⟨hm, hu⟩, rfl⟩

/-- Books only looks at the three lists -/
theorem Books.of_lists {s t : Core} (ha : t.apps = s.apps) (hq : t.queues = s.queues) (hn : t.nodes = s.nodes)
    (h : Books s) : Books t :=
  ⟨by rw [ha]; exact h.apps, by rw [ha, hq]; exact h.queues, by rw [hn]; exact h.nodes⟩

/-! ### how the sums move when one application / queue chain / node is updated -/

theorem AtMostOne.eq {α : Type} {l : List α} {d : α → Bool} (hu : AtMostOne l d) {x y : α}
    (hx : x ∈ l) (hy : y ∈ l) (dx : d x = true) (dy : d y = true) : x = y := by
  induction l with
  | nil => cases hx
  | cons b t ih =>
    have hp := List.pairwise_cons.mp hu
    cases hx with
    | head =>
      cases hy with
      | head => rfl
      | tail _ hy' => exact absurd dy (fun h => hp.1 y hy' dx h)
    | tail _ hx' =>
      cases hy with
      | head => exact absurd dx (fun h => hp.1 x hx' dy h)
      | tail _ hy' => exact ih hp.2 hx' hy'

theorem qsum_upd (apps : List CApp) (id : String) (f : CApp → CApp) (a : CApp)
    (hu : apps.Pairwise (fun a b => a.live = true → b.live = true → a.id ≠ b.id))
    (ha : a ∈ apps) (hl : a.live = true) (hid : a.id = id) (hq : (f a).queue = a.queue) (p : String) (g : CApp → Int) :
    qsum (updApps apps id f) p g =
      qsum apps p g - (if under a.queue p = true then g a else 0)
        + (if ((f a).live && under a.queue p) = true then g (f a) else 0) := by
  unfold qsum updApps
  rw [sumIf_map_upd apps (fun x => x.live && x.id == id) f _ g a (appIds_atMostOne id hu) ha (by simp [hl, hid])]
  simp [hl, hq]

/-- One live application `a` is updated by `f` (which may make it leave the partition) and the queues on its chain by
    `fq`: the books stay balanced if `f a` is balanced and `fq` moves the queue totals by the change of the
    application's totals. -/
theorem books_upd_apps_queues (apps : List CApp) (queues : List CQueue) (id : String) (a : CApp) (f : CApp → CApp)
    (chain : List String) (fq : CQueue → CQueue)
    (hu : apps.Pairwise (fun a b => a.live = true → b.live = true → a.id ≠ b.id))
    (ha : a ∈ apps) (hl : a.live = true) (hid : a.id = id)
    (hbA : ∀ x ∈ apps, x.live = true → AppBooks x) (hbQ : ∀ q ∈ queues, QueueBooks apps q)
    (hq : (f a).queue = a.queue)
    (hfa : (f a).live = true → AppBooks (f a))
    (hchain : ∀ q ∈ queues, (chain.contains q.path = true ↔ under a.queue q.path = true))
    (hpath : ∀ q, (fq q).path = q.path)
    (hon : ∀ q ∈ queues, under a.queue q.path = true → ∀ k,
      (fq q).allocated.getD k = q.allocated.getD k - (a.allocated.getD k + a.allocatedPh.getD k)
          + (if (f a).live = true then (f a).allocated.getD k + (f a).allocatedPh.getD k else 0) ∧
      (fq q).pending.getD k = q.pending.getD k - a.pending.getD k
          + (if (f a).live = true then (f a).pending.getD k else 0)) :
    (∀ x ∈ updApps apps id f, x.live = true → AppBooks x) ∧
    (∀ q ∈ updQs queues chain fq, QueueBooks (updApps apps id f) q) := by
  have hda : (a.live && a.id == id) = true := by simp [hl, hid]
  constructor
  · intro x hx hxl
    obtain ⟨y, hy, rfl⟩ := List.mem_map.mp hx
    by_cases hd : (y.live && y.id == id) = true
    · have : y = a := (appIds_atMostOne id hu).eq hy ha hd hda
      subst this
      rw [if_pos hd] at hxl ⊢
      exact hfa hxl
    · rw [if_neg hd] at hxl ⊢
      exact hbA y hy hxl
  · intro q' hq'
    obtain ⟨q, hqm, rfl⟩ := List.mem_map.mp hq'
    have hb := hbQ q hqm
    by_cases hc : chain.contains q.path = true
    · have hun := (hchain q hqm).mp hc
      rw [if_pos hc]
      constructor
      · intro k
        rw [hpath, qsum_upd apps id f a hu ha hl hid hq, (hon q hqm hun k).1, hb.allocated k]
        by_cases hfl : (f a).live = true <;> simp [hun, hfl]
      · intro k
        rw [hpath, qsum_upd apps id f a hu ha hl hid hq, (hon q hqm hun k).2, hb.pending k]
        by_cases hfl : (f a).live = true <;> simp [hun, hfl]
    · have hun : ¬ under a.queue q.path = true := fun h => hc ((hchain q hqm).mpr h)
      rw [if_neg hc]
      constructor
      · intro k
        rw [qsum_upd apps id f a hu ha hl hid hq, hb.allocated k]; simp [hun]
      · intro k
        rw [qsum_upd apps id f a hu ha hl hid hq, hb.pending k]; simp [hun]

theorem books_upd_nodes (nodes : List CNode) (id : String) (fn : CNode → CNode)
    (hb : ∀ n ∈ nodes, NodeBooks n) (h : ∀ n ∈ nodes, n.id = id → NodeBooks n → NodeBooks (fn n)) :
    ∀ n ∈ updNs nodes id fn, NodeBooks n := by
  intro n' hn'
  obtain ⟨n, hn, rfl⟩ := List.mem_map.mp hn'
  by_cases hd : (n.id == id) = true
  · rw [if_pos hd]; exact h n hn (by simpa using hd) (hb n hn)
  · rw [if_neg hd]; exact hb n hn

/-- queues that are mapped to themselves -/
theorem updQs_id (queues : List CQueue) (chain : List String) : updQs queues chain (fun q => q) = queues := by
  unfold updQs; simp

/-! ### decPending -/

theorem clamp_id {x : Int} (h : inR x) : clamp x = x := by
  unfold inR at h; unfold clamp
  have h1 : ¬ x < minI := by omega
  have h2 : ¬ x > maxI := by omega
  simp [h1, h2]

theorem snn_fold_getD (delta : Res) (hw : wf delta = true) (acc : Res × List String)
    (hle : ∀ p ∈ delta, 0 ≤ p.2 ∧ p.2 ≤ acc.1.getD p.1 ∧ inR (acc.1.getD p.1)) (k : String) :
    ((delta.foldl (fun (acc : Res × List String) p =>
      let v := goSubVal (acc.1.getD p.1) p.2
      if v < 0 then (acc.1.set p.1 0, acc.2 ++ [p.1]) else (acc.1.set p.1 v, acc.2)) acc).1).getD k =
      acc.1.getD k - delta.getD k := by
  induction delta generalizing acc with
  | nil => simp
  | cons p t ih =>
    obtain ⟨a, b⟩ := p
    rw [wf_cons] at hw
    simp only [Bool.and_eq_true, Bool.not_eq_true'] at hw
    obtain ⟨hb0, hba, hr⟩ := hle (a, b) List.mem_cons_self
    simp only at hb0 hba hr
    have hbr : inR b := by unfold inR minI maxI at *; omega
    have hv : goSubVal (acc.1.getD a) b = acc.1.getD a - b := by
      rw [goSubVal_spec hr hbr]; apply clamp_id; unfold inR minI maxI at *; omega
    have hnn : ¬ (acc.1.getD a - b < 0) := by omega
    rw [List.foldl_cons]
    simp only [hv, hnn, if_false]
    rw [ih hw.2]
    · rw [getD_set, getD_cons]
      by_cases hk : k = a
      · subst hk; simp [getD_of_not_has hw.1]
      · simp [hk]
    · intro p hp
      have hpa : p.1 ≠ a := by
        intro e
        have : has t a = true := by rw [has_iff_mem_keys]; exact List.mem_map.mpr ⟨p, hp, e⟩
        rw [hw.1] at this; cases this
      have := hle p (List.mem_cons_of_mem _ hp)
      simp only [getD_set, hpa, if_false]
      exact this

theorem snn_fold_wf (delta : Res) (acc : Res × List String) (hw : wf acc.1 = true) :
    wf ((delta.foldl (fun (acc : Res × List String) p =>
      let v := goSubVal (acc.1.getD p.1) p.2
      if v < 0 then (acc.1.set p.1 0, acc.2 ++ [p.1]) else (acc.1.set p.1 v, acc.2)) acc).1) = true := by
  induction delta generalizing acc with
  | nil => simpa
  | cons p t ih =>
    rw [List.foldl_cons]
    apply ih
    dsimp only
    split <;> exact set_wf _ hw _ _

theorem mem_getD {r : Res} (hw : wf r = true) {p : String × Int} (hp : p ∈ r) : r.getD p.1 = p.2 := by
  rw [getD_eq_get?, get?_of_mem hw (k := p.1) (v := p.2) hp]; rfl

theorem decPendingRes_wf (pending delta : Res) (hp : wf pending = true) : wf (decPendingRes pending delta) = true := by
  unfold decPendingRes subEliminateNegative subNonNegative orZero
  simp only [Option.getD_some]
  split
  · exact prune_wf _ (snn_fold_wf delta (pending, []) hp)
  · exact snn_fold_wf delta (pending, []) hp

/-- while `delta ≤ pending` (and the values are int64) decPending is the exact difference -/
theorem decPendingRes_getD (pending delta : Res) (hp : wf pending = true) (hd : wf delta = true)
    (hr : allInR pending) (h : ∀ k, 0 ≤ delta.getD k ∧ delta.getD k ≤ pending.getD k) (k : String) :
    (decPendingRes pending delta).getD k = pending.getD k - delta.getD k := by
  have hle : ∀ p ∈ delta, 0 ≤ p.2 ∧ p.2 ≤ pending.getD p.1 ∧ inR (pending.getD p.1) := by
    intro p hpm
    have := h p.1
    rw [mem_getD hd hpm] at this
    exact ⟨this.1, this.2, getD_inR hr _⟩
  have hg := snn_fold_getD delta hd (pending, []) hle k
  have hwf := snn_fold_wf delta (pending, []) hp
  unfold decPendingRes subEliminateNegative subNonNegative orZero
  simp only [Option.getD_some]
  split
  · rw [prune_getD _ hwf]; exact hg
  · exact hg

theorem nonNeg_getD {r : Res} (h : NonNeg r) (k : String) : 0 ≤ r.getD k := by
  rw [getD_eq_get?]
  cases hg : get? r k with
  | none => simp
  | some v => simpa using h (k, v) (mem_of_get? hg)

/-- a non-negative vector that is not strictly greater than zero is zero everywhere -/
theorem zero_of_not_sgtz {r : Res} (h : NonNeg r) (hz : strictlyGreaterThanZero (some r) = false) (k : String) :
    r.getD k = 0 := by
  rw [getD_eq_get?]
  cases hg : get? r k with
  | none => simp
  | some v =>
    have hm := mem_of_get? hg
    have h0 := h (k, v) hm
    unfold strictlyGreaterThanZero at hz
    simp only at hz
    have hneg : r.any (fun p => decide (p.2 < 0)) = false := by
      rw [List.any_eq_false]; intro p hp; have := h p hp; simp; omega
    rw [hneg] at hz
    simp only [Bool.false_eq_true, if_false] at hz
    have := (List.any_eq_false.mp hz) (k, v) hm
    simp only [decide_eq_true_eq] at this h0
    simp only [Option.getD_some]; omega

/-! ### drained -/

theorem books_drained (s : Core) (hb : Books s) (ha : s.liveApps = [])
    (hn : ∀ n ∈ s.nodes, ∀ a ∈ n.allocs, a.foreign = true) :
    (∀ q ∈ s.queues, ∀ k, q.allocated.getD k = 0 ∧ q.pending.getD k = 0) ∧ (∀ n ∈ s.nodes, ∀ k, n.allocated.getD k = 0) := by
  have hdead : ∀ a ∈ s.apps, a.live = false := by
    intro a ham
    cases hl : a.live with
    | false => rfl
    | true =>
      have : a ∈ s.liveApps := mem_liveApps.mpr ⟨ham, hl⟩
      rw [ha] at this; cases this
  have hz : ∀ p g, qsum s.apps p g = 0 := by
    intro p g
    apply sumIf_zero
    intro x hx hc
    rw [hdead x hx] at hc; simp at hc
  constructor
  · intro q hq k
    have := hb.queues q hq
    rw [this.allocated k, this.pending k, hz, hz]; exact ⟨rfl, rfl⟩
  · intro n hnm k
    rw [(hb.nodes n hnm).allocated k]
    apply sumIf_zero
    intro x hx hc
    rw [hn n hnm x hx] at hc; simp at hc

/-! ### node requests -/

theorem books_setRootMax (s : Core) (t : Res) (hb : Books s) : Books (setRootMax s t) := by
  refine ⟨hb.apps, ?_, hb.nodes⟩
  intro q' hq'
  show QueueBooks s.apps q'
  obtain ⟨q, hq, rfl⟩ := List.mem_map.mp hq'
  have := hb.queues q hq
  split
  · exact ⟨this.allocated, this.pending⟩
  · exact this

theorem books_nodeCreate (s : Core) (id : String) (cap : Res) (b : Bool) (hb : Books s) :
    Books (s.nodeCreate id cap b) := by
  unfold nodeCreate
  split
  · exact hb
  · apply books_setRootMax
    refine ⟨hb.apps, hb.queues, ?_⟩
    intro n hn
    rcases List.mem_append.mp hn with h | h
    · exact hb.nodes n h
    · rw [List.mem_singleton] at h; subst h
      constructor
      · intro k; simp [allocSum]
      · intro k; simp

theorem books_nodeUpdate (s : Core) (id : String) (cap : Res) (hw : CoreWF s) (hc : wf cap = true) (hb : Books s) :
    Books (s.nodeUpdate id cap) := by
  unfold nodeUpdate
  split
  · exact hb
  · split
    · exact hb
    · apply books_setRootMax
      refine ⟨hb.apps, hb.queues, ?_⟩
      show ∀ n ∈ updNs s.nodes id _, NodeBooks n
      apply books_upd_nodes _ _ _ hb.nodes
      intro n hn _ hnb
      obtain ⟨_, ho, ha, _⟩ := hw.nodeRes n hn
      have hp := prune_wf cap hc
      constructor
      · exact hnb.allocated
      · intro k
        show (prune (subX (subX (prune cap) n.allocated) n.occupied)).getD k = _
        rw [prune_getD _ (subX_wf _ _ (subX_wf _ _ hp)), subX_getD _ _ ho, subX_getD _ _ ha]

theorem books_nodeSchedulable (s : Core) (id : String) (b : Bool) (hb : Books s) : Books (s.nodeSchedulable id b) := by
  refine ⟨hb.apps, hb.queues, ?_⟩
  show ∀ n ∈ updNs s.nodes id _, NodeBooks n
  apply books_upd_nodes _ _ _ hb.nodes
  intro n _ _ hnb
  exact ⟨hnb.allocated, hnb.available⟩

theorem books_node_ops (s : Core) (id : String) (cap : Res) (b : Bool) (hw : CoreWF s) (hc : wf cap = true) (hb : Books s) :
    Books (s.nodeCreate id cap b) ∧ Books (s.nodeUpdate id cap) ∧ Books (s.nodeSchedulable id b) :=
  ⟨books_nodeCreate s id cap b hb, books_nodeUpdate s id cap hw hc hb, books_nodeSchedulable s id b hb⟩

/-! ### foreign allocations -/

theorem allocSum_append (l1 l2 : List CNodeAlloc) (k : String) : allocSum (l1 ++ l2) k = allocSum l1 k + allocSum l2 k :=
  sumIf_append _ _ _ _

/-- removing the allocation with key `key` from a node's list -/
theorem allocSum_rm (l : List CNodeAlloc) (hk : l.Pairwise (fun x y => x.key ≠ y.key)) (key : String) (x : CNodeAlloc)
    (hx : x ∈ l) (hkey : x.key = key) (k : String) :
    allocSum (l.filter (fun y => y.key != key)) k = allocSum l k - (if x.foreign = true then 0 else x.res.getD k) := by
  unfold allocSum
  have := sumIf_filter_rm l (fun y => y.key == key) (fun y => !y.foreign) (fun y => y.res.getD k) x
    (atMostOne_of_pairwise_ne l (·.key) key hk) hx (by simp [hkey])
  show sumIf (l.filter (fun y => !(y.key == key))) _ _ = _
  rw [this]
  cases x.foreign <;> simp

theorem nodeIds_eq {s : Core} (hw : CoreWF s) {n m : CNode} (hn : n ∈ s.nodes) (hm : m ∈ s.nodes) (h : m.id = n.id) : m = n :=
  (atMostOne_of_pairwise_ne s.nodes (·.id) n.id hw.nodeIds).eq hm hn (by simp [h]) (by simp)

theorem allocKeys_eq {l : List CNodeAlloc} (hk : l.Pairwise (fun x y => x.key ≠ y.key)) {x y : CNodeAlloc}
    (hx : x ∈ l) (hy : y ∈ l) (h : x.key = y.key) : x = y :=
  (atMostOne_of_pairwise_ne l (·.key) y.key hk).eq hx hy (by simp [h]) (by simp)

theorem books_foreignAdd (s : Core) (key node : String) (res : Res) (hw : CoreWF s) (hr : wf res = true) (hb : Books s) :
    Books (s.foreignAdd key node res) := by
  unfold foreignAdd
  split
  · exact hb
  · split
    · exact hb
    · refine ⟨hb.apps, hb.queues, ?_⟩
      show ∀ n ∈ updNs s.nodes node _, NodeBooks n
      apply books_upd_nodes _ _ _ hb.nodes
      intro n hn _ hnb
      obtain ⟨_, ho, ha, hv⟩ := hw.nodeRes n hn
      constructor
      · intro k
        show n.allocated.getD k = allocSum (n.allocs ++ [_]) k
        rw [allocSum_append, hnb.allocated k]; simp [allocSum, sumIf_single]
      · intro k
        show (prune (subX n.available res)).getD k = n.total.getD k - n.allocated.getD k - (addX n.occupied res).getD k
        rw [prune_subX_getD _ _ hv hr, addX_getD _ _ hr, hnb.available k]; omega

theorem books_foreignRemove (s : Core) (key : String) (hw : CoreWF s) (hb : Books s) : Books (s.foreignRemove key) := by
  unfold foreignRemove
  split
  · exact hb
  · have hb0 : Books { s with foreign := s.foreign.filter (· != key) } := ⟨hb.apps, hb.queues, hb.nodes⟩
    split
    · exact hb0
    · rename_i n hfind
      split
      · exact hb0
      · rename_i fa hfa
        have hnm : n ∈ s.nodes := List.mem_of_find?_eq_some hfind
        have hany := List.find?_some hfind
        obtain ⟨y, hy, hyk⟩ := List.any_eq_true.mp hany
        simp only [Bool.and_eq_true, beq_iff_eq] at hyk
        have hfam : fa ∈ n.allocs := List.mem_of_find?_eq_some hfa
        have hfak : fa.key = key := by simpa using List.find?_some hfa
        have hfy : fa = y := allocKeys_eq (hw.allocKeys n hnm) hfam hy (hfak.trans hyk.1.symm)
        have hff : fa.foreign = true := by rw [hfy]; exact hyk.2
        refine ⟨hb.apps, hb.queues, ?_⟩
        show ∀ m ∈ updNs s.nodes n.id _, NodeBooks m
        apply books_upd_nodes _ _ _ hb.nodes
        intro m hm hid hmb
        have : m = n := nodeIds_eq hw hnm hm hid
        subst this
        obtain ⟨_, ho, ha, hv⟩ := hw.nodeRes m hm
        have hfr := hw.allocRes m hm fa hfam
        constructor
        · intro k
          show m.allocated.getD k = allocSum (m.allocs.filter (fun y => y.key != key)) k
          rw [allocSum_rm _ (hw.allocKeys m hm) key fa hfam hfak, hmb.allocated k]; simp [hff]
        · intro k
          show (addX m.available fa.res).getD k = m.total.getD k - m.allocated.getD k - (subX m.occupied fa.res).getD k
          rw [addX_getD _ _ hfr, subX_getD _ _ hfr, hmb.available k]; omega

theorem books_foreign (s : Core) (key node : String) (res : Res) (hw : CoreWF s) (hr : wf res = true) (hb : Books s) :
    Books (s.foreignAdd key node res) ∧ Books (s.foreignRemove key) :=
  ⟨books_foreignAdd s key node res hw hr hb, books_foreignRemove s key hw hb⟩

/-! ### asks -/

theorem itemSum_append (l1 l2 : List CItem) (c : CItem → Bool) (k : String) :
    itemSum (l1 ++ l2) c k = itemSum l1 c k + itemSum l2 c k := sumIf_append _ _ _ _

theorem itemSum_single (i : CItem) (c : CItem → Bool) (k : String) :
    itemSum [i] c k = if c i = true then i.res.getD k else 0 := sumIf_single _ _ _

theorem chain_iff (s : Core) (p : String) : ∀ q ∈ s.queues, ((pathChain s p).contains q.path = true ↔ under p q.path = true) :=
  fun q hq => mem_pathChain s.queues p q.path ⟨q, hq, rfl⟩

/-- `books_upd_apps_queues` for a state `t` that is `s` with one application and its queue chain updated -/
theorem books_upd (s t : Core) (id : String) (a : CApp) (f : CApp → CApp) (chain : List String) (fq : CQueue → CQueue)
    (hta : t.apps = updApps s.apps id f) (htq : t.queues = updQs s.queues chain fq) (htn : ∀ n ∈ t.nodes, NodeBooks n)
    (hu : s.apps.Pairwise (fun a b => a.live = true → b.live = true → a.id ≠ b.id))
    (ha : a ∈ s.apps) (hl : a.live = true) (hid : a.id = id)
    (hbA : ∀ x ∈ s.apps, x.live = true → AppBooks x) (hbQ : ∀ q ∈ s.queues, QueueBooks s.apps q)
    (hq : (f a).queue = a.queue)
    (hfa : (f a).live = true → AppBooks (f a))
    (hchain : ∀ q ∈ s.queues, (chain.contains q.path = true ↔ under a.queue q.path = true))
    (hpath : ∀ q, (fq q).path = q.path)
    (hon : ∀ q ∈ s.queues, under a.queue q.path = true → ∀ k,
      (fq q).allocated.getD k = q.allocated.getD k - (a.allocated.getD k + a.allocatedPh.getD k)
          + (if (f a).live = true then (f a).allocated.getD k + (f a).allocatedPh.getD k else 0) ∧
      (fq q).pending.getD k = q.pending.getD k - a.pending.getD k
          + (if (f a).live = true then (f a).pending.getD k else 0)) : Books t := by
  have := books_upd_apps_queues s.apps s.queues id a f chain fq hu ha hl hid hbA hbQ hq hfa hchain hpath hon
  exact ⟨by rw [hta]; exact this.1, by rw [hta, htq]; exact this.2, htn⟩

theorem books_ask (s : Core) (app key : String) (res : Res) (ph : Bool) (tg reqNode : String)
    (hw : CoreWF s) (hr : wf res = true) (hb : Books s) : Books (s.ask app key res ph tg reqNode).1 := by
  unfold ask
  split
  · exact hb
  · rename_i a hfind
    obtain ⟨ham, hl, hid⟩ := findApp_some hfind
    split
    · exact hb
    · split
      · exact hb
      · obtain ⟨hwp, hwa, hwh⟩ := hw.appRes a ham hl
        have hba := hb.apps a ham hl
        refine books_upd s _ app a _ (pathChain s a.queue) _ rfl rfl hb.nodes hw.appIds ham hl hid hb.apps hb.queues
          rfl ?_ (chain_iff s a.queue) (fun _ => rfl) ?_
        · intro _
          refine ⟨?_, ?_, ?_⟩
          · intro k
            show a.allocated.getD k = itemSum (a.items ++ [_]) _ k
            rw [itemSum_append, itemSum_single, hba.allocated k]; simp
          · intro k
            show a.allocatedPh.getD k = itemSum (a.items ++ [_]) _ k
            rw [itemSum_append, itemSum_single, hba.allocatedPh k]; simp
          · intro k
            show (prune (addX a.pending res)).getD k = itemSum (a.items ++ [_]) _ k
            rw [itemSum_append, itemSum_single, prune_addX_getD _ _ hwp hr, hba.pending k]; simp
        · intro q hq _ k
          constructor
          · show q.allocated.getD k = _
            simp only [hl, if_true]; omega
          · show (addX q.pending res).getD k = _
            rw [addX_getD _ _ hr]
            show _ = q.pending.getD k - a.pending.getD k + (if a.live = true then (prune (addX a.pending res)).getD k else 0)
            rw [prune_addX_getD _ _ hwp hr]
            simp only [hl, if_true]; omega

/-! ### the scheduler binds an ask -/

/-- an outstanding ask is counted in the pending total of its application and of every queue above it -/
theorem pending_ge (apps : List CApp)
    (hnn : ∀ x ∈ apps, x.live = true → ∀ j ∈ x.items, NonNeg j.res)
    (hbA : ∀ x ∈ apps, x.live = true → AppBooks x)
    (a : CApp) (ha : a ∈ apps) (hl : a.live = true) (i : CItem) (hi : i ∈ a.items)
    (hc : (i.inReq && !i.allocated) = true) (q : CQueue) (hbq : QueueBooks apps q)
    (hun : under a.queue q.path = true) (k : String) :
    0 ≤ i.res.getD k ∧ i.res.getD k ≤ a.pending.getD k ∧ a.pending.getD k ≤ q.pending.getD k := by
  refine ⟨nonNeg_getD (hnn a ha hl i hi) k, ?_, ?_⟩
  · rw [(hbA a ha hl).pending k]
    exact le_sumIf a.items _ (fun j => j.res.getD k) (fun j hj _ => nonNeg_getD (hnn a ha hl j hj) k) i hi hc
  · rw [hbq.pending k]
    refine le_sumIf apps _ (fun x => x.pending.getD k) ?_ a ha (by simp [hl, hun])
    intro x hx hcx
    simp only [Bool.and_eq_true] at hcx
    rw [(hbA x hx hcx.1).pending k]
    exact sumIf_nonneg _ _ _ (fun j hj _ => nonNeg_getD (hnn x hx hcx.1 j hj) k)

theorem itemKeys_atMostOne {l : List CItem} (h : l.Pairwise (fun i j => i.key ≠ j.key)) (key : String) :
    AtMostOne l (fun x => x.key == key) := atMostOne_of_pairwise_ne l (·.key) key h

/-- the (unique) item with key `key` is replaced by `g i` -/
theorem itemSum_upd (l : List CItem) (hk : l.Pairwise (fun i j => i.key ≠ j.key)) (key : String) (g : CItem → CItem)
    (i : CItem) (hi : i ∈ l) (hkey : i.key = key) (c : CItem → Bool) (k : String) :
    itemSum (l.map (fun x => if (x.key == key) = true then g x else x)) c k =
      itemSum l c k - (if c i = true then i.res.getD k else 0) + (if c (g i) = true then (g i).res.getD k else 0) :=
  sumIf_map_upd l (fun x => x.key == key) g c _ i (itemKeys_atMostOne hk key) hi (by simp [hkey])

theorem books_schedAlloc (s s' : Core) (app key node : String)
    (hw : CoreWF s) (hb : Books s) (h : s.schedAlloc app key node = some s') : Books s' := by
  unfold schedAlloc at h
  split at h
  · rename_i a n hfind hnode
    obtain ⟨ham, hl, hid⟩ := findApp_some hfind
    split at h
    · cases h
    · rename_i i hitem
      split at h
      · cases h
      · simp only [Option.some.injEq] at h
        subst h
        have him : i ∈ a.items := List.mem_of_find?_eq_some hitem
        have hip := List.find?_some hitem
        simp only [Bool.and_eq_true, beq_iff_eq, Bool.not_eq_true'] at hip
        obtain ⟨⟨hkey, hreq⟩, hnal⟩ := hip
        have hnb : i.bound = false := by
          cases hbd : i.bound with
          | false => rfl
          | true => rw [hw.boundAllocated a ham hl i him hbd] at hnal; cases hnal
        obtain ⟨hwp, hwa, hwh⟩ := hw.appRes a ham hl
        obtain ⟨hwr, hnn⟩ := hw.itemRes a ham hl i him
        have hba := hb.apps a ham hl
        have hkeys := hw.itemKeys a ham hl
        have hge := fun q hq hun k => pending_ge s.apps (fun x hx hxl j hj => (hw.itemRes x hx hxl j hj).2) hb.apps a ham hl i him
          (by simp [hreq, hnal]) q (hb.queues q hq) hun k
        have hnodes : ∀ phv : Bool, ∀ m ∈ updNs s.nodes node (fun n => { n with
            allocs := n.allocs ++ [{ key := key, app := app, res := i.res, foreign := false, ph := phv }],
            allocated := addX n.allocated i.res, available := prune (subX n.available i.res) }), NodeBooks m := by
          intro phv
          apply books_upd_nodes _ _ _ hb.nodes
          intro m hm _ hmb
          obtain ⟨_, ho, ha, hv⟩ := hw.nodeRes m hm
          constructor
          · intro k
            show (addX m.allocated i.res).getD k = allocSum (m.allocs ++ [_]) k
            rw [addX_getD _ _ hwr, allocSum_append, ← hmb.allocated k]; simp [allocSum, sumIf_single]
          · intro k
            show (prune (subX m.available i.res)).getD k = m.total.getD k - (addX m.allocated i.res).getD k - m.occupied.getD k
            rw [prune_subX_getD _ _ hv hwr, addX_getD _ _ hwr, hmb.available k]; omega
        have hqon : ∀ q ∈ s.queues, under a.queue q.path = true → ∀ k,
            (addX q.allocated i.res).getD k = q.allocated.getD k + i.res.getD k ∧
            (decPendingRes q.pending i.res).getD k = q.pending.getD k - i.res.getD k := by
          intro q hq hun k
          obtain ⟨_, hqp, hqr⟩ := hw.queueRes q hq
          refine ⟨addX_getD _ _ hwr k, decPendingRes_getD _ _ hqp hwr hqr (fun k' => ?_) k⟩
          have := hge q hq hun k'; omega
        cases hph : i.ph with
        | true =>
          refine books_upd s _ app a _ (pathChain s a.queue) _ rfl rfl (hnodes _) hw.appIds ham hl hid hb.apps hb.queues
            rfl ?_ (chain_iff s a.queue) (fun _ => rfl) ?_
          · intro _
            refine ⟨?_, ?_, ?_⟩
            · intro k
              show a.allocated.getD k = itemSum (a.items.map _) _ k
              rw [itemSum_upd _ hkeys key _ i him hkey, hba.allocated k]; simp [hnb, hph]
            · intro k
              show (addX a.allocatedPh i.res).getD k = itemSum (a.items.map _) _ k
              rw [itemSum_upd _ hkeys key _ i him hkey, addX_getD _ _ hwr, hba.allocatedPh k]; simp [hnb, hph]
            · intro k
              show (prune (subX a.pending i.res)).getD k = itemSum (a.items.map _) _ k
              rw [itemSum_upd _ hkeys key _ i him hkey, prune_subX_getD _ _ hwp hwr, hba.pending k]; simp [hreq, hnal]
          · intro q hq hun k
            obtain ⟨h1, h2⟩ := hqon q hq hun k
            constructor
            · show (addX q.allocated i.res).getD k = q.allocated.getD k - (a.allocated.getD k + a.allocatedPh.getD k) +
                (if a.live = true then a.allocated.getD k + (addX a.allocatedPh i.res).getD k else 0)
              rw [h1, addX_getD _ _ hwr]; simp only [hl, if_true]; omega
            · show (decPendingRes q.pending i.res).getD k = q.pending.getD k - a.pending.getD k +
                (if a.live = true then (prune (subX a.pending i.res)).getD k else 0)
              rw [h2, prune_subX_getD _ _ hwp hwr]; simp only [hl, if_true]; omega
        | false =>
          refine books_upd s _ app a _ (pathChain s a.queue) _ rfl rfl (hnodes _) hw.appIds ham hl hid hb.apps hb.queues
            rfl ?_ (chain_iff s a.queue) (fun _ => rfl) ?_
          · intro _
            refine ⟨?_, ?_, ?_⟩
            · intro k
              show (addX a.allocated i.res).getD k = itemSum (a.items.map _) _ k
              rw [itemSum_upd _ hkeys key _ i him hkey, addX_getD _ _ hwr, hba.allocated k]; simp [hnb, hph]
            · intro k
              show a.allocatedPh.getD k = itemSum (a.items.map _) _ k
              rw [itemSum_upd _ hkeys key _ i him hkey, hba.allocatedPh k]; simp [hnb, hph]
            · intro k
              show (prune (subX a.pending i.res)).getD k = itemSum (a.items.map _) _ k
              rw [itemSum_upd _ hkeys key _ i him hkey, prune_subX_getD _ _ hwp hwr, hba.pending k]; simp [hreq, hnal]
          · intro q hq hun k
            obtain ⟨h1, h2⟩ := hqon q hq hun k
            constructor
            · show (addX q.allocated i.res).getD k = q.allocated.getD k - (a.allocated.getD k + a.allocatedPh.getD k) +
                (if a.live = true then (addX a.allocated i.res).getD k + a.allocatedPh.getD k else 0)
              rw [h1, addX_getD _ _ hwr]; simp only [hl, if_true]; omega
            · show (decPendingRes q.pending i.res).getD k = q.pending.getD k - a.pending.getD k +
                (if a.live = true then (prune (subX a.pending i.res)).getD k else 0)
              rw [h2, prune_subX_getD _ _ hwp hwr]; simp only [hl, if_true]; omega
  · cases h

/-! ### releases: `releaseKey` in two steps -/

/-- step (1) on the node -/
def relNode (key : String) (i : CItem) (n : CNode) : CNode :=
  { n with allocs := n.allocs.filter (·.key != key), allocated := prune (subX n.allocated i.res), available := addX n.available i.res }

/-- step (1) on a queue of the chain: the released allocation -/
def relQ1 (i : CItem) (q : CQueue) : CQueue := { q with allocated := prune (subX q.allocated i.res) }

/-- step (1) on a queue of the chain when the application `a'` leaves the partition: Queue.RemoveApplication -/
def relQ2 (a' : CApp) (q : CQueue) : CQueue :=
  { q with pending := decPendingRes q.pending a'.pending,
           allocated := prune (subX (subX q.allocated a'.allocated) a'.allocatedPh) }

/-- step (1) of `releaseKey`: application, node, queues, counters -/
def rel1 (s : Core) (app key : String) (a : CApp) (i : CItem) : Core :=
  if i.bound then
    let a' := relApp key i a
    let sA := updApp s app (fun _ => a')
    let sN := match s.findNode i.node with
      | none => sA
      | some _ => updNode sA i.node (relNode key i)
    let sQ := if (s.findNode i.node).isSome && strictlyGreaterThanZero (some i.res) then
        updQueues sN (pathChain s a.queue) (relQ1 i) else sN
    let sT := if a'.live then sQ else updQueues sQ (pathChain s a.queue) (relQ2 a')
    { sT with allocations := sT.allocations - 1, phAllocations := if i.ph then sT.phAllocations - 1 else sT.phAllocations }
  else s

/-- step (2) on the application: the ask `x` (key `key`) leaves application.requests -/
def askApp (key : String) (x : CItem) (a : CApp) : CApp :=
  let items := a.items.filter (·.key != key)
  let pending := if x.allocated then a.pending else prune (subX a.pending x.res)
  let hasPh := items.any (fun y => y.bound && y.ph)
  let st := if isZero (some pending) && isZero (some a.allocated) && a.state != "Failing" && a.state != "Completing" && !hasPh
            then fireState a.state .complete else a.state
  { a with items := items, pending := pending, state := st, log := if st != a.state then a.log ++ [st] else a.log }

/-- step (2) of `releaseKey`: RemoveAllocationAsk -/
def rel2 (s1 : Core) (app key : String) (chain : List String) : Core :=
  match s1.findApp app with
  | none => s1
  | some a1 =>
    match a1.items.find? (fun x => x.key == key && x.inReq) with
    | none => s1
    | some x =>
      let s2 := updApp s1 app (askApp key x)
      if x.allocated then s2 else
        updQueues s2 chain (fun q => { q with pending := decPendingRes q.pending x.res })

theorem releaseKey_eq (s : Core) (app key : String) (a : CApp) (i : CItem)
    (ha : s.findApp app = some a) (hi : a.items.find? (·.key == key) = some i) :
    s.releaseKey app key = rel2 (rel1 s app key a i) app key (pathChain s a.queue) := by
  unfold releaseKey
  simp only [ha, hi]
  rfl

/-- The side condition under which `releaseKey` is the modelled release path: if the item `i` the request names is a
    bound allocation of the application, its node is registered and lists the allocation (non-foreign, same size) —
    the implementation skips the node and queue update otherwise. -/
structure ReleaseOK (s : Core) (app key : String) : Prop where
  onNode : ∀ a i, s.findApp app = some a → a.items.find? (·.key == key) = some i → i.bound = true →
    ∃ n, s.findNode i.node = some n ∧ ∃ x ∈ n.allocs, x.key = key ∧ x.foreign = false ∧ ∀ k, x.res.getD k = i.res.getD k

/-- what step (2) and `decPending` need of a state -/
structure PendWF (s : Core) : Prop where
  appIds : s.apps.Pairwise (fun a b => a.live = true → b.live = true → a.id ≠ b.id)
  itemKeys : ∀ a ∈ s.apps, a.live = true → a.items.Pairwise (fun i j => i.key ≠ j.key)
  pendingWf : ∀ a ∈ s.apps, a.live = true → wf a.pending = true
  itemRes : ∀ a ∈ s.apps, a.live = true → ∀ i ∈ a.items, wf i.res = true ∧ NonNeg i.res
  queuePending : ∀ q ∈ s.queues, wf q.pending = true ∧ allInR q.pending

theorem CoreWF.pendWF {s : Core} (hw : CoreWF s) : PendWF s :=
  ⟨hw.appIds, hw.itemKeys, fun a ha hl => (hw.appRes a ha hl).1, hw.itemRes, fun q hq => (hw.queueRes q hq).2⟩

theorem relApp_queue (key : String) (i : CItem) (a : CApp) : (relApp key i a).queue = a.queue := by
  unfold relApp; cases i.ph <;> rfl
theorem relApp_id (key : String) (i : CItem) (a : CApp) : (relApp key i a).id = a.id := by
  unfold relApp; cases i.ph <;> rfl
theorem relApp_pending (key : String) (i : CItem) (a : CApp) : (relApp key i a).pending = a.pending := by
  unfold relApp; cases i.ph <;> rfl
theorem relApp_items (key : String) (i : CItem) (a : CApp) :
    (relApp key i a).items = a.items.map (fun x => if (x.key == key) = true then { x with bound := false } else x) := by
  unfold relApp; cases i.ph <;> rfl
theorem relApp_allocated (key : String) (i : CItem) (a : CApp) :
    (relApp key i a).allocated = if i.ph = true then a.allocated else prune (subX a.allocated i.res) := by
  unfold relApp; cases i.ph <;> rfl
theorem relApp_allocatedPh (key : String) (i : CItem) (a : CApp) :
    (relApp key i a).allocatedPh = if i.ph = true then prune (subX a.allocatedPh i.res) else a.allocatedPh := by
  unfold relApp; cases i.ph <;> rfl

theorem itemSum_rm (l : List CItem) (hk : l.Pairwise (fun i j => i.key ≠ j.key)) (key : String)
    (x : CItem) (hx : x ∈ l) (hkey : x.key = key) (c : CItem → Bool) (k : String) :
    itemSum (l.filter (fun y => y.key != key)) c k = itemSum l c k - (if c x = true then x.res.getD k else 0) :=
  sumIf_filter_rm l (fun y => y.key == key) c _ x (itemKeys_atMostOne hk key) hx (by simp [hkey])

theorem pairwise_updApps (apps : List CApp) (id : String) (f : CApp → CApp)
    (hid : ∀ x, (x.live && x.id == id) = true → (f x).id = x.id)
    (h : apps.Pairwise (fun a b => a.live = true → b.live = true → a.id ≠ b.id)) :
    (updApps apps id f).Pairwise (fun a b => a.live = true → b.live = true → a.id ≠ b.id) := by
  unfold updApps
  rw [List.pairwise_map]
  refine List.Pairwise.imp ?_ h
  intro x y hxy hx hy
  have hlive : ∀ z : CApp, (if (z.live && z.id == id) = true then f z else z).live = true → z.live = true := by
    intro z hz
    by_cases hd : (z.live && z.id == id) = true
    · simp only [Bool.and_eq_true] at hd; exact hd.1
    · rw [if_neg hd] at hz; exact hz
  have hids : ∀ z : CApp, (if (z.live && z.id == id) = true then f z else z).id = z.id := by
    intro z; split
    · rename_i hd; exact hid z hd
    · rfl
  rw [hids x, hids y]
  exact hxy (hlive x hx) (hlive y hy)

/-- the members of `updApps`, when the updated application is known -/
theorem mem_updApps {apps : List CApp} {id : String} {f : CApp → CApp} {a : CApp}
    (hu : apps.Pairwise (fun a b => a.live = true → b.live = true → a.id ≠ b.id))
    (ha : a ∈ apps) (hl : a.live = true) (hid : a.id = id) {y : CApp} (hy : y ∈ updApps apps id f) :
    y = f a ∨ (y ∈ apps ∧ ¬ (y.live && y.id == id) = true) := by
  obtain ⟨z, hz, rfl⟩ := List.mem_map.mp hy
  by_cases hd : (z.live && z.id == id) = true
  · left
    have : z = a := (appIds_atMostOne id hu).eq hz ha hd (by simp [hl, hid])
    rw [if_pos hd, this]
  · right; rw [if_neg hd]; exact ⟨hz, hd⟩

/-! ### step (1) of `releaseKey` -/

/-- what step (1) does to a queue on the chain of the application (`a'` = the application after the release) -/
def relQ (i : CItem) (a' : CApp) (q : CQueue) : CQueue :=
  let q1 := if strictlyGreaterThanZero (some i.res) = true then relQ1 i q else q
  if a'.live = true then q1 else relQ2 a' q1

theorem updQs_comp (queues : List CQueue) (chain : List String) (f g : CQueue → CQueue) (hf : ∀ q, (f q).path = q.path) :
    updQs (updQs queues chain f) chain g = updQs queues chain (fun q => g (f q)) := by
  unfold updQs
  rw [List.map_map]
  apply List.map_congr_left
  intro q _
  by_cases hc : chain.contains q.path = true
  · simp only [Function.comp, if_pos hc, hf]
  · simp only [Function.comp, if_neg hc]

/-- the three lists after step (1) for a bound allocation on a registered node -/
theorem rel1_lists (s : Core) (app key : String) (a : CApp) (i : CItem) (hbd : i.bound = true) (n : CNode)
    (hn : s.findNode i.node = some n) :
    (rel1 s app key a i).apps = updApps s.apps app (fun _ => relApp key i a) ∧
    (rel1 s app key a i).nodes = updNs s.nodes i.node (relNode key i) ∧
    (rel1 s app key a i).queues = updQs s.queues (pathChain s a.queue) (relQ i (relApp key i a)) := by
  unfold rel1
  simp only [hbd, if_true, hn, Option.isSome_some, Bool.true_and]
  refine ⟨?_, ?_, ?_⟩
  · cases (relApp key i a).live <;> cases strictlyGreaterThanZero (some i.res) <;> rfl
  · cases (relApp key i a).live <;> cases strictlyGreaterThanZero (some i.res) <;> rfl
  · unfold relQ
    cases hlv : (relApp key i a).live <;> cases hz : strictlyGreaterThanZero (some i.res)
    · show updQs s.queues _ (relQ2 _) = _
      simp only [Bool.false_eq_true, if_false]
    · show updQs (updQs s.queues _ (relQ1 i)) _ (relQ2 _) = _
      rw [updQs_comp _ _ (relQ1 i) _ (fun _ => rfl)]
      simp only [Bool.false_eq_true, if_false, if_true]
    · show s.queues = _
      simp only [Bool.false_eq_true, if_false, if_true]
      exact (updQs_id _ _).symm
    · show updQs s.queues _ (relQ1 i) = _
      simp only [if_true]

theorem relQ_path (i : CItem) (a' : CApp) (q : CQueue) : (relQ i a' q).path = q.path := by
  unfold relQ relQ2 relQ1
  cases a'.live <;> cases strictlyGreaterThanZero (some i.res) <;> rfl

theorem relQ_pending_live (i : CItem) (a' : CApp) (q : CQueue) (h : a'.live = true) : (relQ i a' q).pending = q.pending := by
  unfold relQ relQ1
  rw [h]
  cases strictlyGreaterThanZero (some i.res) <;> rfl

theorem relQ_pending (i : CItem) (a' : CApp) (q : CQueue) (k : String)
    (hqp : wf q.pending = true) (hqr : allInR q.pending) (hap : wf a'.pending = true)
    (hle : ∀ k, 0 ≤ a'.pending.getD k ∧ a'.pending.getD k ≤ q.pending.getD k) :
    (relQ i a' q).pending.getD k = q.pending.getD k - (if a'.live = true then 0 else a'.pending.getD k) := by
  cases hlv : a'.live with
  | true => rw [relQ_pending_live i a' q hlv]; simp
  | false =>
    have : (relQ i a' q).pending = decPendingRes q.pending a'.pending := by
      unfold relQ relQ2 relQ1; rw [hlv]
      cases strictlyGreaterThanZero (some i.res) <;> rfl
    rw [this, decPendingRes_getD _ _ hqp hap hqr hle]; simp

theorem relQ_allocated (i : CItem) (a' : CApp) (q : CQueue) (k : String)
    (hqa : wf q.allocated = true) (hwr : wf i.res = true) (hnn : NonNeg i.res)
    (ha : wf a'.allocated = true) (hh : wf a'.allocatedPh = true) :
    (relQ i a' q).allocated.getD k =
      q.allocated.getD k - i.res.getD k - (if a'.live = true then 0 else a'.allocated.getD k + a'.allocatedPh.getD k) := by
  have h1 : ∀ q1 : CQueue, wf q1.allocated = true → q1.allocated.getD k = q.allocated.getD k - i.res.getD k →
      (if a'.live = true then q1 else relQ2 a' q1).allocated.getD k =
        q.allocated.getD k - i.res.getD k - (if a'.live = true then 0 else a'.allocated.getD k + a'.allocatedPh.getD k) := by
    intro q1 hw1 he
    cases hlv : a'.live with
    | true => simp only [if_true]; omega
    | false =>
      simp only [Bool.false_eq_true, if_false]
      show (prune (subX (subX q1.allocated a'.allocated) a'.allocatedPh)).getD k = _
      rw [prune_getD _ (subX_wf _ _ (subX_wf _ _ hw1)), subX_getD _ _ hh, subX_getD _ _ ha, he]; omega
  unfold relQ
  cases hz : strictlyGreaterThanZero (some i.res) with
  | true =>
    simp only [if_true]
    exact h1 (relQ1 i q) (prune_wf _ (subX_wf _ _ hqa)) (prune_subX_getD _ _ hqa hwr k)
  | false =>
    simp only [Bool.false_eq_true, if_false]
    exact h1 q hqa (by rw [zero_of_not_sgtz hnn hz k]; omega)

/-- an application's pending total is non-negative and counted in every queue above it -/
theorem app_pending_ge (apps : List CApp)
    (hnn : ∀ x ∈ apps, x.live = true → ∀ j ∈ x.items, NonNeg j.res)
    (hbA : ∀ x ∈ apps, x.live = true → AppBooks x)
    (a : CApp) (ha : a ∈ apps) (hl : a.live = true) (q : CQueue) (hbq : QueueBooks apps q)
    (hun : under a.queue q.path = true) (k : String) :
    0 ≤ a.pending.getD k ∧ a.pending.getD k ≤ q.pending.getD k := by
  have hpos : ∀ x ∈ apps, x.live = true → 0 ≤ x.pending.getD k := by
    intro x hx hxl
    rw [(hbA x hx hxl).pending k]
    exact sumIf_nonneg _ _ _ (fun j hj _ => nonNeg_getD (hnn x hx hxl j hj) k)
  refine ⟨hpos a ha hl, ?_⟩
  rw [hbq.pending k]
  refine le_sumIf apps _ (fun x => x.pending.getD k) ?_ a ha (by simp [hl, hun])
  intro x hx hcx
  simp only [Bool.and_eq_true] at hcx
  exact hpos x hx hcx.1

theorem appBooks_relApp (key : String) (i : CItem) (a : CApp) (hba : AppBooks a)
    (hkeys : a.items.Pairwise (fun i j => i.key ≠ j.key)) (him : i ∈ a.items) (hkey : i.key = key) (hbd : i.bound = true)
    (hwa : wf a.allocated = true) (hwh : wf a.allocatedPh = true) (hwr : wf i.res = true) :
    AppBooks (relApp key i a) := by
  refine ⟨?_, ?_, ?_⟩
  · intro k
    rw [relApp_items, relApp_allocated, itemSum_upd _ hkeys key _ i him hkey, ← hba.allocated k]
    cases hph : i.ph
    · simp [hbd, prune_subX_getD _ _ hwa hwr]
    · simp [hbd]
  · intro k
    rw [relApp_items, relApp_allocatedPh, itemSum_upd _ hkeys key _ i him hkey, ← hba.allocatedPh k]
    cases hph : i.ph
    · simp [hbd]
    · simp [hbd, prune_subX_getD _ _ hwh hwr]
  · intro k
    rw [relApp_items, relApp_pending, itemSum_upd _ hkeys key _ i him hkey, ← hba.pending k]
    simp

theorem find_key_some {l : List CItem} {key : String} {i : CItem} (h : l.find? (·.key == key) = some i) :
    i ∈ l ∧ i.key = key :=
  ⟨List.mem_of_find?_eq_some h, by simpa using List.find?_some h⟩

theorem books_rel1 (s : Core) (app key : String) (a : CApp) (i : CItem) (hw : CoreWF s) (hb : Books s)
    (hfind : s.findApp app = some a) (hitem : a.items.find? (·.key == key) = some i) (hok : ReleaseOK s app key) :
    Books (rel1 s app key a i) := by
  cases hbd : i.bound with
  | false => unfold rel1; simp only [hbd, Bool.false_eq_true, if_false]; exact hb
  | true =>
    obtain ⟨ham, hl, hid⟩ := findApp_some hfind
    obtain ⟨him, hkey⟩ := find_key_some hitem
    obtain ⟨n, hn, x, hxm, hxk, hxf, hxr⟩ := hok.onNode a i hfind hitem hbd
    obtain ⟨hnm, hnid⟩ := findNode_some hn
    obtain ⟨hwp, hwa, hwh⟩ := hw.appRes a ham hl
    obtain ⟨hwr, hnn⟩ := hw.itemRes a ham hl i him
    have hba := hb.apps a ham hl
    have hkeys := hw.itemKeys a ham hl
    obtain ⟨hta, htn, htq⟩ := rel1_lists s app key a i hbd n hn
    -- the node
    have hnodes : ∀ m ∈ (rel1 s app key a i).nodes, NodeBooks m := by
      rw [htn]
      apply books_upd_nodes _ _ _ hb.nodes
      intro m hm hmid hmb
      have : m = n := nodeIds_eq hw hnm hm (hmid.trans hnid.symm)
      subst this
      obtain ⟨_, ho, hma, hv⟩ := hw.nodeRes m hm
      constructor
      · intro k
        show (prune (subX m.allocated i.res)).getD k = allocSum (m.allocs.filter (fun y => y.key != key)) k
        rw [prune_subX_getD _ _ hma hwr, allocSum_rm _ (hw.allocKeys m hm) key x hxm hxk, hmb.allocated k, hxr k]
        simp [hxf]
      · intro k
        show (addX m.available i.res).getD k = m.total.getD k - (prune (subX m.allocated i.res)).getD k - m.occupied.getD k
        rw [addX_getD _ _ hwr, prune_subX_getD _ _ hma hwr, hmb.available k]; omega
    have hfa : (relApp key i a).live = true → AppBooks (relApp key i a) :=
      fun _ => appBooks_relApp key i a hba hkeys him hkey hbd hwa hwh hwr
    have hwa' : wf (relApp key i a).allocated = true := by
      rw [relApp_allocated]; split
      · exact hwa
      · exact prune_wf _ (subX_wf _ _ hwa)
    have hwh' : wf (relApp key i a).allocatedPh = true := by
      rw [relApp_allocatedPh]; split
      · exact prune_wf _ (subX_wf _ _ hwh)
      · exact hwh
    refine books_upd s _ app a _ (pathChain s a.queue) _ hta htq hnodes hw.appIds ham hl hid hb.apps hb.queues
      (relApp_queue key i a) hfa (chain_iff s a.queue) (relQ_path i _) ?_
    intro q hq hun k
    obtain ⟨hqa, hqp, hqr⟩ := hw.queueRes q hq
    have hge := fun k' => app_pending_ge s.apps (fun y hy hyl j hj => (hw.itemRes y hy hyl j hj).2) hb.apps a ham hl q
      (hb.queues q hq) hun k'
    show (relQ i (relApp key i a) q).allocated.getD k = _ ∧ (relQ i (relApp key i a) q).pending.getD k = _
    rw [relQ_allocated i _ q k hqa hwr hnn hwa' hwh',
      relQ_pending i _ q k hqp hqr (by rw [relApp_pending]; exact hwp) (by rw [relApp_pending]; exact hge)]
    show _ = q.allocated.getD k - (a.allocated.getD k + a.allocatedPh.getD k)
        + (if (relApp key i a).live = true then (relApp key i a).allocated.getD k + (relApp key i a).allocatedPh.getD k else 0) ∧
      _ = q.pending.getD k - a.pending.getD k + (if (relApp key i a).live = true then (relApp key i a).pending.getD k else 0)
    rw [relApp_allocated, relApp_allocatedPh, relApp_pending]
    cases hph : i.ph with
    | false =>
      cases hlv : (relApp key i a).live <;>
        simp only [Bool.false_eq_true, if_false, if_true, prune_subX_getD _ _ hwa hwr] <;> omega
    | true =>
      cases hlv : (relApp key i a).live <;>
        simp only [Bool.false_eq_true, if_false, if_true, prune_subX_getD _ _ hwh hwr] <;> omega

/-! ### step (2) of `releaseKey` -/

theorem books_rel2 (s1 : Core) (app key : String) (chain : List String) (hp : PendWF s1) (hb : Books s1)
    (hchain : ∀ a1, s1.findApp app = some a1 → ∀ q ∈ s1.queues, (chain.contains q.path = true ↔ under a1.queue q.path = true))
    (hnb : ∀ a1, s1.findApp app = some a1 → ∀ x ∈ a1.items, x.key = key → x.bound = false) :
    Books (rel2 s1 app key chain) := by
  unfold rel2
  split
  · exact hb
  · rename_i a hfind
    obtain ⟨ham, hl, hid⟩ := findApp_some hfind
    split
    · exact hb
    · rename_i x hitem
      have hxm : x ∈ a.items := List.mem_of_find?_eq_some hitem
      have hxp := List.find?_some hitem
      simp only [Bool.and_eq_true, beq_iff_eq] at hxp
      obtain ⟨hxk, hxreq⟩ := hxp
      have hxb := hnb a hfind x hxm hxk
      have hwp := hp.pendingWf a ham hl
      obtain ⟨hwr, hnn⟩ := hp.itemRes a ham hl x hxm
      have hba := hb.apps a ham hl
      have hkeys := hp.itemKeys a ham hl
      have hfa : AppBooks (askApp key x a) := by
        refine ⟨?_, ?_, ?_⟩
        · intro k
          show a.allocated.getD k = itemSum (a.items.filter (fun y => y.key != key)) _ k
          rw [itemSum_rm _ hkeys key x hxm hxk, hba.allocated k]; simp [hxb]
        · intro k
          show a.allocatedPh.getD k = itemSum (a.items.filter (fun y => y.key != key)) _ k
          rw [itemSum_rm _ hkeys key x hxm hxk, hba.allocatedPh k]; simp [hxb]
        · intro k
          show (if x.allocated = true then a.pending else prune (subX a.pending x.res)).getD k =
            itemSum (a.items.filter (fun y => y.key != key)) _ k
          rw [itemSum_rm _ hkeys key x hxm hxk, ← hba.pending k]
          cases hal : x.allocated
          · simp [hxreq, prune_subX_getD _ _ hwp hwr]
          · simp
      cases hal : x.allocated with
      | true =>
        simp only [if_true]
        refine books_upd s1 _ app a _ chain (fun q => q) rfl (by rw [updApp_queues, updQs_id]) hb.nodes hp.appIds ham hl hid
          hb.apps hb.queues rfl (fun _ => hfa) (hchain a hfind) (fun _ => rfl) ?_
        intro q hq _ k
        constructor
        · show q.allocated.getD k = q.allocated.getD k - (a.allocated.getD k + a.allocatedPh.getD k) +
            (if a.live = true then a.allocated.getD k + a.allocatedPh.getD k else 0)
          simp only [hl, if_true]; omega
        · show q.pending.getD k = q.pending.getD k - a.pending.getD k +
            (if a.live = true then (if x.allocated = true then a.pending else prune (subX a.pending x.res)).getD k else 0)
          simp only [hl, hal, if_true]; omega
      | false =>
        simp only [Bool.false_eq_true, if_false]
        refine books_upd s1 _ app a _ chain _ rfl rfl hb.nodes hp.appIds ham hl hid
          hb.apps hb.queues rfl (fun _ => hfa) (hchain a hfind) (fun _ => rfl) ?_
        intro q hq hun k
        obtain ⟨hqp, hqr⟩ := hp.queuePending q hq
        have hge := fun k' => pending_ge s1.apps (fun y hy hyl j hj => (hp.itemRes y hy hyl j hj).2) hb.apps a ham hl x hxm
          (by simp [hxreq, hal]) q (hb.queues q hq) hun k'
        constructor
        · show q.allocated.getD k = q.allocated.getD k - (a.allocated.getD k + a.allocatedPh.getD k) +
            (if a.live = true then a.allocated.getD k + a.allocatedPh.getD k else 0)
          simp only [hl, if_true]; omega
        · show (decPendingRes q.pending x.res).getD k = q.pending.getD k - a.pending.getD k +
            (if a.live = true then (if x.allocated = true then a.pending else prune (subX a.pending x.res)).getD k else 0)
          rw [decPendingRes_getD _ _ hqp hwr hqr (fun k' => by have := hge k'; omega)]
          simp only [hl, hal, if_true, Bool.false_eq_true, if_false, prune_subX_getD _ _ hwp hwr]; omega

/-! ### `releaseKey` -/

theorem unbound_key (key : String) (x : CItem) : (if (x.key == key) = true then { x with bound := false } else x).key = x.key := by
  split <;> rfl

/-- what step (2) needs to know about the state after step (1) -/
theorem rel1_props (s : Core) (app key : String) (a : CApp) (i : CItem) (hw : CoreWF s)
    (hfind : s.findApp app = some a) (hitem : a.items.find? (·.key == key) = some i)
    (hnode : i.bound = true → ∃ n, s.findNode i.node = some n)
    (hstay : i.bound = true → (relApp key i a).live = true) :
    PendWF (rel1 s app key a i) ∧
    (∀ a1, (rel1 s app key a i).findApp app = some a1 →
      a1.queue = a.queue ∧ ∀ x ∈ a1.items, x.key = key → x.bound = false) ∧
    (∀ q1 ∈ (rel1 s app key a i).queues, ∃ q ∈ s.queues, q.path = q1.path) := by
  obtain ⟨ham, hl, hid⟩ := findApp_some hfind
  obtain ⟨him, hkey⟩ := find_key_some hitem
  have hkeys := hw.itemKeys a ham hl
  cases hbd : i.bound with
  | false =>
    have hs : rel1 s app key a i = s := by unfold rel1; simp only [hbd, Bool.false_eq_true, if_false]
    rw [hs]
    refine ⟨hw.pendWF, ?_, fun q hq => ⟨q, hq, rfl⟩⟩
    intro a1 h1
    rw [hfind] at h1
    simp only [Option.some.injEq] at h1
    subst h1
    refine ⟨rfl, ?_⟩
    intro x hx hxk
    have : x = i := (itemKeys_atMostOne hkeys key).eq hx him (by simp [hxk]) (by simp [hkey])
    rw [this]; exact hbd
  | true =>
    obtain ⟨n, hn⟩ := hnode hbd
    obtain ⟨hta, _, htq⟩ := rel1_lists s app key a i hbd n hn
    have hmem : ∀ y ∈ (rel1 s app key a i).apps, y = relApp key i a ∨ (y ∈ s.apps ∧ ¬ (y.live && y.id == app) = true) := by
      intro y hy; rw [hta] at hy
      exact mem_updApps (f := fun _ => relApp key i a) hw.appIds ham hl hid hy
    have hq : ∀ q1 ∈ (rel1 s app key a i).queues, ∃ q ∈ s.queues, q.path = q1.path ∧ q.pending = q1.pending := by
      intro q1 hq1
      rw [htq] at hq1
      obtain ⟨q, hqm, rfl⟩ := List.mem_map.mp hq1
      refine ⟨q, hqm, ?_⟩
      split
      · exact ⟨(relQ_path i _ q).symm, (relQ_pending_live i _ q (hstay hbd)).symm⟩
      · exact ⟨rfl, rfl⟩
    have hitems : ∀ x ∈ (relApp key i a).items, ∃ j ∈ a.items, x.key = j.key ∧ x.res = j.res ∧ (j.key = key → x.bound = false) := by
      intro x hx
      rw [relApp_items] at hx
      obtain ⟨j, hj, rfl⟩ := List.mem_map.mp hx
      refine ⟨j, hj, ?_⟩
      by_cases hjk : (j.key == key) = true
      · rw [if_pos hjk]; exact ⟨rfl, rfl, fun _ => rfl⟩
      · rw [if_neg hjk]; exact ⟨rfl, rfl, fun h => absurd (by simpa using h) hjk⟩
    refine ⟨⟨?_, ?_, ?_, ?_, ?_⟩, ?_, fun q1 hq1 => let ⟨q, hqm, hp, _⟩ := hq q1 hq1; ⟨q, hqm, hp⟩⟩
    · rw [hta]
      refine pairwise_updApps _ _ _ ?_ hw.appIds
      intro x hx
      simp only [Bool.and_eq_true, beq_iff_eq] at hx
      rw [relApp_id, hid, hx.2]
    · intro y hy hyl
      rcases hmem y hy with rfl | ⟨hys, _⟩
      · rw [relApp_items, List.pairwise_map]
        refine List.Pairwise.imp ?_ hkeys
        intro u v huv; rw [unbound_key, unbound_key]; exact huv
      · exact hw.itemKeys y hys hyl
    · intro y hy hyl
      rcases hmem y hy with rfl | ⟨hys, _⟩
      · rw [relApp_pending]; exact (hw.appRes a ham hl).1
      · exact (hw.appRes y hys hyl).1
    · intro y hy hyl x hx
      rcases hmem y hy with rfl | ⟨hys, _⟩
      · obtain ⟨j, hj, _, hr, _⟩ := hitems x hx
        rw [hr]; exact hw.itemRes a ham hl j hj
      · exact hw.itemRes y hys hyl x hx
    · intro q1 hq1
      obtain ⟨q, hqm, _, hp⟩ := hq q1 hq1
      rw [← hp]; exact (hw.queueRes q hqm).2
    · intro a1 h1
      obtain ⟨h1m, h1l, h1id⟩ := findApp_some h1
      rcases hmem a1 h1m with rfl | ⟨_, hnd⟩
      · refine ⟨relApp_queue key i a, ?_⟩
        intro x hx hxk
        obtain ⟨j, _, hk, _, hb⟩ := hitems x hx
        exact hb (hk ▸ hxk)
      · exact absurd (by simp [h1l, h1id]) hnd

theorem findApp_eq_none {s : Core} {id : String} (h : ∀ a ∈ s.apps, a.live = true → a.id ≠ id) : s.findApp id = none := by
  unfold findApp
  rw [List.find?_eq_none]
  intro a ha
  obtain ⟨hm, hl⟩ := mem_liveApps.mp ha
  simpa using h a hm hl

/-- after step (1) the application is gone if the release made it leave the partition -/
theorem rel1_findApp_none (s : Core) (app key : String) (a : CApp) (i : CItem) (hw : CoreWF s)
    (hfind : s.findApp app = some a) (hbd : i.bound = true) (n : CNode) (hn : s.findNode i.node = some n)
    (hlv : (relApp key i a).live = false) : (rel1 s app key a i).findApp app = none := by
  obtain ⟨ham, hl, hid⟩ := findApp_some hfind
  obtain ⟨hta, _, _⟩ := rel1_lists s app key a i hbd n hn
  apply findApp_eq_none
  intro y hy hyl
  rw [hta] at hy
  rcases mem_updApps (f := fun _ => relApp key i a) hw.appIds ham hl hid hy with h | ⟨_, hnd⟩
  · rw [h, hlv] at hyl; cases hyl
  · intro he; exact hnd (by simp [hyl, he])

theorem books_releaseKey (s : Core) (app key : String)
    (hw : CoreWF s) (hb : Books s) (hrel : ReleaseOK s app key) : Books (s.releaseKey app key) := by
  cases hfind : s.findApp app with
  | none => unfold releaseKey; simp only [hfind]; exact hb
  | some a =>
    cases hitem : a.items.find? (·.key == key) with
    | none => unfold releaseKey; simp only [hfind, hitem]; exact hb
    | some i =>
      rw [releaseKey_eq s app key a i hfind hitem]
      have hb1 := books_rel1 s app key a i hw hb hfind hitem hrel
      by_cases hgone : i.bound = true ∧ (relApp key i a).live = false
      · -- the application has left the partition: there is no ask left to remove
        obtain ⟨n, hn, _⟩ := hrel.onNode a i hfind hitem hgone.1
        have hnone := rel1_findApp_none s app key a i hw hfind hgone.1 n hn hgone.2
        unfold rel2
        simp only [hnone]
        exact hb1
      · have hstay : i.bound = true → (relApp key i a).live = true := by
          intro hbd
          cases hlv : (relApp key i a).live with
          | true => rfl
          | false => exact absurd ⟨hbd, hlv⟩ hgone
        obtain ⟨hp, hq, hqs⟩ := rel1_props s app key a i hw hfind hitem
          (fun hbd => let ⟨n, hn, _⟩ := hrel.onNode a i hfind hitem hbd; ⟨n, hn⟩) hstay
        apply books_rel2 _ app key _ hp hb1
        · intro a1 h1 q1 hq1
          rw [(hq a1 h1).1]
          obtain ⟨q, hqm, hpath⟩ := hqs q1 hq1
          exact mem_pathChain s.queues a.queue q1.path ⟨q, hqm, hpath⟩
        · intro a1 h1; exact (hq a1 h1).2

/-! ### the executable clauses imply the books -/

theorem sparseEq_getD {a b : Res} (h : sparseEq a b = true) (k : String) : a.getD k = b.getD k := by
  unfold sparseEq at h
  by_cases hk : k ∈ a.keys ++ b.keys
  · simpa using List.all_eq_true.mp h k hk
  · rw [List.mem_append, not_or] at hk
    rw [getD_of_not_mem_keys hk.1, getD_of_not_mem_keys hk.2]

theorem foldl_addX_getD' (l : List Res) (hr : ∀ r ∈ l, wf r = true) (acc : Res) (k : String) :
    (l.foldl addX acc).getD k = acc.getD k + (l.map (fun r => r.getD k)).sum := by
  induction l generalizing acc with
  | nil => simp
  | cons a t ih =>
    rw [List.foldl_cons, ih (fun x hx => hr x (List.mem_cons_of_mem _ hx)), addX_getD _ _ (hr a List.mem_cons_self),
      List.map_cons, List.sum_cons]
    omega

theorem sumRes_getD (l : List Res) (hr : ∀ r ∈ l, wf r = true) (k : String) :
    (sumRes l).getD k = (l.map (fun r => r.getD k)).sum := by
  unfold sumRes; rw [foldl_addX_getD' l hr]; simp

/-- `sumRes` of the vectors `f x` of a list is the pointwise sum -/
theorem sumRes_map_getD {α : Type} (l : List α) (f : α → Res) (hr : ∀ x ∈ l, wf (f x) = true) (k : String) :
    (sumRes (l.map f)).getD k = (l.map (fun x => (f x).getD k)).sum := by
  rw [sumRes_getD _ (by intro r hr'; obtain ⟨x, hx, rfl⟩ := List.mem_map.mp hr'; exact hr x hx), List.map_map]
  rfl

theorem sum_map_zero {β : Type} (cs : List β) : (cs.map (fun _ => (0 : Int))).sum = 0 := by
  induction cs with
  | nil => rfl
  | cons c t ih => rw [List.map_cons, List.sum_cons, ih]; rfl

theorem sum_map_add {β : Type} (cs : List β) (f g : β → Int) :
    (cs.map (fun c => f c + g c)).sum = (cs.map f).sum + (cs.map g).sum := by
  induction cs with
  | nil => rfl
  | cons c t ih => simp only [List.map_cons, List.sum_cons, ih]; omega

theorem sum_ite_atMostOne {β : Type} (cs : List β) (P : β → Bool) (v : Int) (hu : AtMostOne cs P) :
    (cs.map (fun c => if P c = true then v else 0)).sum = if cs.any P = true then v else 0 := by
  induction cs with
  | nil => rfl
  | cons c t ih =>
    have hp := List.pairwise_cons.mp hu
    rw [List.map_cons, List.sum_cons, ih hp.2, List.any_cons]
    cases hc : P c with
    | false => simp
    | true =>
      have : t.any P = false := by
        rw [List.any_eq_false]; intro x hx hpx; exact hp.1 x hx hc hpx
      simp [this]

/-- the applications below a parent queue are partitioned by its children -/
theorem sum_partition {α β : Type} (cs : List β) (l : List α) (L : α → Bool) (U : α → β → Bool) (V : α → Bool) (g : α → Int)
    (hex : ∀ a ∈ l, L a = true → V a = cs.any (U a))
    (hdis : ∀ a ∈ l, L a = true → AtMostOne cs (U a)) :
    (cs.map (fun c => sumIf l (fun a => L a && U a c) g)).sum = sumIf l (fun a => L a && V a) g := by
  induction l with
  | nil => simp only [sumIf_nil]; exact sum_map_zero cs
  | cons a t ih =>
    have ih' := ih (fun x hx => hex x (List.mem_cons_of_mem _ hx)) (fun x hx => hdis x (List.mem_cons_of_mem _ hx))
    simp only [sumIf_cons]
    rw [sum_map_add, ih']
    congr 1
    cases hl : L a with
    | false => simp only [Bool.false_and, Bool.false_eq_true, if_false]; exact sum_map_zero cs
    | true =>
      simp only [Bool.true_and]
      rw [sum_ite_atMostOne cs (U a) (g a) (hdis a List.mem_cons_self hl), hex a List.mem_cons_self hl]

/-- Shape of the queue tree relative to `under` (the hierarchy is encoded in the paths): children are deeper than their
    parent, applications sit in leaf queues (below a leaf there is only the leaf), and an application is below a parent
    queue exactly if it is below one — and only one — of its children. -/
structure QueueTreeWF (s : Core) : Prop where
  deeper : ∀ q ∈ s.queues, ∀ c ∈ s.children q.path, q.path.length < c.path.length
  leafApps : ∀ q ∈ s.queues, q.leaf = true → ∀ a ∈ s.apps, a.live = true → under a.queue q.path = (a.queue == q.path)
  parentApps : ∀ q ∈ s.queues, q.leaf = false → ∀ a ∈ s.apps, a.live = true →
    under a.queue q.path = (s.children q.path).any (fun c => under a.queue c.path)
  disjoint : ∀ q ∈ s.queues, q.leaf = false → (s.children q.path).Pairwise (fun c d =>
    ∀ a ∈ s.apps, a.live = true → under a.queue c.path = true → under a.queue d.path = true → False)

theorem clause_none {s : Core} (h : s.conserved = none) (c : Core → Option String) (hc : c ∈ conservedClauses) : c s = none := by
  unfold conserved at h
  exact List.findSome?_eq_none_iff.mp h c hc

theorem sumIf_liveApps (s : Core) (c : CApp → Bool) (g : CApp → Int) :
    ((s.liveApps.filter c).map g).sum = sumIf s.apps (fun a => a.live && c a) g := by
  unfold liveApps sumIf; rw [List.filter_filter]
  congr 2
  apply List.filter_congr
  intro x _; exact Bool.and_comm _ _

theorem mem_length_le_sum (l : List CQueue) (q : CQueue) (hq : q ∈ l) : q.path.length ≤ (l.map (fun x => x.path.length)).sum := by
  induction l with
  | nil => cases hq
  | cons b t ih =>
    rw [List.map_cons, List.sum_cons]
    cases hq with
    | head => omega
    | tail _ h => have := ih h; omega

theorem appBooks_of_exec (s : Core) (hw : CoreWF s) (h1 : s.conserved = none) : ∀ a ∈ s.apps, a.live = true → AppBooks a := by
  intro a ha hl
  have hlive : a ∈ s.liveApps := mem_liveApps.mpr ⟨ha, hl⟩
  have hres : ∀ (c : CItem → Bool), ∀ i ∈ a.items.filter c, wf i.res = true :=
    fun c i hi => (hw.itemRes a ha hl i (List.mem_filter.mp hi).1).1
  have key : ∀ (r : Res) (c : CItem → Bool) (msg : String),
      (if sparseEq r (sumRes ((a.items.filter c).map (·.res))) = true then none else some msg) = none →
      ∀ k, r.getD k = itemSum a.items c k := by
    intro r c msg h k
    split at h
    · rename_i he
      rw [sparseEq_getD he k, sumRes_map_getD _ _ (hres c)]; rfl
    · cases h
  refine ⟨?_, ?_, ?_⟩
  · have := List.findSome?_eq_none_iff.mp (clause_none h1 I1 (by simp [conservedClauses])) a hlive
    exact key _ _ _ this
  · have := List.findSome?_eq_none_iff.mp (clause_none h1 I2 (by simp [conservedClauses])) a hlive
    exact key _ _ _ this
  · have := List.findSome?_eq_none_iff.mp (clause_none h1 I3 (by simp [conservedClauses])) a hlive
    exact key _ _ _ this

theorem nodeBooks_of_exec (s : Core) (hw : CoreWF s) (h2 : s.nodeLedger = none) : ∀ n ∈ s.nodes, NodeBooks n := by
  intro n hn
  have := List.findSome?_eq_none_iff.mp h2 n hn
  obtain ⟨_, ho, ha, _⟩ := hw.nodeRes n hn
  simp only at this
  split at this
  · cases this
  · rename_i he1
    split at this
    · cases this
    · rename_i he2
      simp only [Bool.not_eq_true', Bool.not_eq_false] at he1 he2
      constructor
      · intro k
        rw [sparseEq_getD he1 k, sumRes_map_getD _ _ (fun x hx => hw.allocRes n hn x (List.mem_filter.mp hx).1)]; rfl
      · intro k
        rw [sparseEq_getD he2 k, subX_getD _ _ ho, subX_getD _ _ ha]

theorem I4_none {s : Core} (h : I4 s = none) (q : CQueue) (hq : q ∈ s.queues) (hl : q.leaf = true) :
    sparseEq q.allocated (sumRes ((s.liveApps.filter (fun a => a.queue == q.path)).map (fun a => addX a.allocated a.allocatedPh))) = true ∧
    sparseEq q.pending (sumRes ((s.liveApps.filter (fun a => a.queue == q.path)).map (·.pending))) = true := by
  have := List.findSome?_eq_none_iff.mp h q (List.mem_filter.mpr ⟨hq, hl⟩)
  simp only at this
  split at this
  · cases this
  · rename_i he1
    split at this
    · cases this
    · rename_i he2
      simp only [Bool.not_eq_true', Bool.not_eq_false] at he1 he2
      exact ⟨he1, he2⟩

theorem I5_none {s : Core} (h : I5 s = none) (q : CQueue) (hq : q ∈ s.queues) (hl : q.leaf = false) :
    sparseEq q.allocated (sumRes ((s.children q.path).map (·.allocated))) = true ∧
    sparseEq q.pending (sumRes ((s.children q.path).map (·.pending))) = true := by
  have := List.findSome?_eq_none_iff.mp h q (List.mem_filter.mpr ⟨hq, by simp [hl]⟩)
  simp only at this
  split at this
  · cases this
  · rename_i he1
    split at this
    · cases this
    · rename_i he2
      simp only [Bool.not_eq_true', Bool.not_eq_false] at he1 he2
      exact ⟨he1, he2⟩

theorem queueBooks_of_exec (s : Core) (hw : CoreWF s) (ht : QueueTreeWF s) (h1 : s.conserved = none) :
    ∀ q ∈ s.queues, QueueBooks s.apps q := by
  have h4 := clause_none h1 I4 (by simp [conservedClauses])
  have h5 := clause_none h1 I5 (by simp [conservedClauses])
  have main : ∀ n : Nat, ∀ q ∈ s.queues, (s.queues.map (fun x => x.path.length)).sum - q.path.length < n → QueueBooks s.apps q := by
    intro n
    induction n with
    | zero => intro q _ h; omega
    | succ n ih =>
      intro q hq hlt
      cases hleaf : q.leaf with
      | true =>
        obtain ⟨e1, e2⟩ := I4_none h4 q hq hleaf
        have hmine : ∀ a ∈ s.liveApps.filter (fun a => a.queue == q.path), a ∈ s.apps ∧ a.live = true :=
          fun a ha => mem_liveApps.mp (List.mem_filter.mp ha).1
        have hcongr : ∀ g : CApp → Int, sumIf s.apps (fun a => a.live && (a.queue == q.path)) g = qsum s.apps q.path g := by
          intro g
          apply sumIf_congr
          intro a ha
          cases hl : a.live with
          | false => simp
          | true => simp only [Bool.true_and]; rw [ht.leafApps q hq hleaf a ha hl]
        constructor
        · intro k
          rw [sparseEq_getD e1 k, sumRes_map_getD _ _ (fun a ha => addX_wf _ _ (hw.appRes a (hmine a ha).1 (hmine a ha).2).2.1),
            ← hcongr, ← sumIf_liveApps]
          congr 1
          apply List.map_congr_left
          intro a ha
          exact addX_getD _ _ (hw.appRes a (hmine a ha).1 (hmine a ha).2).2.2 k
        · intro k
          rw [sparseEq_getD e2 k, sumRes_map_getD _ _ (fun a ha => (hw.appRes a (hmine a ha).1 (hmine a ha).2).1),
            ← hcongr, ← sumIf_liveApps]
      | false =>
        obtain ⟨e1, e2⟩ := I5_none h5 q hq hleaf
        have hch : ∀ c ∈ s.children q.path, c ∈ s.queues ∧ QueueBooks s.apps c := by
          intro c hc
          have hcq : c ∈ s.queues := (List.mem_filter.mp hc).1
          refine ⟨hcq, ih c hcq ?_⟩
          have h1 := ht.deeper q hq c hc
          have h2 := mem_length_le_sum s.queues c hcq
          omega
        have hpart : ∀ g : CApp → Int,
            ((s.children q.path).map (fun c => qsum s.apps c.path g)).sum = qsum s.apps q.path g := by
          intro g
          unfold qsum
          apply sum_partition (s.children q.path) s.apps (fun a => a.live) (fun a c => under a.queue c.path)
            (fun a => under a.queue q.path) g
          · intro a ha hl; exact ht.parentApps q hq hleaf a ha hl
          · intro a ha hl
            refine List.Pairwise.imp ?_ (ht.disjoint q hq hleaf)
            intro c d h hc hd; exact h a ha hl hc hd
        constructor
        · intro k
          rw [sparseEq_getD e1 k, sumRes_map_getD _ _ (fun c hc => (hw.queueRes c (hch c hc).1).1), ← hpart]
          congr 1
          apply List.map_congr_left
          intro c hc; exact (hch c hc).2.allocated k
        · intro k
          rw [sparseEq_getD e2 k, sumRes_map_getD _ _ (fun c hc => (hw.queueRes c (hch c hc).1).2.1), ← hpart]
          congr 1
          apply List.map_congr_left
          intro c hc; exact (hch c hc).2.pending k
  intro q hq
  exact main _ q hq (Nat.lt_succ_self _)

/-- The executable clauses the driver evaluates (`Core.conserved`, `Core.nodeLedger`) imply the books. -/
theorem books_of_exec (s : Core) (hw : CoreWF s) (ht : QueueTreeWF s) (h1 : s.conserved = none) (h2 : s.nodeLedger = none) :
    Books s :=
  ⟨appBooks_of_exec s hw h1, queueBooks_of_exec s hw ht h1, nodeBooks_of_exec s hw h2⟩

end Yk
