/- ykdrv: reads protocol lines on stdin, prints one verdict per line. -/
import YkDrv.ResDrv
open Lean YkDrv

def dispatch (j : Json) : Except String String := do
  let c ← (fld j "c") >>= jStr
  match c with
  | "res" => resStep j
  | _ => pure "bad-op"

partial def loop (h : IO.FS.Stream) (out : IO.FS.Stream) : IO Unit := do
  let line ← h.getLine
  if line.isEmpty then return ()
  let t := line.trimAscii.toString
  if t.isEmpty then
    loop h out
  else
    let v := match Json.parse t with
      | .error e => s!"bad-op parse: {e}"
      | .ok j => match dispatch j with
        | .ok s => s
        | .error e => s!"bad-op {e}"
    out.putStrLn v
    loop h out

def main : IO Unit := do
  let out ← IO.getStdout
  loop (← IO.getStdin) out
  out.flush
