/- ykdrv: reads protocol lines on stdin, prints one verdict per line. -/
import YkDrv.ResDrv
import YkDrv.RingDrv
import YkDrv.NodeDrv
import YkDrv.StreamDrv
import YkDrv.QueueDrv
import YkDrv.CoreDrv
import YkDrv.SortDrv
import YkDrv.PlaceDrv
import YkDrv.LockDrv
import YkDrv.ReloadDrv
import YkDrv.MalDrv
import YkDrv.RecoverDrv
import YkDrv.ConfDrv
import YkDrv.UgmDrv
import YkDrv.PreemptDrv
open Lean YkDrv

structure DrvState where
  ring : RingSt := {}
  node : NodeSt := {}
  queue : QueueSt := {}
  core : CoreSt := {}
  place : PlaceSt := {}
  reload : ReloadSt := {}
  mal : MalSt := {}
  recover : RecoverSt := {}
  ugm : UgmSt := {}
  preempt : PreSt := {}

def dispatch (st : DrvState) (j : Json) : Except String (DrvState × String) := do
  let c ← (fld j "c") >>= jStr
  match c with
  | "res" => pure (st, ← resStep j)
  | "ring" => let (r, v) ← ringStep st.ring j; pure ({ st with ring := r }, v)
  | "sort" => pure (st, ← sortStep j)
  | "lock" => pure (st, ← lockStep j)
  | "conf" => pure (st, ← confStep j)
  | "stream" => pure (st, ← streamStep j)
  | "core" => let (r, v) ← coreStep st.core j; pure ({ st with core := r }, v)
  | "queue" => let (r, v) ← queueStep st.queue j; pure ({ st with queue := r }, v)
  | "node" => let (r, v) ← nodeStep st.node j; pure ({ st with node := r }, v)
  | "preempt" => let (r, v) ← preemptStep st.preempt j; pure ({ st with preempt := r }, v)
  | "ugm" => let (r, v) ← ugmStep st.ugm j; pure ({ st with ugm := r }, v)
  | "recover" => let (r, v) ← recoverStep st.recover j; pure ({ st with recover := r }, v)
  | "mal" => let (r, v) ← malStep st.mal j; pure ({ st with mal := r }, v)
  | "reload" => let (r, v) ← reloadStep st.reload j; pure ({ st with reload := r }, v)
  | "place" => let (r, v) ← placeStep st.place j; pure ({ st with place := r }, v)
  | _ => pure (st, "bad-op")

partial def loop (h : IO.FS.Stream) (out : IO.FS.Stream) (st : DrvState) : IO Unit := do
  let line ← h.getLine
  if line.isEmpty then return ()
  let t := line.trimAscii.toString
  if t.isEmpty || t.startsWith "#" then
    loop h out st
  else
    match Json.parse t with
    | .error e => out.putStrLn s!"bad-op parse: {e}"; loop h out st
    | .ok j =>
      match dispatch st j with
      | .ok (st', s) =>
        -- a panic recovered by the harness is always reported, whatever the model says
        let s := match j.getObjVal? "panic" with
          | .ok _ => "panic " ++ ((j.getObjValD "c").getStr?.toOption.getD "") ++ "." ++ ((j.getObjValD "op").getStr?.toOption.getD "") ++
                     " ;; " ++ (if s.startsWith "inv " then (s.drop 4).toString else s)
          | .error _ => s
        out.putStrLn s; loop h out st'
      | .error e => out.putStrLn s!"bad-op {e}"; loop h out st

def main : IO Unit := do
  let out ← IO.getStdout
  loop (← IO.getStdin) out {}
  out.flush
