/-
  C06 — Gang scheduling bookkeeping (task-group counters and the replacement guard).
  Here: the per task group counters, the replacement-size guard, and — about `Core.swapConfirm`, the stepped model of
  partition.removeAllocation(PLACEHOLDER_REPLACED) / Application.ReplaceAllocation / Node.ReplaceAllocation
  (YkModel/CoreOps2.lean, compared with the real core after every confirmation) — "after the shim confirms the swap the
  placeholder is gone and node and queue usage reflect the real allocation (never more than before)".  User usage is
  tracked outside the `Core` ledgers (C05, monitored on the real core: CoreState.usageOK).
-/
import YkProofs.Reserve
import YkProofs.Core2Swap
import YkProofs.Core2Example
namespace Yk.C06
open Yk Yk.Res Yk.Core

/-- Per task group the number reported as replaced never exceeds the number of placeholders — in the stronger internal
    form replaced + timed out (+ cancelled + still pending + still allocated) = count, for every history. -/
theorem replaced_le_count (ops : List PhOp) :
    let d := ops.foldl PhData.step {}
    d.replaced + d.timedOut + d.cancelled + d.pendingAsks + d.allocated = d.count ∧ d.replaced ≤ d.count :=
  phdata_balance ops

/-- A real ask replaces a placeholder only if it is no larger: the guard `delta.HasNegativeValue()` of
    tryPlaceholderAllocate (delta = placeholder − real, exact arithmetic) is false exactly when the real ask fits in the
    placeholder on every type the real ask names. -/
theorem swap_not_larger (ph real : Res) (hp : wf ph = true) (hr : wf real = true) :
    hasNegativeValue (some (subX ph real)) = false ↔ ∀ k, real.getD k ≤ ph.getD k :=
  swap_guard_iff ph real hp hr

example : hasNegativeValue (some (subX [("cpu", 4)] [("cpu", 2), ("gpu", 1)])) = true := by decide

/-! ### the confirmed swap

`SwapCase s app phKey a p r`: the confirmation names the bound placeholder `p` of application `a`, linked to the real
allocation `r`.  `SwapOK s app phKey`: the placeholder is listed by its (registered) node with the size the application
books, `r` is a proper replacement (`ReplOK`: allocated, not yet bound, not a placeholder) and not larger than `p`. -/

/-- After the confirmed swap the placeholder is gone: the application no longer lists it as an allocation and its node no
    longer lists it. -/
theorem swap_placeholder_gone (s : Core) (app phKey : String) (a : CApp) (p r : CItem) (hw : CoreWF s)
    (hok : SwapOK s app phKey) (hc : SwapCase s app phKey a p r) :
    (∀ a1, (s.swapConfirm app phKey).findApp app = some a1 → ∀ x ∈ a1.items, x.key = phKey → x.bound = false) ∧
    (∀ n', (s.swapConfirm app phKey).findNode p.node = some n' → ∀ x ∈ n'.allocs, x.key ≠ phKey) :=
  ⟨swapConfirm_placeholder_unbound s app phKey a p r hw hok hc, (swapConfirm_placeholder_gone s app phKey a p r hok hc).2⟩

/-- Node usage reflects the real allocation, never more than before: the placeholder's node is charged the real
    allocation instead of the placeholder (same node) or no longer charged the placeholder (the real allocation was
    parked on another node when the swap started). -/
theorem swap_node_usage (s : Core) (app phKey : String) (a : CApp) (p r : CItem) (hw : CoreWF s)
    (hok : SwapOK s app phKey) (hc : SwapCase s app phKey a p r) (n n' : CNode)
    (hn : s.findNode p.node = some n) (hn' : (s.swapConfirm app phKey).findNode p.node = some n') (k : String) :
    n'.allocated.getD k = n.allocated.getD k - p.res.getD k + (if r.node = p.node then r.res.getD k else 0) ∧
    n'.allocated.getD k ≤ n.allocated.getD k :=
  swapConfirm_node_usage s app phKey a p r hw hok hc n n' hn hn' k

/-- Queue usage reflects the real allocation, never more than before: every queue on the application's chain gives back
    the size difference, the other queues are untouched (while the application stays in the partition). -/
theorem swap_queue_usage (s : Core) (app phKey : String) (a : CApp) (p r : CItem) (hw : CoreWF s)
    (hok : SwapOK s app phKey) (hc : SwapCase s app phKey a p r) (hlive : (replApp p r a).live = true) :
    ∃ F : CQueue → CQueue, (s.swapConfirm app phKey).queues = s.queues.map F ∧ ∀ q ∈ s.queues,
      (F q).path = q.path ∧
      (under a.queue q.path = true → ∀ k,
        (F q).allocated.getD k = q.allocated.getD k - (p.res.getD k - r.res.getD k) ∧
        (F q).allocated.getD k ≤ q.allocated.getD k) ∧
      (under a.queue q.path = false → (F q).allocated = q.allocated) :=
  swapConfirm_queue_usage s app phKey a p r hw hok hc hlive

/-- … and all ledgers still agree afterwards (application = Σ items, queues = Σ applications, node = Σ allocations).
    Explicit non-goal: a placeholder that is RESIZED below its replacement while the swap is in flight (UpdateAllocation of
    the placeholder's key between tryPlaceholderAllocate and the shim's confirmation).  The code does not re-check the
    size guard at confirmation time and does not charge the queue the difference, so the books break there; that stream
    is outside the legal shim behaviour (the shim is deleting that pod) and the generator does not produce it.  It is
    exactly the case `SwapOK.notLarger` excludes. -/
theorem swap_books (s : Core) (app phKey : String) (hw : CoreWF s) (hb : Books s) (hok : SwapOK s app phKey) :
    Books (s.swapConfirm app phKey) :=
  (swapConfirm_props s app phKey hw hb hok).1

/-- Without the node-side condition the clause is false of the code: a placeholder whose node is not registered is
    "replaced" without the node and queue update (witness `swapW`). -/
theorem swap_books_refuted_without_node :
    CoreWF swapW ∧ Books swapW ∧ ¬ Books (swapW.swapConfirm "app" "ph") :=
  let ⟨h1, h2, _, h4⟩ := swapConfirm_books_refuted_without_node; ⟨h1, h2, h4⟩

/-- non-vacuity: in the example history (YkProofs/Core2Example.lean) the state before the confirmation meets `SwapOK`
    (placeholder `p1` of cpu 4 bound on `n1`, linked to the real allocation `r1` of cpu 2 on the same node), and the
    confirmation leaves cpu 2 on the node and in both queues -/
example : SwapOK Example.s6 "app" "p1" ∧ (Example.s7.nodes.map (·.allocated)) = [[("cpu", 2)]] ∧
    (Example.s7.queues.map (·.allocated)) = [[("cpu", 2)], [("cpu", 2)]] :=
  ⟨swapOK_of_b (by decide +kernel), Example.s7_node, Example.s7_queues⟩

end Yk.C06
