/-
  C06 — Gang scheduling bookkeeping (task-group counters and the replacement guard).
  The clauses about node / queue / user usage after a confirmed swap are part of the conservation theorems (C03) and
  are monitored on the real core (CoreState.gangOK, conserved); here: the per task group counters and the
  replacement-size guard.
-/
import YkProofs.Reserve
namespace Yk.C06
open Yk Yk.Res

/-- Per task group the number reported as replaced never exceeds the number of placeholders — in the stronger internal
    form replaced + timed out (+ cancelled + still pending + still allocated) = count, for every history. -/
theorem replaced_le_count (ops : List PhOp) :
    let d := ops.foldl PhData.step {}
    d.replaced + d.timedOut + d.cancelled + d.pendingAsks + d.allocated = d.count ∧ d.replaced ≤ d.count :=
  phdata_balance ops

/-- A real ask replaces a placeholder only if it is no larger: the guard `delta.HasNegativeValue()` of
    tryPlaceholderAllocate (delta = placeholder − real, exact arithmetic) is false exactly when the real ask fits in the
    placeholder on every type the real ask names. -/
theorem swap_not_larger (ph real : Res) (hp : wf ph = true) (hr : wf real = true) :
    hasNegativeValue (some (subX ph real)) = false ↔ ∀ k, real.getD k ≤ ph.getD k :=
  swap_guard_iff ph real hp hr

example : hasNegativeValue (some (subX [("cpu", 4)] [("cpu", 2), ("gpu", 1)])) = true := by decide

end Yk.C06
