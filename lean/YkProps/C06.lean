/-
  C06 — Gang scheduling bookkeeping (task-group counters and the replacement guard).
  Here: the per task group counters, the replacement-size guard, and — about `Core.swapConfirm`, the stepped model of
  partition.removeAllocation(PLACEHOLDER_REPLACED) / Application.ReplaceAllocation / Node.ReplaceAllocation
  (YkModel/CoreOps2.lean, compared with the real core after every confirmation) — "after the shim confirms the swap the
  placeholder is gone and node and queue usage reflect the real allocation (never more than before)".  User usage is
  tracked outside the `Core` ledgers (C05, monitored on the real core: CoreState.usageOK).
-/
import YkProofs.Reserve
import YkProofs.Core2Swap
import YkProofs.Core2Example
import YkProofs.Core2LifeEx
namespace Yk.C06
open Yk Yk.Res Yk.Core

/-- Per task group the number reported as replaced never exceeds the number of placeholders — in the stronger internal
    form replaced + timed out (+ cancelled + still pending + still allocated) = count, for every history. -/
theorem replaced_le_count (ops : List PhOp) :
    let d := ops.foldl PhData.step {}
    d.replaced + d.timedOut + d.cancelled + d.pendingAsks + d.allocated = d.count ∧ d.replaced ≤ d.count :=
  phdata_balance ops

/-- A real ask replaces a placeholder only if it is no larger: the guard `delta.HasNegativeValue()` of
    tryPlaceholderAllocate (delta = placeholder − real, exact arithmetic) is false exactly when the real ask fits in the
    placeholder on every type the real ask names. -/
theorem swap_not_larger (ph real : Res) (hp : wf ph = true) (hr : wf real = true) :
    hasNegativeValue (some (subX ph real)) = false ↔ ∀ k, real.getD k ≤ ph.getD k :=
  swap_guard_iff ph real hp hr

example : hasNegativeValue (some (subX [("cpu", 4)] [("cpu", 2), ("gpu", 1)])) = true := by decide

/-! ### the confirmed swap

`SwapCase s app phKey a p r`: the confirmation names the bound placeholder `p` of application `a`, linked to the real
allocation `r`.  `SwapOK s app phKey`: the placeholder is listed by its (registered) node with the size the application
books, `r` is a proper replacement (`ReplOK`: allocated, not yet bound, not a placeholder) and not larger than `p`. -/

/-- After the confirmed swap the placeholder is gone: the application no longer lists it as an allocation and its node no
    longer lists it. -/
theorem swap_placeholder_gone (s : Core) (app phKey : String) (a : CApp) (p r : CItem) (hw : CoreWF s)
    (hok : SwapOK s app phKey) (hc : SwapCase s app phKey a p r) :
    (∀ a1, (s.swapConfirm app phKey).findApp app = some a1 → ∀ x ∈ a1.items, x.key = phKey → x.bound = false) ∧
    (∀ n', (s.swapConfirm app phKey).findNode p.node = some n' → ∀ x ∈ n'.allocs, x.key ≠ phKey) :=
  ⟨swapConfirm_placeholder_unbound s app phKey a p r hw hok hc, (swapConfirm_placeholder_gone s app phKey a p r hok hc).2⟩

/-- Node usage reflects the real allocation, never more than before: the placeholder's node is charged the real
    allocation instead of the placeholder (same node) or no longer charged the placeholder (the real allocation was
    parked on another node when the swap started). -/
theorem swap_node_usage (s : Core) (app phKey : String) (a : CApp) (p r : CItem) (hw : CoreWF s)
    (hok : SwapOK s app phKey) (hc : SwapCase s app phKey a p r) (n n' : CNode)
    (hn : s.findNode p.node = some n) (hn' : (s.swapConfirm app phKey).findNode p.node = some n') (k : String) :
    n'.allocated.getD k = n.allocated.getD k - p.res.getD k + (if r.node = p.node then r.res.getD k else 0) ∧
    n'.allocated.getD k ≤ n.allocated.getD k :=
  swapConfirm_node_usage s app phKey a p r hw hok hc n n' hn hn' k

/-- Queue usage reflects the real allocation, never more than before: every queue on the application's chain gives back
    the size difference, the other queues are untouched (while the application stays in the partition). -/
theorem swap_queue_usage (s : Core) (app phKey : String) (a : CApp) (p r : CItem) (hw : CoreWF s)
    (hok : SwapOK s app phKey) (hc : SwapCase s app phKey a p r) (hlive : (replApp p r a).live = true) :
    ∃ F : CQueue → CQueue, (s.swapConfirm app phKey).queues = s.queues.map F ∧ ∀ q ∈ s.queues,
      (F q).path = q.path ∧
      (under a.queue q.path = true → ∀ k,
        (F q).allocated.getD k = q.allocated.getD k - (p.res.getD k - r.res.getD k) ∧
        (F q).allocated.getD k ≤ q.allocated.getD k) ∧
      (under a.queue q.path = false → (F q).allocated = q.allocated) :=
  swapConfirm_queue_usage s app phKey a p r hw hok hc hlive

/-- … and all ledgers still agree afterwards (application = Σ items, queues = Σ applications, node = Σ allocations).
    Explicit non-goal: a placeholder that is RESIZED below its replacement while the swap is in flight (UpdateAllocation of
    the placeholder's key between tryPlaceholderAllocate and the shim's confirmation).  The code does not re-check the
    size guard at confirmation time and does not charge the queue the difference, so the books break there; that stream
    is outside the legal shim behaviour (the shim is deleting that pod) and the generator does not produce it.  It is
    exactly the case `SwapOK.notLarger` excludes. -/
theorem swap_books (s : Core) (app phKey : String) (hw : CoreWF s) (hb : Books s) (hok : SwapOK s app phKey) :
    Books (s.swapConfirm app phKey) :=
  (swapConfirm_props s app phKey hw hb hok).1

/-- Without the node-side condition the clause is false of the code: a placeholder whose node is not registered is
    "replaced" without the node and queue update (witness `swapW`). -/
theorem swap_books_refuted_without_node :
    CoreWF swapW ∧ Books swapW ∧ ¬ Books (swapW.swapConfirm "app" "ph") :=
  let ⟨h1, h2, _, h4⟩ := swapConfirm_books_refuted_without_node; ⟨h1, h2, h4⟩

/-- non-vacuity: in the example history (YkProofs/Core2Example.lean) the state before the confirmation meets `SwapOK`
    (placeholder `p1` of cpu 4 bound on `n1`, linked to the real allocation `r1` of cpu 2 on the same node), and the
    confirmation leaves cpu 2 on the node and in both queues -/
example : SwapOK Example.s6 "app" "p1" ∧ (Example.s7.nodes.map (·.allocated)) = [[("cpu", 2)]] ∧
    (Example.s7.queues.map (·.allocated)) = [[("cpu", 2)], [("cpu", 2)]] :=
  ⟨swapOK_of_b (by decide +kernel), Example.s7_node, Example.s7_queues⟩

/-! ### the placeholder timeout (application.go timeoutPlaceholderProcessing, model `Core.phTimeout`)

The gang style is not part of the dumped state; `phTimeoutOf hard s app` is `phTimeout` with the event the code raises
(FailApplication for Hard, ResumeApplication for Soft; an event that is not valid in the current state changes nothing).
The stepped model does not carry the messages to the shim: that the released placeholders are announced (TIMEOUT) is
checked on the real core by the protocol monitor (C04), not here. -/

/-- The timeout fires before the application runs (New / Accepted): a Hard application fails, a Soft one resumes. -/
theorem timeout_hard_fails_soft_resumes (s : Core) (app : String) (a : CApp) (hfind : s.findApp app = some a)
    (hst : a.state = "Accepted" ∨ a.state = "New") :
    (∃ a', (phTimeoutOf true s app).findApp app = some a' ∧ a'.state = "Failing") ∧
    (∃ a', (phTimeoutOf false s app).findApp app = some a' ∧ a'.state = "Resuming") :=
  ⟨phTimeoutOf_hard s app a hfind hst, phTimeoutOf_soft s app a hfind hst⟩

/-- … and when the last placeholder of the failing / resuming application is gone: a resuming application is Accepted
    again (normal scheduling); a failing one is Failed and leaves the partition — once it holds no real allocation either
    (fix 81c5cb7: its real allocations were released with the placeholders; while one of them still waits for the shim's
    confirmation the application stays Failing, and the confirmation of the last one fails it). -/
theorem last_placeholder_gone (tt : TermType) (key : String) (i : CItem) (a : CApp) (hph : i.ph = true)
    (hz : isZero (some (relAppT tt key i a).allocatedPh) = true) :
    (a.state = "Failing" → isZero (some a.allocated) = true →
      (relAppT tt key i a).state = "Failed" ∧ (relAppT tt key i a).live = false) ∧
    (a.state = "Failing" → isZero (some a.allocated) = false →
      (relAppT tt key i a).state = "Failing" ∧ (relAppT tt key i a).live = true) ∧
    (a.state = "Resuming" → (relAppT tt key i a).state = "Accepted" ∧ (relAppT tt key i a).live = true) :=
  ⟨fun h hr => relAppT_failing_last tt key i a hph h hz hr, fun h hr => relAppT_failing_last_keeps tt key i a hph h hz hr,
   fun h => relAppT_resuming_last tt key i a hph h hz⟩

/-- the last real allocation of a failing application: Failed once the placeholders are gone as well, Failing while one
    is left -/
theorem failing_last_real_allocation (tt : TermType) (key : String) (i : CItem) (a : CApp) (hph : i.ph = false)
    (hst : a.state = "Failing") :
    (isZero (some a.pending) = true → isZero (some (relAppT tt key i a).allocated) = true → isZero (some a.allocatedPh) = true →
      (relAppT tt key i a).state = "Failed" ∧ (relAppT tt key i a).live = false) ∧
    (isZero (some a.allocatedPh) = false → (relAppT tt key i a).state = "Failing" ∧ (relAppT tt key i a).live = true) :=
  ⟨fun hp hz hzp => relAppT_failing_last_real tt key i a hph hst hp hz hzp,
   fun hzp => relAppT_failing_real_keeps tt key i a hph hst hzp⟩

/-- A Running / Completing application that still holds placeholders keeps its state and its asks; every bound placeholder
    that is not being preempted is marked released. -/
theorem timeout_running_keeps_state (hard : Bool) (s : Core) (app : String) (a : CApp) (hfind : s.findApp app = some a)
    (hst : a.state = "Running" ∨ a.state = "Completing") (hph : isZero (some a.allocatedPh) = false) :
    ∃ a', (phTimeoutOf hard s app).findApp app = some a' ∧ a'.state = a.state ∧ a'.pending = a.pending ∧
      ∀ i ∈ a'.items, i.bound = true → i.ph = true → i.preempted = false → i.released = true :=
  let ⟨a', h1, h2, h3, _, h5⟩ := phTimeoutOf_case1 hard s app a hfind hst hph; ⟨a', h1, h2, h3, h5⟩

/-- In every other case every placeholder ask (every ask) is released: afterwards the application lists bound items
    only, its pending total is empty, every queue on its chain gives the pending total back, and every bound allocation
    (every placeholder) that is not being preempted is marked released. -/
theorem timeout_releases_asks_and_placeholders (hard : Bool) (s : Core) (app : String) (a : CApp) (hw : CoreWF s) (hb : Books s)
    (hfind : s.findApp app = some a) (hc : LifeE.phCase1 a = false) (hreq : a.items.any (·.inReq) = true) :
    (∃ a', (phTimeoutOf hard s app).findApp app = some a' ∧
      (∀ i ∈ a'.items, i.bound = true ∧ i.inReq = false ∧ i.outstanding = false) ∧ a'.pending = []) ∧
    (∃ a', (phTimeoutOf hard s app).findApp app = some a' ∧
      ∀ i ∈ a'.items, i.bound = true → i.preempted = false → i.released = true) ∧
    (∃ F : CQueue → CQueue, (phTimeoutOf hard s app).queues = s.queues.map F ∧ ∀ q ∈ s.queues,
      (F q).path = q.path ∧ (F q).allocated = q.allocated ∧
      (under a.queue q.path = true → ∀ k, (F q).pending.getD k = q.pending.getD k - a.pending.getD k) ∧
      (under a.queue q.path = false → (F q).pending = q.pending)) :=
  ⟨phTimeoutOf_case2_asks hard s app a hfind hc hreq,
   let ⟨a', h1, h2, _⟩ := phTimeoutOf_released hard s app a hfind; ⟨a', h1, h2 hc⟩,
   phTimeoutOf_case2_queues hard s app a hw hb hfind hc hreq⟩

/-! ### no placeholder outlives its application

`CoreInv s` = `CoreWF ∧ Books ∧ Linked ∧ LifeInv` (YkProofs/Core2LifeRun.lean).  `LifeInv.noPhOrphan`: an application that
has terminated (Completed / Failed) or has left the partition lists no bound placeholder.  It is an invariant of every
operation of the stepped model: an application terminates or leaves only when its placeholder total is zero (then, the
books agreeing and sizes being positive, it lists no bound placeholder) or when all its allocations are released at once.
Side conditions (`RunLifeOK`): `Op.ok2` of every step, a new application is not submitted in a terminated state, the
placeholder timer announces Failing / Resuming or nothing.  (The monitor clause `C03.I7p` / `C06.placeholder-outlives-
application` never fired on the real core either; no refutation exists.) -/

theorem no_placeholder_outlives_its_application (s : Core) (ops : List Op) (h : CoreInv s) (hok : RunLifeOK s ops) :
    ∀ a ∈ (run s ops).apps, (a.live = false ∨ terminated a.state = true) → ∀ i ∈ a.items, i.bound = true → i.ph = false :=
  (reachable_life s ops h hok).life.noPhOrphan

/-- one step: the invariant is preserved by every operation -/
theorem no_placeholder_outlives_step (s : Core) (op : Op) (hw : CoreWF s) (hb : Books s) (hk : Linked s) (hl : LifeInv s)
    (hok : op.ok2 s) (hol : op.okLife) : LifeInv (op.apply s) :=
  step_life s op hw hb hk hl hok hol

/-- non-vacuity: the example histories from the empty partition (YkProofs/Core2Example*.lean; swap on the same node, on
    another node, node removed while the swap is in flight) meet the side conditions; in `exOps` the placeholder `p1`
    is bound after the 4th step and the application is gone at the end -/
example : CoreInv Example.ex0 ∧ RunLifeOK Example.ex0 Example.exOps ∧ RunLifeOK Example.ex0 Example.exOps2 ∧
    RunLifeOK Example.ex0 Example.exOps3 ∧ (Example.s4.nodes.map (·.allocated)) = [[("cpu", 4)]] :=
  ⟨Example.coreInv_ex0, Example.exOps_life, Example.exOps2_life, Example.exOps3_life, Example.s4_node.1⟩

/-- non-vacuity of the timeout theorems: the example application right after it was added (state New … Accepted after
    its first ask) -/
example : ∃ a, Example.s3.findApp "app" = some a ∧ a.state = "Accepted" ∧ LifeE.phCase1 a = false ∧
    a.items.any (·.inReq) = true := by decide +kernel

end Yk.C06
