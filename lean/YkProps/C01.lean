/-
  C01 — The scheduler never over-commits a node (node ledger clauses).
  Property theorems only.  `Node` (YkModel/Node.lean) mirrors objects.Node: `available` is a cached field
  updated exactly where the code updates it.  The bind-guard clauses (registered / schedulable / reserved /
  required node / predicate) are decided on the full-stack model (Core) — see DESIGN.md C01.
-/
import YkProofs.Node
namespace Yk.C01
open Yk Yk.Res

/-- the caller contract of each node operation (what partition.go / application.go guarantee) -/
def Pre (n : Node) : NodeOp → Prop
  | .setCapacity c => wf c = true
  | .setOccupied o => wf o = true
  | .updateAllocated k r => wf r = true ∧ (∀ a, n.findAlloc k = some a → a.foreign = false)
  | .tryAdd a => wf a.res = true ∧ n.findAlloc a.key = none
  | .forceAdd a => wf a.res = true ∧ n.findAlloc a.key = none
  | .remove _ => True
  | .updateForeign a => wf a.res = true ∧ a.foreign = true ∧ (∀ e, n.findAlloc a.key = some e → e.foreign = true)
  | .replace old a delta =>
      wf a.res = true ∧ wf delta = true ∧ a.foreign = false ∧
      (∃ e, n.findAlloc old = some e ∧ e.foreign = false ∧ ∀ k, delta.getD k = a.res.getD k - e.res.getD k) ∧
      (a.key = old ∨ n.findAlloc a.key = none)
  | .setSchedulable _ => True

/-- every operation of a history meets its contract in the state it is applied to -/
def PreAll : Node → List NodeOp → Prop
  | _, [] => True
  | n, op :: ops => Pre n op ∧ PreAll (n.step op).1 ops

def run (n : Node) (ops : List NodeOp) : Node := ops.foldl (fun s op => (s.step op).1) n

/-- One step: the ledger (allocated = Σ allocations bound to the node, available = capacity − allocated −
    occupied, as sparse vectors: a missing type is 0) is preserved by every node operation — all ten,
    including forced adds, foreign allocations, capacity/occupied changes, in-place updates and placeholder
    replacement. -/
theorem ledger_step (n : Node) (op : NodeOp) (hw : NodeWF n) (hl : Ledger n) (hp : Pre n op) :
    NodeWF (n.step op).1 ∧ Ledger (n.step op).1 :=
  node_ledger_step n op hw hl hp

/-- Every reachable state: for every history of node operations from a fresh node. -/
theorem ledger_run (total : Res) (ht : wf total = true) (ops : List NodeOp) (hp : PreAll (Node.new total) ops) :
    Ledger (run (Node.new total) ops) :=
  node_ledger_run total ht ops hp

/-- The executable clauses the driver evaluates on states dumped from the implementation are exactly `Ledger`. -/
theorem ledger_exec_iff (n : Node) (hw : NodeWF n) :
    (n.ledgerAllocated = true ∧ n.ledgerAvailable = true) ↔ Ledger n :=
  node_ledger_exec_iff n hw

/-- A scheduler-path add (TryAddAllocation) succeeds only if the ask fits in what is available:
    every requested quantity is at most the available quantity (a missing or negative available type is 0). -/
theorem tryAdd_fits (n : Node) (a : NAlloc) (h : (n.step (.tryAdd a)).2 = true) :
    ∀ p ∈ a.res, p.2 ≤ max 0 (n.available.getD p.1) :=
  node_tryAdd_fits n a h

/-- …and a refused add changes nothing. -/
theorem tryAdd_refused_unchanged (n : Node) (a : NAlloc) (h : (n.step (.tryAdd a)).2 = false) :
    (n.step (.tryAdd a)).1 = n :=
  node_tryAdd_refused n a h

/-- available can only become negative through an externally forced change: the scheduler's own operations
    (a successful TryAddAllocation, RemoveAllocation of an allocation with non-negative resources, and a
    placeholder replacement whose delta is ≤ 0) keep every available quantity non-negative. -/
theorem sched_ops_keep_available_nonneg (n : Node) (hw : NodeWF n) (h0 : ∀ k, 0 ≤ n.available.getD k) :
    (∀ a, Pre n (.tryAdd a) → ∀ k, 0 ≤ (n.step (.tryAdd a)).1.available.getD k) ∧
    (∀ key, (∀ a, n.findAlloc key = some a → ∀ k, 0 ≤ a.res.getD k) → ∀ k, 0 ≤ (n.step (.remove key)).1.available.getD k) ∧
    (∀ old a delta, Pre n (.replace old a delta) → (∀ k, delta.getD k ≤ 0) →
        ∀ k, 0 ≤ (n.step (.replace old a delta)).1.available.getD k) :=
  node_sched_nonneg n hw h0

/-- non-vacuity: a concrete history meeting every contract, and the forced operations that do drive
    `available` negative (each an externally forced change the property allows). -/
example : PreAll (Node.new [("cpu", 10)])
    [.tryAdd ⟨"a1", [("cpu", 4)], false⟩, .forceAdd ⟨"f1", [("cpu", 3)], true⟩, .remove "a1", .setCapacity [("cpu", 2)]] := by
  simp only [PreAll, Pre]; decide
example : (run (Node.new [("cpu", 10)]) [.forceAdd ⟨"a1", [("cpu", 14)], false⟩]).available = [("cpu", -4)] := by decide
example : (run (Node.new [("cpu", 10)]) [.tryAdd ⟨"a1", [("cpu", 6)], false⟩, .setCapacity [("cpu", 2)]]).available = [("cpu", -4)] := by decide
example : (run (Node.new [("cpu", 10)]) [.tryAdd ⟨"a1", [("cpu", 6)], false⟩, .setOccupied [("cpu", 7)]]).available = [("cpu", -3)] := by decide

end Yk.C01
