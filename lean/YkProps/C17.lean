/-
  C17 — Placement puts applications only where rules and ACLs allow.
  Property theorems only. The model (YkModel/Place.lean) mirrors security.NewACL/CheckAccess, the placement filters,
  the provided / user / tag / fixed / recovery rules with parent rules, AppPlacementManager.PlaceApplication,
  Queue.CheckSubmitAccess and PartitionContext.AddApplication / createQueue / createRecoveryQueue.
  All statements are for every queue tree `t`, rule list `rules` (what buildRules produces: configured rules, then the
  recovery rule), application `a` (user, groups, requested queue, tags) and regular-expression oracle `rx`.
  `addApp rx t rules a = (t', out)`: `t'` is the queue tree afterwards, `out` the answer.
-/
import YkProofs.Place
namespace Yk.C17
open Yk.Place

variable {rx : Str → Str → Bool} {t t' : Tree} {rules : List Rule} {a : App} {q : QName} {out : Outcome}

/-- An accepted application is in a leaf queue; if that queue existed before the call it was a leaf and it was not
    draining — except for the recovery queue of a force-created application, which is taken without any check. -/
theorem placed_leaf_active (h : addApp rx t rules a = (t', .accepted q)) :
    (∃ x ∈ t', x.path = q ∧ x.leaf = true) ∧
    (∀ x, findQ t q = some x → x.leaf = true ∧ (x.draining = false ∨ (a.forced = true ∧ q = recoveryQ))) :=
  accepted_leaf_active h

/-- The exception is real (KNOWN_FINDINGS C17.L3): a configured queue root.@recovery@ that is draining takes a forced
    application. -/
def exDrainingRecovery : Tree :=
  [{ path := rootQ, leaf := false, managed := true }, { path := recoveryQ, leaf := true, managed := true, draining := true }]
theorem forced_recovery_draining :
    ∃ (t t' : Tree) (a : App), (∃ x, findQ t recoveryQ = some x ∧ x.draining = true) ∧
      addApp (fun _ _ => false) t (buildRules []) a = (t', .accepted recoveryQ) :=
  ⟨exDrainingRecovery, exDrainingRecovery,
   { user := { name := ['b', 'o', 'b'], groups := [] }, queue := [], tags := [("application.create.force".toList, ['t', 'r', 'u', 'e'])] },
   by decide, by decide⟩

/-- The queue is the (lower-cased) name designated by the first rule, in configured order, whose result passes the
    checks of PlaceApplication (`FirstPassing`: the rule runs without error and yields the name — its own result, or
    root.default for the last rule when it yields nothing and that queue exists —, the name is eligible: the recovery
    queue for a forced application, otherwise not a spelling of the recovery queue for an application that is not
    forced and an existing active leaf the user may submit to, or not existing with an existing ancestor the user may
    submit to; every earlier rule runs without error and yields nothing or a name that
    is not eligible). -/
theorem first_matching_rule (h : addApp rx t rules a = (t', .accepted q)) :
    ∃ r n, FirstPassing rx t a rules r n ∧ q = lowerName n :=
  accepted_first_rule h

/-- Unless it is force-created into the recovery queue, the user passes the submit or the admin ACL of the queue or
    of one of its ancestors that existed before the call. -/
theorem acl_allows (h : addApp rx t rules a = (t', .accepted q)) (hnf : ¬(a.forced = true ∧ q = recoveryQ)) :
    ∃ k, 0 < k ∧ k ≤ q.length ∧ ownAllows t a.user (q.take k) = true :=
  accepted_acl h hnf

/-- Whatever the answer, the call only adds queues, and it adds some only if the first passing rule names a queue
    that does not exist and has its create flag set (or is the recovery rule, for a forced application); every part
    of that name is a valid queue name; the new queues lie on the path of the name below the deepest queue that
    existed, which is not a leaf; they are unmanaged and active, a new leaf has that queue's child template applied
    (template-controlled settings and the effective settings derived from its properties, see
    `created_queue_settings`) and new parents carry the template on (`NewBelow`). -/
theorem created_only_with_create (hwf : ∀ r ∈ rules, Rule.wf r = true) (h : addApp rx t rules a = (t', out)) :
    ∃ news, t' = t ++ news ∧
      (news ≠ [] → ∃ nd rest n, FirstPassing rx t a rules (nd :: rest) n ∧ getQueue t n = none ∧
        (nd.create = true ∨ (nd.kind = .recovery ∧ a.forced = true ∧ n = recoveryQ)) ∧
        n.all validQueueName = true ∧ NewBelow t n news) :=
  Yk.Place.created_only_with_create hwf h

/-- A created queue inherits the parent's child template in its EFFECTIVE settings too: the sort policy, priority sort /
    policy / offset, preemption policy / delay, quota preemption delay and ask backoff of a new leaf are what
    UpdateQueueProperties derives (`dynSettings` = `Yk.Reload.deriveSettings`, the derivation of the C16 model, off the
    recovery queue path) from the properties of the child template of the deepest queue that existed — a dynamic queue
    does not merge its parent's own properties; for a queue on the recovery queue path nothing is derived
    (UpdateQueueProperties returns early: fifo, blank settings). A new parent has blank settings and carries the
    template's properties on to the leaf created below it. -/
theorem created_queue_settings (h : addApp rx t rules a = (t', out)) :
    ∃ news, t' = t ++ news ∧
      (news ≠ [] → ∃ r n anc, FirstPassing rx t a rules r n ∧ walkUp t n = some anc ∧
        ∀ x ∈ news,
          (x.leaf = true → x.tplProps = [] ∧ x.set = dynSettings x.path true anc.tplProps) ∧
          (x.leaf = false → x.tplProps = anc.tplProps ∧ x.set = dynSettings x.path false [])) :=
  created_settings h

/-- An application that no rule matches (and without a root.default queue to fall back to) is rejected with the
    "no placement rule matched" reason, and nothing changes. -/
theorem no_rule_rejected_with_reason (hd : getQueue t defaultQ = none) (hall : ∀ r ∈ rules, runRule rx t a r = .noMatch) :
    addApp rx t rules a = (t, .rejected .noRule) :=
  no_rule_rejected hd hall

def exRoot : Queue := { path := rootQ, leaf := false, managed := true, sacl := { all := true } }
def exUser : User := { name := ['b', 'o', 'b'], groups := [['d', 'e', 'v']] }

/-- The recovery queue is only ever used for force-created applications: a rule that returns a spelling of the
    recovery queue name for an application that is not forced is a no-match (PlaceApplication, after the forced
    `break`). For ALL trees, rule lists, oracles and applications. -/
theorem recovery_only_forced (h : addApp rx t rules a = (t', .accepted recoveryQ)) : a.forced = true :=
  Yk.Place.recovery_only_forced h

/-- regression (former finding C17.V1): a provided rule with create: true, the application asks for root.@recovery@
    (or another capitalisation) and is not forced — no rule matches, no queue is created -/
def exRecoveryRules : List Rule := buildRules [[{ kind := .provided, create := true }]]
example : addApp (fun _ _ => false) [exRoot] exRecoveryRules { user := exUser, queue := "root.@recovery@".toList, tags := [] } =
    ([exRoot], .rejected .noRule) := by decide
example : addApp (fun _ _ => false) [exRoot] exRecoveryRules { user := exUser, queue := "root.@Recovery@".toList, tags := [] } =
    ([exRoot], .rejected .noRule) := by decide

/-- The recovery queue PATH is protected as well: whatever the answer, a call creates no queue at or below
    root.@recovery@ except the recovery leaf itself, and that only for a force-created application (a rule result below
    any spelling of the recovery queue is a no-match in PlaceApplication; the recovery queue name itself is one for an
    application that is not forced). For ALL trees, rule lists, oracles and applications. -/
theorem recovery_path_protected (h : addApp rx t rules a = (t', out)) :
    ∃ news, t' = t ++ news ∧
      ∀ x ∈ news, recoveryQ <+: x.path → x.path = recoveryQ ∧ x.leaf = true ∧ a.forced = true :=
  Yk.Place.recovery_path_protected h

/-- … and no application is accepted into a queue below the recovery queue (e.g. a configured parent `@recovery@`). -/
theorem nothing_placed_below_recovery (h : addApp rx t rules a = (t', .accepted q)) : ¬(recoveryQ <+: q ∧ 3 ≤ q.length) :=
  accepted_not_below_recovery h

/-- regression (former finding C17.V2): the requested queue root.@RECOVERY@.x is a no-match, nothing is created, and a
    forced application afterwards still gets its recovery queue -/
example : addApp (fun _ _ => false) [exRoot] exRecoveryRules { user := exUser, queue := "root.@RECOVERY@.x".toList, tags := [] } =
    ([exRoot], .rejected .noRule) := by decide
example : (addApp (fun _ _ => false) [exRoot] exRecoveryRules
    { user := exUser, queue := "root.@RECOVERY@.x".toList, tags := [("application.create.force".toList, ['t', 'r', 'u', 'e'])] }).2 =
    .accepted recoveryQ := by decide

/-- Placement never panics: every name a rule returns starts with the part `root` (a fixed value counts as
    qualified only if it is `root` or starts with `root.`), so the walk-up loops of PlaceApplication / createQueue
    end at the root queue at the latest. For ALL rule lists (no well-formedness needed), oracles and applications, on
    every tree that has a root queue. -/
theorem never_panics {root : Queue} (hroot : findQ t rootQ = some root) : (addApp rx t rules a).2 ≠ .panic :=
  addApp_no_panic hroot

/-- … because of this: whatever a rule returns has `root` as its first part -/
theorem rule_result_rooted {r : Rule} {n : QName} (h : runRule rx t a r = .queue n) : n.head? = some sRoot :=
  runRule_root h

/-- regression (former finding C17.P1): fixed rule `value: rooty, create: true` now places below root -/
example : (addApp (fun _ _ => false) [exRoot] (buildRules [[{ kind := .fixed ['r', 'o', 'o', 't', 'y'], create := true }]])
    { user := exUser, queue := [], tags := [] }).2 = .accepted [sRoot, ['r', 'o', 'o', 't', 'y']] := by decide

/-- The filter as the code evaluates it is the filter as configured, whatever the capitalisation of its type
    (newFilter compares with strings.EqualFold, as the configuration check does). -/
theorem filter_as_configured (compiles : Str → Bool) (ty : Str) (us gs : List Str) (u : User) :
    (newFilter compiles ty us gs).specAllow rx u = (newFilter compiles ty us gs).allowUser rx u :=
  filter_spec_agree compiles rx ty us gs u

/-- Hence the first-rule clause read with the configured filter types (clause F1 of the driver) is the first-rule
    clause itself for rules whose filters come from newFilter (`newFilter_allow`). -/
theorem rules_as_configured (h : ∀ r ∈ rules, ∀ nd ∈ r, nd.filter.allow = decide (lower nd.filter.cfgType ≠ sDeny)) :
    normRules rules = rules :=
  normRules_id rules h

theorem filter_built_as_configured (compiles : Str → Bool) (ty : Str) (us gs : List Str) :
    (newFilter compiles ty us gs).allow = decide (lower (newFilter compiles ty us gs).cfgType ≠ sDeny) :=
  newFilter_allow compiles ty us gs

/-- A configured list — users or groups — none of whose entries is usable (`NoUsable`: not empty, no entry is a valid
    name, a single entry is not a regular expression either; e.g. users [al*, bo*], groups [dev@corp, ops@corp], which
    pass the configuration check) still makes the filter non-empty, and the filter matches nobody: an allow filter
    admits nobody, a deny filter denies nobody. For users and groups (each list absent or without a usable entry, at
    least one configured), every type, oracle and user. -/
theorem filter_list_without_usable_entries (compiles : Str → Bool) (ty : Str) (us gs : List Str) (u : User)
    (hu : us = [] ∨ NoUsable cfgUserValid us) (hg : gs = [] ∨ NoUsable cfgGroupValid gs) (hne : us ≠ [] ∨ gs ≠ []) :
    (newFilter compiles ty us gs).empty = false ∧
    (newFilter compiles ty us gs).allowUser rx u = !(newFilter compiles ty us gs).allow :=
  filter_noUsable compiles rx ty us gs u hu hg hne

/-- non-vacuity: users [al*, bo*] with type allow admits nobody, groups [dev@corp, ops@corp] with type deny denies
    nobody; one usable entry among them and the filter works on that entry -/
example : (newFilter (fun _ => true) "allow".toList ["al*".toList, "bo*".toList] []).allowUser (fun _ _ => true) exUser = false := by decide
example : (newFilter (fun _ => true) "deny".toList [] ["dev@corp".toList, "ops@corp".toList]).allowUser (fun _ _ => true) exUser = true := by decide
example : (newFilter (fun _ => true) "allow".toList ["al*".toList, "bob".toList] []).allowUser (fun _ _ => true) exUser = true := by decide
example : NoUsable cfgUserValid ["al*".toList, "bo*".toList] ∧ NoUsable cfgGroupValid ["dev@corp".toList, "".toList] := by
  refine ⟨⟨by decide, by decide, by intro x h; cases h⟩, ⟨by decide, by decide, by intro x h; cases h⟩⟩

/-- regression (former finding C17.F1): an empty filter of type Deny denies everybody -/
example : (newFilter (fun _ => true) ['D', 'e', 'n', 'y'] [] []).allowUser (fun _ _ => false) exUser = false := by decide

/-- ACL.CheckAccess: wildcard, listed user, or a listed group of the user. -/
theorem acl_check (acl : Acl) (u : User) :
    acl.check u = true ↔ acl.all = true ∨ u.name ∈ acl.users ∨ ∃ g ∈ u.groups, g ∈ acl.groups :=
  acl_check_iff acl u

/-- The recovery queue never passes an ACL check. -/
theorem recovery_queue_no_acl (u : User) : checkSubmit t u recoveryQ = false := checkSubmit_recovery t u

/-- The driver evaluates the Boolean clauses of YkModel/PlaceSpec.lean on what the implementation answered; the
    model's own answer always satisfies the first-rule (R1), no-rule (N1), ACL (A1), active-leaf (L2), recovery (V1)
    and — on a tree with a root queue — no-panic (P1) clauses, so an `inv` verdict for one of them can only come
    together with a model/implementation difference. -/
theorem model_satisfies_clauses (h : addApp rx t rules a = (t', out)) :
    clauseR1 rx t rules a ⟨out, t'⟩ = true ∧ clauseN1 rx t rules a ⟨out, t'⟩ = true ∧
    clauseA1 t a ⟨out, t'⟩ = true ∧ clauseL2 t a ⟨out, t'⟩ = true ∧ clauseV1 a ⟨out, t'⟩ = true ∧
    (∀ root, findQ t rootQ = some root → clauseP1 ⟨out, t'⟩ = true) :=
  ⟨model_clauseR1 h, model_clauseN1 h, model_clauseA1 h, model_clauseL2 h, model_clauseV1 h, fun _ hr => model_clauseP1 hr h⟩

/-! non-vacuity: the model accepts, creates, walks the chain and rejects on small instances -/
def exTree : Tree :=
  [{ exRoot with sacl := {} },
   { path := [sRoot, ['a']], leaf := false, managed := true, sacl := { users := [['b', 'o', 'b']] }, tpl := ['T'] },
   { path := [sRoot, ['a'], ['l']], leaf := true, managed := true },
   { path := [sRoot, ['x']], leaf := true, managed := true, sacl := { all := true }, draining := true }]
def exRules : List Rule := buildRules [[{ kind := .provided, create := true }], [{ kind := .user, create := true }, { kind := .fixed ['a'] }]]

example : (addApp (fun _ _ => false) exTree exRules { user := exUser, queue := "root.a.l".toList, tags := [] }).2 = .accepted [sRoot, ['a'], ['l']] := by decide
/-- draining leaf: the provided rule is skipped, the user rule creates root.a.bob with the template of root.a -/
example : addApp (fun _ _ => false) exTree exRules { user := exUser, queue := "root.x".toList, tags := [] } =
    (exTree ++ [{ path := [sRoot, ['a'], ['b', 'o', 'b']], leaf := true, managed := false, cfg := ['T'] }], .accepted [sRoot, ['a'], ['b', 'o', 'b']]) := by decide
example : (addApp (fun _ _ => false) exTree exRules { user := { name := ['e', 'v', 'e'], groups := [] }, queue := "root.a.l".toList, tags := [] }).2 = .rejected .noRule := by decide
example : (addApp (fun _ _ => false) exTree exRules { user := exUser, queue := "root.a b".toList, tags := [] }).2 = .rejected (.ruleErr .invalidName) := by decide
example : (addApp (fun _ _ => false) exTree exRules { user := { name := ['e', 'v', 'e'], groups := [] }, queue := [], tags := [("application.create.force".toList, ['1'])] }).2 = .accepted recoveryQ := by decide

/-- non-vacuity of `created_queue_settings`: the leaf created below a parent whose child template says
    application.sort.policy=fair, priority.offset=5, preemption.policy=fence gets exactly these effective settings -/
def exTplParent : Queue :=
  { path := [sRoot, ['p']], leaf := false, managed := true, sacl := { all := true }, tpl := ['T'],
    tplProps := [("application.sort.policy", "fair"), ("preemption.policy", "fence"), ("priority.offset", "5")] }
example :
    ((addApp (fun _ _ => false) [exRoot, exTplParent] exRecoveryRules { user := exUser, queue := "root.p.new".toList, tags := [] }).1.map
      (fun q => (q.path, q.set.sort, q.set.prioOffset, q.set.preempt))) =
    [(rootQ, "fair", 0, "default"), ([sRoot, ['p']], "fair", 0, "default"), ([sRoot, ['p'], ['n', 'e', 'w']], "fair", 5, "fence")] := by decide

end Yk.C17
