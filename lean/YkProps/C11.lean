/-
  C11 — Queue max-applications gate admits no untracked application beyond the limit (queue-level clauses).
  Property theorems only.  The clauses that relate the counters to the applications of the subtree
  (running ≤ #Running applications below, allocating ⊆ live applications, zero when empty) are decided on the
  full-stack model; see DESIGN.md C11.
-/
import YkProofs.Queue
import YkProofs.QueueBudget
namespace Yk.C11
open Yk Yk.QTree

/-- The gate: canRunApp answers yes only if every queue on the path that configures a maximum either already
    tracks the application as allocating or still has room for one more next to the running and allocating ones. -/
theorem gate (t : QTree) (i : Nat) (app : String) (h : canRunApp t i app = true) :
    ∀ j ∈ chain t i, ∀ q, t[j]? = some q → q.maxApps ≠ 0 →
      app ∈ q.allocating ∨ q.running + q.allocating.length + 1 ≤ q.maxApps :=
  canRun_gate t i app h

/- `RunningLeMax t := ∀ q ∈ t, q.maxApps ≠ 0 → q.running ≤ q.maxApps` (YkProofs/Queue.lean) -/

/-- The running count never exceeds the configured maximum: preserved by every counter operation
    (the increment clamps; the maximum itself is fixed here — lowering it is a configuration change). -/

theorem running_le_max (t : QTree) (ops : List CounterOp) (h : RunningLeMax t) :
    RunningLeMax (ops.foldl cstep t) :=
  running_le_max_run t ops h

/-- Once an application is counted as running it is no longer reported as allocating on its path. -/
theorem running_not_allocating (t : QTree) (i : Nat) (app : String) (hw : TreeWF t) :
    ∀ j ∈ chain t i, ∀ q', (incRunningApps t i app)[j]? = some q' → app ∉ q'.allocating :=
  incRun_clears_allocating t i app hw

/- `Budget t := ∀ q ∈ t, q.maxApps ≠ 0 → q.running + q.allocating.length ≤ q.maxApps`; `gatedRun t ops`: every
   setAllocatingAccepted / incRunningApps of the history was issued in a state whose gate said yes for that
   application on that queue (what the scheduler does: application.go tryAllocate asks canRunApp for an Accepted
   application before anything is tried) — YkProofs/QueueBudget.lean -/

/-- The gate admits no untracked application beyond the limit, for every history: as long as every admission went
    through the gate, running + allocating never exceeds the maximum of any queue that configures one
    (so the clamp of incRunningApps never fires on such a history). -/
theorem budget (t : QTree) (ops : List CounterOp) (hw : TreeWF t) (h : Budget t) (hg : gatedRun t ops = true) :
    Budget (ops.foldl cstep t) :=
  budget_run t ops hw h hg

/-- The gate is necessary: one admission that did not ask (the forced recovery path) takes a queue with a maximum
    of one application to running + allocating = 2. -/
theorem budget_needs_gate :
    ∃ t : QTree, TreeWF t ∧ Budget t ∧ ¬ Budget (cstep (cstep t (.setAllocating 0 "b")) (.incRun 0 "a")) :=
  ungated_breaks_budget

example : canRunApp exTree 1 "a" = true := by decide
example : gatedRun (updAt exTree 1 (fun q => { q with maxApps := 2 }))
    [.setAllocating 1 "a", .setAllocating 1 "b", .incRun 1 "a", .decRun 1, .incRun 1 "b"] = true := by decide
example : gatedRun (updAt exTree 1 (fun q => { q with maxApps := 2 }))
    [.setAllocating 1 "a", .setAllocating 1 "b", .setAllocating 1 "c"] = false := by decide
example : canRunApp (updAt exTree 1 (fun q => { q with maxApps := 1, running := 1 })) 1 "a" = false := by decide

end Yk.C11
