/-
  C13 — No SI request can crash the core or corrupt its state.

  `Si.handle` (YkModel/SiReq.lean) is the validation / decision layer of the request handlers, written path by path in
  code order: RM proxy checks, NewAllocationFromSI, UpdateAllocation, handleForeignAllocation, removeAllocation,
  ConvertUGI(force), AddApplication (placement is an oracle), removeApplication, addNode, updateNode; sub-messages are
  `Option`, unchecked dereferences are `Except Panic`.  `Si.invalid` is the property's notion of an invalid item,
  `Si.refusedAsDemanded` what the property demands for it (ledgers as they were; the protocol's rejection message
  where there is one, silence where there is none).  The driver compares `handle` with the real core behind the real
  RM proxy and evaluates `invalid ⇒ refused` on what the implementation did.
-/
import YkProofs.SiReq
namespace Yk.C13
open Yk Yk.Si Yk.Core

/-- No item panics: for every environment, every state of the ledgers and every item a protobuf decoder can produce
    (any sub-message unset, any map nil, any scalar) the handler returns. -/
theorem no_panic (env : Env) (s : Core) (i : Item) : ∃ r, Si.handle env s i = .ok r :=
  handle_no_panic env s i

/-- … and so does a whole request (any number of items, registered or unknown resource manager). -/
theorem request_no_panic (env : Env) (rm : String) (s : Core) (items : List Item) : ∃ r, handleAll env rm s items = .ok r :=
  handleAll_no_panic env rm s items

/-- The classification is exhaustive and the answer has the shape of its class: every item is accepted, rejected or
    ignored; a rejected item leaves the ledgers as they were and is answered with exactly one message, the rejection the
    protocol has for that kind of item; an ignored item leaves the ledgers as they were and is not answered; an accepted
    item is never answered with a rejection. -/
theorem classification_exhaustive (env : Env) (s : Core) (i : Item) (r : Result) (h : Si.handle env s i = .ok r) :
    (∃ w, r.verdict = .reject w ∧ r.state = some s ∧ ∃ mk, rejection i = some mk ∧ r.msgs = [mk w]) ∨
    (∃ w, r.verdict = .ignore w ∧ r.state = some s ∧ r.msgs = []) ∨
    (∃ how, r.verdict = .accept how ∧ ∀ m ∈ r.msgs, isRejection m = false) := by
  have hs := handle_shaped env s i r h
  unfold Shaped at hs
  cases hv : r.verdict with
  | reject w => rw [hv] at hs; exact Or.inl ⟨w, rfl, hs⟩
  | ignore w => rw [hv] at hs; exact Or.inr (Or.inl ⟨w, rfl, hs⟩)
  | accept how => rw [hv] at hs; exact Or.inr (Or.inr ⟨how, rfl, hs⟩)

/-- THE PROPERTY, full strength (documented, not asserted: it is refuted below): every item the property calls invalid is
    refused as the property demands — ledgers exactly as they were, answered with the matching rejection where the
    protocol has one. -/
def invalid_is_refused_full : Prop :=
  ∀ (env : Env) (s : Core) (i : Item) (w : Why), invalid env s i = some w → refusedAsDemanded env s i = true

/-- The part that holds: outside the gap classes of `Si.gapOf` (empty allocation key, duplicate allocation key, update of
    a request entry that is allocated but not bound, foreign update naming another node, application with an empty id,
    node capacity with a negative quantity, release of an unknown key for an idle application that still holds request
    entries) an invalid item is refused as the property demands, in every state. Since the fixes e19e4b6, db32327 and
    8774879 this covers a node without id, a foreign allocation with a negative quantity and a placeholder without task
    group (see `fixed_classes_now_refused`). -/
theorem invalid_is_refused_partial (env : Env) (s : Core) (i : Item) (w : Why)
    (hinv : invalid env s i = some w) (hgap : gapOf env s i = none) : refusedAsDemanded env s i = true :=
  invalid_refused env s i w hinv hgap

/-- Request level: a request that consists of invalid items only (any number, any order, none in a gap class) leaves the
    ledgers exactly as they were; every one of its items is refused (and, by `invalid_is_refused_partial`, answered with
    its rejection where the protocol has one). -/
theorem request_of_invalid_items_changes_nothing (env : Env) (s : Core) (items : List Item)
    (h : ∀ i ∈ items, (∃ w, invalid env s i = some w) ∧ gapOf env s i = none) :
    ∃ rs, handleAll env env.rm s items = .ok (some s, rs) ∧ rs.map (·.1) = items ∧
          ∀ p ∈ rs, p.2.state = some s ∧ p.2.verdict.refusal = true := by
  have hall : ∀ i ∈ items, refusedAsDemanded env s i = true := by
    intro i hi
    obtain ⟨⟨w, hw⟩, hg⟩ := h i hi
    exact invalid_refused env s i w hw hg
  obtain ⟨rs, h1, h2, h3⟩ := foldl_refused env s items [] hall
  refine ⟨rs, ?_, h2, h3⟩
  simp only [handleAll, bne_self_eq_false, Bool.false_eq_true, ↓reduceIte]
  simpa using h1

/-- A request that names a resource manager which is not registered is refused by the RM proxy: nothing reaches the core. -/
theorem unregistered_rm_changes_nothing (env : Env) (rm : String) (s : Core) (items : List Item) (h : rm ≠ env.rm) :
    handleAll env rm s items = .ok (some s, []) := by
  simp [handleAll, h]

/-- Conversely the core never refuses a valid item: if the property does not call the item invalid it is accepted
    (in states where every allocated request entry names a registered node, and with the synthesized user of forced
    applications passing the user name check). -/
theorem valid_is_accepted (env : Env) (s : Core) (i : Item) (hwf : AllocatedOnKnownNodes s)
    (hanon : env.userOK anonymous.user = true) (hinv : invalid env s i = none) :
    ∃ r how, Si.handle env s i = .ok r ∧ r.verdict = .accept how :=
  valid_accepted env s i hwf hanon hinv

/-! ### the gap classes: concrete witnesses (each replayed on the real core: corpus/C13/mal-*.jsonl) -/

def env0 : Env := { rm := "rm", isPart := fun p => p == "default" }

def node1 : CNode := { id := "n1", total := [("cpu", 10)], occupied := [], allocated := [], available := [("cpu", 10)],
                       schedulable := true, allocs := [], reservations := [] }
def node2 : CNode := { node1 with id := "n2" }
def ask1 : CItem := { key := "k1", res := [("cpu", 2)], ph := false, tg := "", allocated := false, node := "", bound := false,
                      inReq := true, released := false, preempted := false, release := none, reqNode := "" }
def app1 : CApp := { id := "app-1", live := true, queue := "root.a", state := "Accepted", user := "alice", pending := [("cpu", 2)],
                     allocated := [], allocatedPh := [], phAsk := [], items := [ask1], reservations := [], phData := [],
                     log := ["New", "Accepted"] }
/-- one node, one application with one pending ask -/
def s1 : Core := { nodes := [node1], queues := [], apps := [app1], total := [("cpu", 10)], allocations := 0, phAllocations := 0,
                   reservations := 0, foreign := [], users := [], groups := [] }
/-- the request entry left behind by a TIMEOUT confirmation: allocated, not bound -/
def staleItem : CItem := { ask1 with key := "p1", ph := true, tg := "tg-1", allocated := true, node := "n1" }
def app2 : CApp := { app1 with state := "Running", pending := [], items := [staleItem] }
def s2 : Core := { s1 with apps := [app2] }
/-- a foreign allocation f1 on n1, a second node n2 -/
def node1f : CNode := { node1 with occupied := [("cpu", 3)], available := [("cpu", 7)],
                                     allocs := [{ key := "f1", app := "", res := [("cpu", 3)], foreign := true, ph := false }] }
def s3 : Core := { s1 with nodes := [node1f, node2], foreign := ["f1"] }

def wAllocEmptyKey : Item := .alloc { key := "", app := "app-1", node := "", part := "default", res := some [("cpu", 1)] }
def wPlaceholderNoTaskGroup : Item := .alloc { key := "p9", app := "app-1", node := "", part := "default", ph := true, res := some [("cpu", 1)] }
def wForeignNegative : Item := .alloc { key := "f9", app := "", node := "n1", part := "default", res := some [("cpu", -4)], tags := some [("foreign", "default")] }
def wDuplicateKey : Item := .alloc { key := "k1", app := "", node := "n1", part := "default", res := some [("cpu", 1)], tags := some [("foreign", "default")] }
def wResizeUnbound : Item := .alloc { key := "p1", app := "app-1", node := "", part := "default", ph := true, tg := "tg-1", res := some [("cpu", 6)] }
def wForeignMoved : Item := .alloc { key := "f1", app := "", node := "n2", part := "default", res := some [("cpu", 1)], tags := some [("foreign", "default")] }
def wAppEmptyId : Item := .appNew { id := "", queue := "root.a", part := "default", ugi := some { user := "bob", groups := ["dev"] } }
def wNodeEmptyId : Item := .node { id := "", action := 1, attrs := some [("si/node-partition", "default")], res := some [("cpu", 5)] }
def wNodeNegativeCreate : Item := .node { id := "n9", action := 1, attrs := some [("si/node-partition", "default")], res := some [("cpu", -5)] }
def wNodeNegativeUpdate : Item := .node { id := "n1", action := 2, attrs := some [("si/node-partition", "default")], res := some [("cpu", -5)] }
def wReleaseUnknown : Item := .release { part := "default", app := "app-1", key := "no-such-key", ttype := 1 }

/-- Each witness is invalid in the sense of the property, lies in the named gap class, and is NOT refused as demanded:
    the model of the current code accepts it. (The last one, the release of an unknown key that completes an idle
    application, is a state of the model the correspondence never reached on the real core.) -/
theorem gap_witnesses :
    (invalid env0 s1 wAllocEmptyKey = some .emptyId ∧ gapOf env0 s1 wAllocEmptyKey = some .allocEmptyKey ∧ refusedAsDemanded env0 s1 wAllocEmptyKey = false) ∧
    (invalid env0 s1 wDuplicateKey = some .duplicateKey ∧ gapOf env0 s1 wDuplicateKey = some .duplicateKey ∧ refusedAsDemanded env0 s1 wDuplicateKey = false) ∧
    (invalid env0 s2 wResizeUnbound = some .staleAsk ∧ gapOf env0 s2 wResizeUnbound = some .resizeUnbound ∧ refusedAsDemanded env0 s2 wResizeUnbound = false) ∧
    (invalid env0 s3 wForeignMoved = some .foreignMoved ∧ gapOf env0 s3 wForeignMoved = some .foreignMoved ∧ refusedAsDemanded env0 s3 wForeignMoved = false) ∧
    (invalid env0 s1 wAppEmptyId = some .emptyId ∧ gapOf env0 s1 wAppEmptyId = some .appEmptyId ∧ refusedAsDemanded env0 s1 wAppEmptyId = false) ∧
    (invalid env0 s1 wNodeNegativeCreate = some .negativeResource ∧ gapOf env0 s1 wNodeNegativeCreate = some .nodeNegative ∧ refusedAsDemanded env0 s1 wNodeNegativeCreate = false) ∧
    (invalid env0 s1 wNodeNegativeUpdate = some .negativeResource ∧ gapOf env0 s1 wNodeNegativeUpdate = some .nodeNegative ∧ refusedAsDemanded env0 s1 wNodeNegativeUpdate = false) ∧
    (invalid env0 s2 wReleaseUnknown = some .unknownKey ∧ gapOf env0 s2 wReleaseUnknown = some .releaseUnknownCompletes ∧ refusedAsDemanded env0 s2 wReleaseUnknown = false) := by
  decide

/-- The full statement is false for the current code (witness: a foreign allocation carrying the key of an ask). -/
theorem invalid_is_refused_full_refuted : ¬ invalid_is_refused_full := by
  intro h
  have := h env0 s1 wDuplicateKey .duplicateKey (by decide)
  exact absurd this (by decide)

/-- Regression for the three repaired classes (fixes e19e4b6 node without id, db32327 foreign allocation with a negative
    quantity, 8774879 placeholder without task group): the former gap witnesses are invalid, in no gap class any more, and
    refused as demanded — ledgers unchanged, answered with exactly the matching rejection. -/
theorem fixed_classes_now_refused :
    (invalid env0 s1 wNodeEmptyId = some .emptyId ∧ gapOf env0 s1 wNodeEmptyId = none ∧ refusedAsDemanded env0 s1 wNodeEmptyId = true ∧
      (Si.handle env0 s1 wNodeEmptyId).toOption.map (·.msgs) = some [.rejectedNode "" .emptyId]) ∧
    (invalid env0 s1 wForeignNegative = some .negativeResource ∧ gapOf env0 s1 wForeignNegative = none ∧ refusedAsDemanded env0 s1 wForeignNegative = true ∧
      (Si.handle env0 s1 wForeignNegative).toOption.map (·.msgs) = some [.rejectedAlloc "f9" "" .negativeResource]) ∧
    (invalid env0 s1 wPlaceholderNoTaskGroup = some .placeholderNoTaskGroup ∧ gapOf env0 s1 wPlaceholderNoTaskGroup = none ∧ refusedAsDemanded env0 s1 wPlaceholderNoTaskGroup = true ∧
      (Si.handle env0 s1 wPlaceholderNoTaskGroup).toOption.map (·.msgs) = some [.rejectedAlloc "p9" "app-1" .placeholderNoTaskGroup]) := by
  decide

/-! ### the two panics fixed in the repository (regression: the model of the old code panics, the current one does not) -/

/-- before fix d117ec7 a force-created application without user information dereferenced the unset Ugi -/
theorem forced_app_without_ugi_panicked_before_fix :
    convertUGIOld none true = .error (.nilDeref "ConvertUGI: ugi.User = AnonymousUser") ∧
    ∃ u, convertUGI env0 none true = .ok (.ok u) := by
  constructor
  · rfl
  · exact ⟨anonymous, rfl⟩

/-- before fix cebe103 a PLACEHOLDER_REPLACED release of an allocation without a replacement in flight dereferenced nil -/
theorem placeholder_replaced_without_swap_panicked_before_fix :
    handleReleaseBoundOld { staleItem with bound := true } 4 = .error (.nilDeref "removeAllocation: confirmed.GetAllocatedResource()") ∧
    ∃ r, releaseBound s2 app2 { staleItem with bound := true } { part := "default", app := "app-1", key := "p1", ttype := 4 } = .ok r :=
  ⟨rfl, releaseBound_no_panic _ _ _ _⟩

/-! ### non-vacuity -/

/-- an invalid item outside the gap classes: an ask of an unknown application is rejected, nothing changes -/
example : invalid env0 s1 (.alloc { key := "k9", app := "nope", node := "", part := "default", res := some [("cpu", 1)] }) = some .application ∧
          gapOf env0 s1 (.alloc { key := "k9", app := "nope", node := "", part := "default", res := some [("cpu", 1)] }) = none ∧
          refusedAsDemanded env0 s1 (.alloc { key := "k9", app := "nope", node := "", part := "default", res := some [("cpu", 1)] }) = true := by decide
/-- a release of something that does not exist is ignored silently (the protocol has no rejection for it) -/
example : invalid env0 s1 (.release { part := "default", app := "app-1", key := "zz", ttype := 4 }) = some .unknownKey ∧
          refusedAsDemanded env0 s1 (.release { part := "default", app := "app-1", key := "zz", ttype := 4 }) = true := by decide
/-- an update for a removed node, a node registered twice, a zero-resource ask, an unknown partition -/
example : refusedAsDemanded env0 s1 (.node { id := "gone", action := 2, attrs := none, res := some [("cpu", 1)] }) = true ∧
          refusedAsDemanded env0 s1 (.node { id := "gone", action := 2, attrs := some [("si/node-partition", "default")], res := some [("cpu", 1)] }) = true ∧
          refusedAsDemanded env0 s1 (.node { id := "n1", action := 1, attrs := some [("si/node-partition", "default")], res := some [("cpu", 1)] }) = true ∧
          refusedAsDemanded env0 s1 (.alloc { key := "k9", app := "app-1", node := "", part := "default", res := none }) = true ∧
          refusedAsDemanded env0 s1 (.alloc { key := "k9", app := "app-1", node := "", part := "other", res := some [("cpu", 1)] }) = true := by decide
/-- a valid item: a new ask of a live application is accepted; the hypotheses of `valid_is_accepted` hold in `s1` -/
example : invalid env0 s1 (.alloc { key := "k2", app := "app-1", node := "", part := "default", res := some [("cpu", 1)] }) = none ∧
          (Si.handle env0 s1 (.alloc { key := "k2", app := "app-1", node := "", part := "default", res := some [("cpu", 1)] })).toOption.map (·.verdict) = some (.accept .ask) := by decide

end Yk.C13
