/-
  C09 — Reservations stay consistent and exclusive (the four-view machine).
  `RState` (YkModel/Reserve.lean) carries the application's, the node's, the queue's and the partition's view and
  updates them the way partition.reserve / partition.unReserve do.  The driver evaluates the same clauses (R1–R5 of
  CoreState.resOK) on every state dumped from the real core.
-/
import YkProofs.Reserve
import YkProofs.Core2ResRun
namespace Yk.C09
open Yk Yk.RState Yk.Core

def run (ops : List ROp) : RState := ops.foldl RState.step {}

/-- The application's, the node's and the queue's view always describe the same set and the partition counter is its
    size (hence never zero while a reservation exists): for every history of reserve / unreserve operations. -/
theorem views_consistent (ops : List ROp) : (run ops).consistent = true :=
  rstate_consistent_run ops

/-- An ask holds at most one reservation. -/
theorem one_reservation_per_ask (ops : List ROp) : ((run ops).app.map (·.2.1)).Nodup :=
  rstate_ask_nodup ops

/-- A node carries at most one reservation unless all of them are for asks that require that node. -/
theorem node_exclusive (ops : List ROp) (n : String) :
    ((run ops).nodeKeys n).length ≤ 1 ∨ ∀ k ∈ (run ops).nodeKeys n, k ∈ (run ops).required :=
  rstate_node_exclusive ops n

/-- A node reserved for one ask is not given to another: a second (normal) reservation on a reserved node is refused. -/
theorem reserved_node_refuses_others (s : RState) (a key node : String)
    (h : (s.nodeKeys node) ≠ []) (hk : key ∉ s.required) : s.reserve a key node = s :=
  rstate_reserve_refused s a key node h hk

/-- Reservations disappear: unreserve removes the reservation from every view at once.
    CORRECTED: the node clause holds when the reservation `(a, key, node)` exists.  As first stated (node clause
    unconditional) it is false for the model: after `[.reserve "a" "k" "n"]`, `unreserve "b" "k" "n"` names a
    reservation that does not exist (wrong application), is a no-op, and `("n", "k")` stays in the node view —
    rightly so, it still belongs to application "a". -/
theorem unreserve_removes_everywhere (ops : List ROp) (a key node : String) :
    let s := (run ops).unreserve a key node
    (a, key, node) ∉ s.app ∧ ((a, key, node) ∈ (run ops).app → (node, key) ∉ s.node) :=
  rstate_unreserve_removes ops a key node

/-- the counterexample to the uncorrected node clause -/
example : ("n", "k") ∈ ((run [.reserve "a" "k" "n"]).unreserve "b" "k" "n").node := by decide

example : (run [.reserve "app-1" "k1" "n1", .reserve "app-2" "k2" "n1", .markRequired "k3", .reserve "app-1" "k3" "n2"]).app.length = 2 := by decide

/-! ### the same clauses on the stepped Core model (YkModel/CoreOps*.lean, compared with the real core at every step)

`ResInv s` (YkProofs/Core2Res.lean) states the clauses R1–R5 of the monitor `Core.resOK` in inductive form: every
reservation of a live application (ask key ↦ node) is listed by that registered node (`appNode`) and is for an outstanding
ask of the application (`outstanding`), at most one per ask (`onePerAsk`); every key a node lists is a reservation of a live
application (`nodeApp`; the lists are Go maps: `nodeKeys`, `owner`); every queue with the application's path counts exactly
its reservations (`queueCount`, `queueKeys`, `queueApp`); the partition counter is at least the number of reservations
(`counter`: never zero while one exists); a node lists at most one reservation unless all of them are for asks of live
applications that require this node (`nodeExcl`); an application that is Failing / Completing holds none (`quiet`).
`CoreInv s` = `CoreWF ∧ Books ∧ Linked ∧ LifeInv`.  Side conditions of a history: `RunLifeOK` (`Op.ok2`, `Op.okLife` of every
step) and `RunResOK` (`Op.okRes`): `reserve` is called as partition.reserve is (`ReserveOK`: outstanding ask without
reservation of an application that is not Failing / Completing, registered node that is free or shared by required-node asks
only), the ask a `schedAlloc` / `swapStart` binds holds no reservation any more (`NotReserved`: partition.allocate unreserves
first — the driver emits `unreserve` before the bind), a new application / dynamic queue starts without reservations.
The reservation fields of the model are compared with the implementation's on every scheduling line (`resvAgree`), and the
executable forms `resInvb`, `Op.okResb` held on every state / step of the sampled real histories (~100 000 lines). -/

/-- The reservation invariant holds along every history of the stepped model. -/
theorem reachable_resinv (s : Core) (ops : List Op) (hi : CoreInv s) (hr : ResInv s) (hok : RunLifeOK s ops)
    (hres : RunResOK s ops) : ResInv (Yk.run s ops) :=
  (Yk.reachable_resinv s ops hi hr hok hres).2

/-- … one step -/
theorem resinv_step (s : Core) (op : Op) (hi : CoreInv s) (hr : ResInv s) (hok : op.ok2 s) (hor : op.okRes s) :
    ResInv (op.apply s) :=
  step_res s op hi hr hok hor

/-- The invariant implies everything the monitor checks on the real dumps: `Core.resOK` reports nothing. -/
theorem resinv_implies_monitor (s : Core) (hw : CoreWF s) (h : ResInv s) : s.resOK = none :=
  resInv_resOK s hw h

/-- An ask holds at most one reservation and only while it is outstanding; the three views describe the same set and the
    counter is not zero while a reservation exists; a node carries at most one reservation unless all are for asks that
    require it — in every reachable state. -/
theorem clauses_along_histories (s : Core) (ops : List Op) (hi : CoreInv s) (hr : ResInv s) (hok : RunLifeOK s ops)
    (hres : RunResOK s ops) :
    let t := Yk.run s ops
    (∀ a ∈ t.apps, a.live = true → (a.reservations.map (·.1)).Nodup ∧
      ∀ r ∈ a.reservations, (∃ i ∈ a.items, i.key = r.1 ∧ i.outstanding = true) ∧
        ∃ n, t.findNode r.2 = some n ∧ r.1 ∈ n.reservations) ∧
    (∀ n ∈ t.nodes, ∀ k ∈ n.reservations, ∃ a ∈ t.apps, a.live = true ∧ (k, n.id) ∈ a.reservations) ∧
    (resvTotal t ≤ t.reservations) ∧
    (∀ n ∈ t.nodes, n.reservations.length ≤ 1 ∨
      ∀ k ∈ n.reservations, ∃ a ∈ t.apps, a.live = true ∧ (k, n.id) ∈ a.reservations ∧ ∃ i ∈ a.items, i.key = k ∧ i.reqNode = n.id) :=
  let r := (Yk.reachable_resinv s ops hi hr hok hres).2
  ⟨fun a ha hl => ⟨r.onePerAsk a ha hl, fun x hx => ⟨r.outstanding a ha hl x hx, r.appNode a ha hl x hx⟩⟩, r.nodeApp, r.counter, r.nodeExcl⟩

/-! ### reservations disappear -/

/-- … when the ask is allocated: partition.allocate unreserves (`unreserve`) before it binds — afterwards no view holds the
    reservation and the counter dropped by one. -/
theorem gone_when_allocated (s : Core) (app key node : String) (a : CApp) (h : ResInv s)
    (ha : s.findApp app = some a) (hr : (key, node) ∈ a.reservations) :
    (∃ a', (s.unreserve app key node).findApp app = some a' ∧ (∀ r ∈ a'.reservations, r.1 ≠ key) ∧
       a'.reservations.length + 1 = a.reservations.length) ∧
    (∀ n' ∈ (s.unreserve app key node).nodes, n'.id = node → key ∉ n'.reservations) ∧
    (∀ q' ∈ (s.unreserve app key node).queues, q'.path = a.queue →
       q'.reserved.lookup app = if a.reservations.length ≤ 1 then none else some (a.reservations.length - 1)) ∧
    (s.unreserve app key node).reservations + 1 = s.reservations :=
  let ⟨⟨a', h1, _, h3, h4⟩, h5, h6, h7⟩ := unreserve_gone s app key node a h ha hr
  ⟨⟨a', h1, h3, h4⟩, h5, h6, h7⟩

/-- … when the ask is removed (a release of the key that is not a TIMEOUT confirmation): the application holds no
    reservation for the key and the node that listed it does not any more.  (The partition counter is NOT decremented on
    this path — partition.removeAllocation ignores the count RemoveAllocationAsk returns; the counter stays ≥ the number of
    reservations, which is all the property asks.) -/
theorem gone_when_ask_removed (s : Core) (tt : TermType) (app key : String) (hw : CoreWF s) (h : ResInv s) (htt : tt ≠ .timeout) :
    (∀ a', (s.releaseKeyT tt app key).findApp app = some a' → ∀ r ∈ a'.reservations, r.1 ≠ key) ∧
    (∀ a, s.findApp app = some a → ∀ nd, (key, nd) ∈ a.reservations →
       ∀ n' ∈ (s.releaseKeyT tt app key).nodes, n'.id = nd → key ∉ n'.reservations) :=
  releaseKeyT_gone s tt app key hw h htt

/-- … when the application is removed, or all its allocations and asks are released: no node lists a reservation of it,
    a queue entry for it that remains counts 0, the application is gone resp. holds none. -/
theorem gone_when_application_removed (s : Core) (app : String) (a : CApp) (h : ResInv s) (ha : s.findApp app = some a) :
    (∀ n' ∈ (s.appRemove app).nodes, ∀ k ∈ n'.reservations, (k, n'.id) ∉ a.reservations) ∧
    (∀ q' ∈ (s.appRemove app).queues, q'.path = a.queue → ∀ e ∈ q'.reserved, e.1 = app → e.2 = 0) ∧
    (s.appRemove app).findApp app = none :=
  let ⟨h1, h2, h3⟩ := appRemove_gone s app a h ha
  ⟨h1, fun q' hq hp e he hk => (h2 q' hq hp e he hk).1, h3⟩

theorem gone_when_application_released (s : Core) (tt : TermType) (app : String) (a : CApp) (hw : CoreWF s) (h : ResInv s)
    (ha : s.findApp app = some a) (htt : tt ≠ .timeout) (hreq : a.items.any (·.inReq) = true) :
    (∀ a', (s.releaseApp tt app).findApp app = some a' → a'.reservations = []) ∧
    (∀ n' ∈ (s.releaseApp tt app).nodes, ∀ k ∈ n'.reservations, (k, n'.id) ∉ a.reservations) :=
  let ⟨h1, h2, _⟩ := releaseApp_gone s tt app a hw h ha htt hreq; ⟨h1, h2⟩

/-- … when the node is removed: the node is gone and no live application holds a reservation on it. -/
theorem gone_when_node_removed (s : Core) (id : String) (order : List (String × String)) (hi : CoreInv s) (hr : ResInv s)
    (hok : NodeRemoveOK s id order) :
    (s.nodeRemove id order).findNode id = none ∧
    ∀ a ∈ (s.nodeRemove id order).apps, a.live = true → ∀ r ∈ a.reservations, r.2 ≠ id :=
  nodeRemove_gone s id order hi hr hok

/-! ### "a node reserved for one ask is not given to another through normal scheduling"

The stepped model has NO decision guard: which ask is bound to which node (`schedAlloc`) and which node is reserved for
which ask (`reserve`) are read from what the implementation announced, never predicted.  On the model side the clause is
the side condition `ReserveOK.nodeFree` of `reserve` (it is what makes `nodeExcl` inductive) and it held on every
`reserve` step of the sampled real histories (`Op.okResb`); that a BIND does not go to a node reserved for another ask is
checked on the real core by the driver's step clause `C01.bind-node-reserved-for-other` (YkDrv/CoreDrv.lean), and for the
small machine by `reserved_node_refuses_others` above. -/

/-- non-vacuity: `Example.exOpsR` (YkProofs/Core2ResE.lean) from the empty partition — a node of cpu 4, an ask of cpu 3 is
    bound, a second one does not fit and the node is reserved for it (all four views list the reservation, counter 1), the
    first allocation is released, the scheduler unreserves and binds the second ask (all views empty, counter 0), it is
    released.  Every step meets every side condition; the monitor and the invariant agree on the states. -/
example : CoreInv Example.ex0 ∧ ResInv Example.ex0 ∧ RunLifeOK Example.ex0 Example.exOpsR ∧ RunResOK Example.ex0 Example.exOpsR ∧
    (Yk.run Example.ex0 (Example.exOpsR.take 6)).apps.map (·.reservations) = [[("k2", "n1")]] ∧
    (Yk.run Example.ex0 (Example.exOpsR.take 6)).nodes.map (·.reservations) = [["k2"]] ∧
    (Yk.run Example.ex0 (Example.exOpsR.take 6)).reservations = 1 ∧
    (Yk.run Example.ex0 (Example.exOpsR.take 8)).apps.map (·.reservations) = [[]] ∧
    (Yk.run Example.ex0 (Example.exOpsR.take 8)).reservations = 0 ∧
    ResInv (Yk.run Example.ex0 Example.exOpsR) ∧ (Yk.run Example.ex0 Example.exOpsR).resOK = none :=
  ⟨Example.coreInv_ex0, Example.resInv_ex0, Example.exOpsR_life, Example.exOpsR_res, Example.exR6.1, Example.exR6.2.1,
   Example.exR6.2.2.2, Example.exR8.1, Example.exR8.2.2.2,
   reachable_resinv _ _ Example.coreInv_ex0 Example.resInv_ex0 Example.exOpsR_life Example.exOpsR_res,
   Example.exR_end_resOK⟩

end Yk.C09
