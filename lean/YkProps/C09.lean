/-
  C09 — Reservations stay consistent and exclusive (the four-view machine).
  `RState` (YkModel/Reserve.lean) carries the application's, the node's, the queue's and the partition's view and
  updates them the way partition.reserve / partition.unReserve do.  The driver evaluates the same clauses (R1–R5 of
  CoreState.resOK) on every state dumped from the real core.
-/
import YkProofs.Reserve
namespace Yk.C09
open Yk Yk.RState

def run (ops : List ROp) : RState := ops.foldl RState.step {}

/-- The application's, the node's and the queue's view always describe the same set and the partition counter is its
    size (hence never zero while a reservation exists): for every history of reserve / unreserve operations. -/
theorem views_consistent (ops : List ROp) : (run ops).consistent = true :=
  rstate_consistent_run ops

/-- An ask holds at most one reservation. -/
theorem one_reservation_per_ask (ops : List ROp) : ((run ops).app.map (·.2.1)).Nodup :=
  rstate_ask_nodup ops

/-- A node carries at most one reservation unless all of them are for asks that require that node. -/
theorem node_exclusive (ops : List ROp) (n : String) :
    ((run ops).nodeKeys n).length ≤ 1 ∨ ∀ k ∈ (run ops).nodeKeys n, k ∈ (run ops).required :=
  rstate_node_exclusive ops n

/-- A node reserved for one ask is not given to another: a second (normal) reservation on a reserved node is refused. -/
theorem reserved_node_refuses_others (s : RState) (a key node : String)
    (h : (s.nodeKeys node) ≠ []) (hk : key ∉ s.required) : s.reserve a key node = s :=
  rstate_reserve_refused s a key node h hk

/-- Reservations disappear: unreserve removes the reservation from every view at once.
    CORRECTED: the node clause holds when the reservation `(a, key, node)` exists.  As first stated (node clause
    unconditional) it is false for the model: after `[.reserve "a" "k" "n"]`, `unreserve "b" "k" "n"` names a
    reservation that does not exist (wrong application), is a no-op, and `("n", "k")` stays in the node view —
    rightly so, it still belongs to application "a". -/
theorem unreserve_removes_everywhere (ops : List ROp) (a key node : String) :
    let s := (run ops).unreserve a key node
    (a, key, node) ∉ s.app ∧ ((a, key, node) ∈ (run ops).app → (node, key) ∉ s.node) :=
  rstate_unreserve_removes ops a key node

/-- the counterexample to the uncorrected node clause -/
example : ("n", "k") ∈ ((run [.reserve "a" "k" "n"]).unreserve "b" "k" "n").node := by decide

example : (run [.reserve "app-1" "k1" "n1", .reserve "app-2" "k2" "n1", .markRequired "k3", .reserve "app-1" "k3" "n2"]).app.length = 2 := by decide

end Yk.C09
