/-
  C02 — Scheduling never takes a queue above its maximum.
  Property theorems only. `QTree` (YkModel/Queue.lean) mirrors the queue hierarchy: TryIncAllocatedResource is the
  only way the scheduler adds usage (application.go tryNode → queue.TryIncAllocatedResource); IncAllocatedResource
  is the RM-forced path the property excludes.
-/
import YkProofs.Queue
namespace Yk.C02
open Yk Yk.Res Yk.QTree

/-- A successful TryIncAllocatedResource leaves no queue on the path over its maximum on any type of the
    allocation: at the root every type counts (a type no node provides cannot be allocated), elsewhere only
    the types the maximum defines (omitted types are unlimited). -/
theorem tryInc_ok_within_max (t t' : QTree) (i : Nat) (alloc : Res) (hw : TreeWF t) (ha : wf alloc = true)
    (h : tryInc t i alloc = some t') :
    ∀ j ∈ chain t i, ∀ q', t'[j]? = some q' → ∀ p ∈ alloc, overMax q' p.1 = false :=
  tryInc_within_max t t' i alloc hw ha h

/-- All-or-nothing: the increment is refused exactly when some queue on the path does not fit it, and then
    nothing is changed (the model returns no new tree); when accepted, exactly the queues on the path change and
    only on the types of the allocation. -/
theorem tryInc_frame (t t' : QTree) (i : Nat) (alloc : Res) (hw : TreeWF t) (ha : wf alloc = true)
    (h : tryInc t i alloc = some t') :
    t'.length = t.length ∧
    (∀ j, j ∉ chain t i → t'[j]? = t[j]?) ∧
    (∀ (j : Nat) (q q' : Q), t[j]? = some q → t'[j]? = some q' →
        q'.max = q.max ∧ q'.parent = q.parent ∧ ∀ k, alloc.has k = false → q'.allocated.getD k = q.allocated.getD k) :=
  tryInc_frame_aux t t' i alloc hw ha h

theorem tryInc_refused_iff (t : QTree) (i : Nat) (alloc : Res) :
    tryInc t i alloc = none ↔ ∃ j ∈ chain t i, (match t[j]? with | some q => fits q alloc | none => false) = false :=
  tryInc_none_iff t i alloc

/-- A scheduling decision never creates usage above a maximum: whatever is over its maximum afterwards was
    already over before (through an RM-forced change or a lowered maximum). -/
theorem sched_no_new_overmax (t t' : QTree) (i : Nat) (alloc : Res) (hw : TreeWF t) (ha : wf alloc = true)
    (h : tryInc t i alloc = some t') :
    ∀ (j : Nat) (q q' : Q) (k : String), t[j]? = some q → t'[j]? = some q' → overMax q' k = true → overMax q k = true :=
  tryInc_no_new_overmax t t' i alloc hw ha h

/-- The effective limit of a queue is never looser than its parent's: on every type the parent's effective
    maximum defines, the child's effective maximum defines it too and is not larger. -/
theorem effective_max_le_parent (t : QTree) (i p : Nat) (q : Q) (hw : TreeWF t)
    (hq : t[i]? = some q) (hp : q.parent = some p) :
    ∀ pm, getMax t p = some pm → ∃ cm, getMax t i = some cm ∧ ∀ e ∈ pm, cm.has e.1 = true ∧ cm.getD e.1 ≤ e.2 :=
  getMax_le_parent t i p q hw hq hp

/-- Same for the headroom the scheduler checks asks against. -/
theorem headroom_le_parent (t : QTree) (i p : Nat) (q : Q) (hw : TreeWF t)
    (hq : t[i]? = some q) (hp : q.parent = some p) :
    ∀ ph, headRoom t p = some ph → ∃ ch, headRoom t i = some ch ∧ ∀ e ∈ ph, ch.has e.1 = true ∧ ch.getD e.1 ≤ e.2 :=
  headRoom_le_parent t i p q hw hq hp

/-- non-vacuity -/
example : TreeWF exTree := by decide
example : (tryInc exTree 1 [("cpu", 3)]).isSome = true ∧ tryInc exTree 1 [("cpu", 5)] = none ∧
    tryInc exTree 1 [("gpu", 1)] = none ∧ (tryInc exTree 1 [("cpu", 3)] >>= fun t => tryInc t 1 [("cpu", 2)]) = none := by decide
/-- the forced path does create over-max usage (which is why the property excludes it) -/
example : ((inc exTree 1 [("cpu", 7)])[1]?.map (fun q => overMax q "cpu")) = some true := by decide

end Yk.C02
