/-
  C05 — User and group quotas are enforced and follow the active configuration.
  Property theorems only.  The model (YkModel/Ugm.lean) mirrors pkg/scheduler/ugm: a queue-tracker tree is a map
  `queue path ↦ tracker` (usage, running applications, maxResources, maxRunningApps, useWildCard), the manager holds
  the user and group trackers and the limit maps of the active configuration; `updateConfig` runs the five phases of
  Manager.UpdateConfig as written.  The correspondence run (harness component `ugm`) steps this model from every
  state the real manager reaches and compares answers and complete states.
-/
import YkProofs.UgmReload5
namespace Yk.C05
open Yk Yk.Res Yk.Ugm

/-! ## Enforcement -/

/-- Resources.  `headroom` walks hierarchy `h` of a user's or group's queue-tracker tree (creating missing trackers, for
    a user with the wildcard limits `w` of the active configuration) and answers with the component-wise minimum of
    `max - usage` over the trackers that have a maximum.  Let `hro` be any answer not larger than that (Manager.Headroom
    hands out the minimum of the user's and the group's), and let the ask `r` fit in it the way Application.tryAllocate
    checks (`FitInMaxUndef`).  Then after IncreaseTrackedResource, on EVERY tracker `p` of the path and every resource type
    of the ask that the tracker's maximum defines, the tracked usage is within the maximum, provided it was before; the
    limits themselves are untouched. -/
theorem headroom_enforces (w : List (Path × Limit)) (isUser : Bool) (t : Tree) (h : Path) (app : String) (r : Res)
    (hw : WildWf w) (ht : TreeWf t) (hr : wf r = true) (hro : ORes)
    (hle : LeOn hro (headroom w isUser t h).2) (hfit : fitInMaxUndef hro (some r) = true) :
    ∀ p ∈ prefixes h, ∃ n n', aget (headroom w isUser t h).1 p = some n ∧
      aget (increase w isUser (headroom w isUser t h).1 h app r) p = some n' ∧
      n'.maxRes = n.maxRes ∧ n'.maxApps = n.maxApps ∧
      ∀ mx, n.maxRes = some mx → isZero n.maxRes = false → ∀ k, r.has k = true → mx.has k = true →
        (n.usage.getD []).getD k ≤ mx.getD k → (n'.usage.getD []).getD k ≤ mx.getD k :=
  headroom_enforces_tree w isUser t h app r hw ht hr hro hle hfit

/-- The same at the manager, as the scheduler uses it: Manager.Headroom (which creates the user tracker, resolves and
    links the group of the application, and answers with the minimum of the user's and the group's headroom), then
    `FitInMaxUndef`, then Manager.IncreaseTrackedResource.  `Within t1 t2 q r`: on every tracker of path `q` the limits are
    unchanged and the usage in `t2` is within the maximum on every type of `r` the maximum defines, provided it was in
    `t1`.  It holds for the user's tree and for the tree of the group the application resolved to. -/
theorem manager_headroom_enforces (m : Mgr) (q : Path) (app u : String) (ugs : List String) (r : Res) (hm : MgrWf m)
    (hq : q ≠ []) (happ : app ≠ "") (hu : u ≠ "") (hr : wf r = true)
    (hfit : fitInMaxUndef (headroomM m q app u ugs).2 (some r) = true) :
    (∃ ut1 ut2, aget (headroomM m q app u ugs).1.users u = some ut1 ∧
      aget (increaseM (headroomM m q app u ugs).1 q app r u ugs).users u = some ut2 ∧ Within ut1.qt ut2.qt q r) ∧
    (∀ gt1, groupForApp (headroomM m q app u ugs).1 u app ≠ "" →
      aget (headroomM m q app u ugs).1.groups (groupForApp (headroomM m q app u ugs).1 u app) = some gt1 →
      ∃ gt2, aget (increaseM (headroomM m q app u ugs).1 q app r u ugs).groups (groupForApp (headroomM m q app u ugs).1 u app) = some gt2 ∧
        Within gt1.qt gt2.qt q r) :=
  manager_enforces m q app u ugs r hm hq happ hu hr hfit

/-- Applications.  When `canRunApp` says yes for an application, after its first IncreaseTrackedResource every tracker
    on the path with a maximum-applications limit runs at most that many applications — unless the application was
    already running there, in which case the count did not change. -/
theorem canRun_enforces (w : List (Path × Limit)) (isUser : Bool) (t : Tree) (h : Path) (app : String) (r : Res)
    (hcan : (canRunApp w isUser t h app).2 = true) :
    ∀ p ∈ prefixes h, ∃ n n', aget (canRunApp w isUser t h app).1 p = some n ∧
      aget (increase w isUser (canRunApp w isUser t h app).1 h app r) p = some n' ∧ n'.maxApps = n.maxApps ∧
      (n.apps.contains app = true → n'.apps = n.apps) ∧
      (n.apps.contains app = false → n.maxApps ≠ 0 → n'.apps.length ≤ n.maxApps) :=
  canRun_enforces_tree w isUser t h app r hcan

/-- The same at the manager: Manager.CanRunApp = true, then IncreaseTrackedResource (`WithinApps`: per tracker of the path,
    at most max-applications running afterwards, or the application was already running there), for the user's tree and
    the resolved group's tree. -/
theorem manager_canRun_enforces (m : Mgr) (q : Path) (app u : String) (ugs : List String) (r : Res)
    (hq : q ≠ []) (happ : app ≠ "") (hu : u ≠ "") (hcan : (canRunM m q app u ugs).2 = true) :
    (∃ ut1 ut2, aget (canRunM m q app u ugs).1.users u = some ut1 ∧
      aget (increaseM (canRunM m q app u ugs).1 q app r u ugs).users u = some ut2 ∧ WithinApps ut1.qt ut2.qt q app) ∧
    (∀ gt1, groupForApp (canRunM m q app u ugs).1 u app ≠ "" →
      aget (canRunM m q app u ugs).1.groups (groupForApp (canRunM m q app u ugs).1 u app) = some gt1 →
      ∃ gt2, aget (increaseM (canRunM m q app u ugs).1 q app r u ugs).groups (groupForApp (canRunM m q app u ugs).1 u app) = some gt2 ∧
        WithinApps gt1.qt gt2.qt q app) :=
  Yk.Ugm.manager_canRun_enforces m q app u ugs r hq happ hu hcan

/-! ## Accounting -/

/-- Tracked usage = sum of the live allocations, per queue and resource type, after EVERY history of operations on the
    queue trackers of one user or group tracker: increases, releases (with and without removeApp, including the removal
    of emptied trackers), the walks of Headroom/CanRunApp that create trackers, limit changes, and the unlinking done by
    a configuration reload — under the callers' contract `histOk` (a release is for a live allocation; removeApp comes
    with the last allocation of the application). -/
theorem usage_is_sum (isUser : Bool) (w : List (Path × Limit)) (ops : List TOp)
    (hok : histOk isUser (newTree w isUser, []) ops) :
    ∀ p k, usageAt (ops.foldl (tstep isUser) (newTree w isUser, [])).1 p k
         = sumLive (ops.foldl (tstep isUser) (newTree w isUser, [])).2 p k :=
  (inv_run isUser ops (newTree w isUser, []) (inv_new w isUser) hok).sum

/-- Every tracker on the path of a live allocation exists and lists the application as running. -/
theorem live_apps_listed (isUser : Bool) (w : List (Path × Limit)) (ops : List TOp)
    (hok : histOk isUser (newTree w isUser, []) ops) :
    ∀ a ∈ (ops.foldl (tstep isUser) (newTree w isUser, [])).2, ∀ p ∈ prefixes a.q,
      ∃ n, aget (ops.foldl (tstep isUser) (newTree w isUser, [])).1 p = some n ∧ a.app ∈ n.apps := by
  intro a ha p hp
  obtain ⟨n, hn, _, hm⟩ := (inv_run isUser ops (newTree w isUser, []) (inv_new w isUser) hok).live a ha p hp
  exact ⟨n, hn, hm⟩

/-- The same at the manager, for USER trackers and ALL histories of manager operations — Headroom, CanRunApp,
    IncreaseTrackedResource, DecreaseTrackedResource and configuration reloads (which re-set limits, unlink queue trackers
    and remove user trackers) in any order — under the callers' contract `mHistOk`: the usage a user's tracker holds on a
    queue is the sum of the user's live allocations there, and a user without tracker has no live allocation.
    (`mStep` runs the operation on the manager and books the allocation in / out of the ledger.)
    For GROUP trackers the statement fails across reloads: see `group_usage_lost_on_reload`. -/
theorem user_usage_is_sum (ops : List Op) (hok : mHistOk ({}, []) ops) :
    (∀ u ut, aget (ops.foldl mStep ({}, [])).1.users u = some ut →
      ∀ p k, usageAt ut.qt p k = sumLive (userAllocs (ops.foldl mStep ({}, [])).2 u) p k) ∧
    (∀ u, aget (ops.foldl mStep ({}, [])).1.users u = none → userAllocs (ops.foldl mStep ({}, [])).2 u = []) :=
  ⟨fun u ut h => ((uinv_run ops ({}, []) uinv_empty hok).trees u ut h).sum,
   (uinv_run ops ({}, []) uinv_empty hok).missing⟩

/-- A release after the increase restores the usage of every queue (in any state reached under the contract). -/
theorem decrease_restores {t : Tree} {L : List Alloc} (h : Inv t L) (w : List (Path × Limit)) (isUser : Bool) (a : Alloc)
    (rm : Bool) (hr : wf a.r = true) (hrm : rm = true → ∀ b ∈ L, b.app ≠ a.app) :
    ∀ p k, usageAt (decrease (increase w isUser t a.q a.app a.r) a.q a.app a.r rm).1 p k = usageAt t p k :=
  dec_inc_restores h w isUser a rm hr hrm

/-- The group resolved for an application does not change while the application is tracked: Headroom, CanRunApp,
    IncreaseTrackedResource and DecreaseTrackedResource (other than the removeApp release of that very application)
    keep the link of every application that is running for its user.  (A configuration reload may break the link:
    resetGroupEarlierUsage deletes it when the group loses its limit.) -/
theorem group_fixed (m : Mgr) (op : Op) (u app : String) (x : Option String)
    (hlink : linkOf m u app = some x) (htracked : trackedApp m u app = true)
    (hop : opKeepsLink op u app = true) : linkOf (step m op) u app = some x :=
  link_stable m op u app x hlink htracked hop

/-! ## Limits follow the configuration -/

/-- THE STATEMENT: after any history whose last configuration is `c`, the limit in force for every user and group on every
    queue is the one `c` configures (named entry, else wildcard entry, else none). -/
def LimitsFollowConfig : Prop :=
  ∀ (ops : List Op) (c : Cfg), lastCfg ops = some c →
    (∀ u p, u ≠ "" → u ≠ "*" → inForceUser (run {} ops) u p = configuredUser c u p) ∧
    (∀ g p, g ≠ "" → inForceGroup (run {} ops) g p = configuredGroup c g p)

/-- It holds for the first configuration loaded into an empty manager, whatever the configuration (queue paths are
    non-empty: they start with the root queue). -/
theorem limits_follow_config_first_load (c : Cfg) (hc : ∀ q ∈ c, q.1 ≠ []) :
    (∀ u p, u ≠ "" → u ≠ "*" → inForceUser (updateConfig {} c) u p = configuredUser c u p) ∧
    (∀ g p, g ≠ "" → inForceGroup (updateConfig {} c) g p = configuredGroup c g p) :=
  first_load c hc

/-- AFTER A RELOAD.  `Synced m`: the trackers of `m` are in step with its active configuration (every queue tracker holds no
    limit, the wildcard limit of its queue, or the limit its user / group is named with there; named queues are reachable
    from the root; the empty manager is synced, see `synced_first_load`).  For ANY synced manager and ANY new configuration
    that passed the validator (`properCfgB`), under decidable hypotheses on the active maps of the manager and the maps the
    new configuration is parsed into —
      * `noWildcardDropBesideNamed` (excludes F17): no queue loses its wildcard user limit while users are named on it in
        both configurations;
      * `noDropAboveKept` for users and for groups (excludes F18 / group-lost): nobody loses the limit of a queue and keeps
        or gets a limit in the subtree of that queue;
      * `singleDrop` for users and for groups: at most one queue per user / group loses its limit (one reset per tracker:
        the iteration order of the old limit map cannot matter) —
    the limits in force after UpdateConfig are exactly those of the new configuration, for every user, group and queue, and
    the manager is synced again: the statement chains over any number of such reloads. -/
theorem limits_follow_config_reload_partial (m : Mgr) (c : Cfg) (hs : Synced m) (hc : properCfgB c = true)
    (h17 : noWildcardDropBesideNamed m (parseCfg c) = true)
    (h18u : noDropAboveKept m.userLimits (parseCfg c).userLimits = true)
    (h18g : noDropAboveKept m.groupLimits (parseCfg c).groupLimits = true)
    (h1u : singleDrop m.userLimits (parseCfg c).userLimits = true)
    (h1g : singleDrop m.groupLimits (parseCfg c).groupLimits = true) :
    (∀ u p, u ≠ "" → u ≠ "*" → inForceUser (updateConfig m c) u p = configuredUser c u p) ∧
    (∀ g p, g ≠ "" → inForceGroup (updateConfig m c) g p = configuredGroup c g p) ∧
    Synced (updateConfig m c) :=
  reload_partial m c hs hc h17 h18u h18g h1u h1g

/-- The first load of a validated configuration leaves the manager synced (it is the reload of the empty manager, whose
    hypotheses hold trivially), so the partial statement applies to the second configuration, the third, ... -/
theorem synced_after_first_load (c : Cfg) (hc : properCfgB c = true) : Synced (updateConfig {} c) :=
  synced_first_load c hc

private def lim (r : Res) (a : Nat) (us gs : List String) : LimitEntry := { users := us, groups := gs, maxRes := some r, maxApps := a }
private def R : Path := ["root"]
private def RA : Path := ["root", "a"]
private def RAB : Path := ["root", "a", "b"]
private def RB : Path := ["root", "b"]
private def RC : Path := ["root", "c"]

/-- F17, stale wildcard limit.  c1: root {u1 named, `*` mem 5 / 2 apps}; Headroom creates the tracker of u3 with the
    wildcard limit; c2: root {u2 named}.  Both configurations name users on root, so clearEarlierSetUserWildCardLimits
    skips the queue: u3 keeps max mem 5 / 2 applications although c2 gives it no limit. -/
def staleWildcard : List Op :=
  [.conf [(R, [lim [("mem", 9)] 0 ["u1"] [], lim [("mem", 5)] 2 ["*"] []])], .headroom R "app1" "u3" [],
   .conf [(R, [lim [("mem", 9)] 0 ["u2"] []])]]

theorem stale_wildcard_limit :
    inForceUser (run {} staleWildcard) "u3" R = (some [("mem", 5)], 2) ∧
    configuredUser [(R, [lim [("mem", 9)] 0 ["u2"] []])] "u3" R = (none, 0) ∧
    (headroomM (run {} staleWildcard) R "app1" "u3" []).2 = some [("mem", 5)] := by decide

/-- The same with configurations only: the tracker of u1 exists because u1 is named on root.a. -/
theorem stale_wildcard_limit_config_only :
    inForceUser (run {} [.conf [(R, [lim [("mem", 9)] 0 ["u2"] [], lim [("mem", 5)] 2 ["*"] []]), (RA, [lim [("mem", 3)] 0 ["u1"] []])],
                         .conf [(R, [lim [("mem", 9)] 0 ["u3"] []]), (RA, [lim [("mem", 3)] 0 ["u1"] []])]]) "u1" R
      ≠ configuredUser [(R, [lim [("mem", 9)] 0 ["u3"] []]), (RA, [lim [("mem", 3)] 0 ["u1"] []])] "u1" R := by decide

/-- F18, lost named limit.  c1: u1 named on root.a and root.a.b; c2: u1 named on root.a.b only.  The limit of c2 is
    applied to the tracker first; then resetUserEarlierUsage(u1, root.a) unlinks root.a together with its child root.a.b
    and removes the emptied user tracker: no limit is in force on root.a.b, Headroom answers nil (unlimited). -/
def namedLost : List Op :=
  [.conf [(R, []), (RA, [lim [("mem", 5)] 0 ["u1"] []]), (RAB, [lim [("mem", 3)] 0 ["u1"] []])],
   .conf [(R, []), (RA, []), (RAB, [lim [("mem", 3)] 0 ["u1"] []])]]

theorem named_limit_lost :
    inForceUser (run {} namedLost) "u1" RAB = (none, 0) ∧
    configuredUser [(R, []), (RA, []), (RAB, [lim [("mem", 3)] 0 ["u1"] []])] "u1" RAB = (some [("mem", 3)], 0) ∧
    (headroomM (run {} namedLost) RAB "app1" "u1" []).2 = none := by decide

/-- The same defect on the group side (resetGroupEarlierUsage → unlinkQT). -/
theorem group_limit_lost :
    inForceGroup (run {} [.conf [(R, []), (RA, [lim [("mem", 5)] 0 [] ["g1"]]), (RAB, [lim [("mem", 3)] 0 [] ["g1"]])],
                          .conf [(R, []), (RA, []), (RAB, [lim [("mem", 3)] 0 [] ["g1"]])]]) "g1" RAB = (none, 0) ∧
    configuredGroup [(R, []), (RA, []), (RAB, [lim [("mem", 3)] 0 [] ["g1"]])] "g1" RAB = (some [("mem", 3)], 0) := by decide

/-- The unrestricted statement is false for the code as written. -/
theorem limits_follow_config_refuted : ¬ LimitsFollowConfig := by
  intro h
  have h1 := (h namedLost [(R, []), (RA, []), (RAB, [lim [("mem", 3)] 0 ["u1"] []])] (by decide)).1 "u1" RAB (by decide) (by decide)
  exact absurd h1 (by decide)

/-! ### the hypotheses of the partial reload statement: satisfiable, and each one needed -/

/-- A real pair of configurations that meets every hypothesis and changes limits: the named limit of u1 on root and the
    wildcard limit of root change, u2 loses its limit on root.a, u3 gets one there, the group limit of g1 changes. -/
def reloadOk1 : Cfg := [(R, [lim [("mem", 9)] 0 ["u1"] ["g1"], lim [("mem", 5)] 2 ["*"] []]), (RA, [lim [("mem", 3)] 0 ["u2"] []])]
def reloadOk2 : Cfg := [(R, [lim [("mem", 7)] 1 ["u1"] ["g1"], lim [("mem", 4)] 0 ["*"] []]), (RA, [lim [("mem", 2)] 0 ["u3"] []])]

theorem reload_hypotheses_satisfiable :
    properCfgB reloadOk1 = true ∧ properCfgB reloadOk2 = true ∧
    noWildcardDropBesideNamed (updateConfig {} reloadOk1) (parseCfg reloadOk2) = true ∧
    noDropAboveKept (updateConfig {} reloadOk1).userLimits (parseCfg reloadOk2).userLimits = true ∧
    noDropAboveKept (updateConfig {} reloadOk1).groupLimits (parseCfg reloadOk2).groupLimits = true ∧
    singleDrop (updateConfig {} reloadOk1).userLimits (parseCfg reloadOk2).userLimits = true ∧
    singleDrop (updateConfig {} reloadOk1).groupLimits (parseCfg reloadOk2).groupLimits = true ∧
    -- limits do change
    inForceUser (updateConfig {} reloadOk1) "u1" R = (some [("mem", 9)], 0) ∧
    inForceUser (updateConfig (updateConfig {} reloadOk1) reloadOk2) "u1" R = (some [("mem", 7)], 1) ∧
    inForceUser (updateConfig {} reloadOk1) "u2" RA = (some [("mem", 3)], 0) ∧
    inForceUser (updateConfig (updateConfig {} reloadOk1) reloadOk2) "u2" RA = (none, 0) ∧
    inForceUser (updateConfig (updateConfig {} reloadOk1) reloadOk2) "u2" R = (some [("mem", 4)], 0) := by
  refine ⟨by decide, by decide, by decide, by decide, by decide, by decide, by decide, by decide, by decide, by decide, by decide, by decide⟩

/-- the corollary for that pair, from the theorems (not by evaluation) -/
example : ∀ u p, u ≠ "" → u ≠ "*" →
    inForceUser (updateConfig (updateConfig {} reloadOk1) reloadOk2) u p = configuredUser reloadOk2 u p :=
  (limits_follow_config_reload_partial _ reloadOk2 (synced_after_first_load reloadOk1 (by decide)) (by decide)
    (by decide) (by decide) (by decide) (by decide) (by decide)).1

/-- A wildcard limit may be dropped when the queue names nobody in one of the configurations (the hypothesis excludes only
    the F17 situation). -/
example : noWildcardDropBesideNamed (updateConfig {} [(R, [lim [("mem", 5)] 2 ["*"] []])]) (parseCfg [(R, [lim [("mem", 3)] 0 ["u1"] []])]) = true := by
  decide

/-- NECESSITY.  The F17 witness violates `noWildcardDropBesideNamed` and nothing else ... -/
theorem stale_wildcard_violates_only_h17 :
    let c1 : Cfg := [(R, [lim [("mem", 9)] 0 ["u2"] [], lim [("mem", 5)] 2 ["*"] []]), (RA, [lim [("mem", 3)] 0 ["u1"] []])]
    let c2 : Cfg := [(R, [lim [("mem", 9)] 0 ["u3"] []]), (RA, [lim [("mem", 3)] 0 ["u1"] []])]
    properCfgB c1 = true ∧ properCfgB c2 = true ∧
    noWildcardDropBesideNamed (updateConfig {} c1) (parseCfg c2) = false ∧
    noDropAboveKept (updateConfig {} c1).userLimits (parseCfg c2).userLimits = true ∧
    noDropAboveKept (updateConfig {} c1).groupLimits (parseCfg c2).groupLimits = true ∧
    singleDrop (updateConfig {} c1).userLimits (parseCfg c2).userLimits = true ∧
    singleDrop (updateConfig {} c1).groupLimits (parseCfg c2).groupLimits = true ∧
    inForceUser (updateConfig (updateConfig {} c1) c2) "u1" R ≠ configuredUser c2 "u1" R := by
  refine ⟨by decide, by decide, by decide, by decide, by decide, by decide, by decide, by decide⟩

/-- ... the F18 witness violates `noDropAboveKept` for users and nothing else ... -/
theorem named_lost_violates_only_h18 :
    let c1 : Cfg := [(R, []), (RA, [lim [("mem", 5)] 0 ["u1"] []]), (RAB, [lim [("mem", 3)] 0 ["u1"] []])]
    let c2 : Cfg := [(R, []), (RA, []), (RAB, [lim [("mem", 3)] 0 ["u1"] []])]
    properCfgB c1 = true ∧ properCfgB c2 = true ∧
    noWildcardDropBesideNamed (updateConfig {} c1) (parseCfg c2) = true ∧
    noDropAboveKept (updateConfig {} c1).userLimits (parseCfg c2).userLimits = false ∧
    noDropAboveKept (updateConfig {} c1).groupLimits (parseCfg c2).groupLimits = true ∧
    singleDrop (updateConfig {} c1).userLimits (parseCfg c2).userLimits = true ∧
    singleDrop (updateConfig {} c1).groupLimits (parseCfg c2).groupLimits = true ∧
    inForceUser (updateConfig (updateConfig {} c1) c2) "u1" RAB ≠ configuredUser c2 "u1" RAB := by
  refine ⟨by decide, by decide, by decide, by decide, by decide, by decide, by decide, by decide⟩

/-- ... and the group-lost witness violates `noDropAboveKept` for groups and nothing else.  (`singleDrop` is not shown
    necessary: it makes the resets of clearEarlierSetLimits independent of Go's map order in the proof; the small-scope
    search of the model finds no limit violation that needs it.  Its absence does matter for links and usage:
    `reload_outcome_depends_on_map_order`.) -/
theorem group_lost_violates_only_h18g :
    let c1 : Cfg := [(R, []), (RA, [lim [("mem", 5)] 0 [] ["g1"]]), (RAB, [lim [("mem", 3)] 0 [] ["g1"]])]
    let c2 : Cfg := [(R, []), (RA, []), (RAB, [lim [("mem", 3)] 0 [] ["g1"]])]
    properCfgB c1 = true ∧ properCfgB c2 = true ∧
    noWildcardDropBesideNamed (updateConfig {} c1) (parseCfg c2) = true ∧
    noDropAboveKept (updateConfig {} c1).userLimits (parseCfg c2).userLimits = true ∧
    noDropAboveKept (updateConfig {} c1).groupLimits (parseCfg c2).groupLimits = false ∧
    singleDrop (updateConfig {} c1).userLimits (parseCfg c2).userLimits = true ∧
    singleDrop (updateConfig {} c1).groupLimits (parseCfg c2).groupLimits = true ∧
    inForceGroup (updateConfig (updateConfig {} c1) c2) "g1" RAB ≠ configuredGroup c2 "g1" RAB := by
  refine ⟨by decide, by decide, by decide, by decide, by decide, by decide, by decide, by decide⟩

/-! ## Group accounting across reloads -/

/-- THE STATEMENT for groups across reloads: the usage a group tracker holds on a queue is the sum of the live allocations
    of the applications linked to the group. -/
def GroupUsageIsSum (m : Mgr) (live : List (String × Alloc)) : Prop :=
  ∀ g gt, g ≠ "" → aget m.groups g = some gt → ∀ p k, usageAt gt.qt p k = sumLive (groupAllocs m live g) p k

/-- It holds for every manager history WITHOUT reloads that starts from the first load of a proper configuration (every
    queue path starts at the root and every `limits:` entry sets a limit, as configs.Validate demands): Headroom, CanRunApp,
    IncreaseTrackedResource and DecreaseTrackedResource (removeApp included) in any order under the callers' contract
    `gHistOk` (= `mHistOk`, application ids unique across users, no reload), with the application → group links exactly
    as ensureGroupInternal resolves them.  Along the way: every link points to an existing group tracker, and a group
    tracker of the configuration is never removed. -/
theorem group_usage_is_sum_partial (c : Cfg) (hc : ProperCfg c) (ops : List Op)
    (hok : gHistOk (updateConfig {} c, []) ops) :
    GroupUsageIsSum (ops.foldl mStep (updateConfig {} c, [])).1 (ops.foldl mStep (updateConfig {} c, [])).2 :=
  fun g gt hne hgt => ((ginv_run ops (updateConfig {} c, []) (ginv_first_load c hc) hok).trees g gt hne hgt).sum

/-- The same from ANY state that meets the group invariant `GInv` (user accounting, links resolved to existing trackers,
    every resolvable group has an anchored tracker, group usage = sum): histories without reloads keep it. -/
theorem group_usage_is_sum_from (m0 : Mgr) (L0 : List (String × Alloc)) (h0 : GInv m0 L0) (ops : List Op)
    (hok : gHistOk (m0, L0) ops) :
    GInv (ops.foldl mStep (m0, L0)).1 (ops.foldl mStep (m0, L0)).2 ∧
    GroupUsageIsSum (ops.foldl mStep (m0, L0)).1 (ops.foldl mStep (m0, L0)).2 :=
  ⟨ginv_run ops (m0, L0) h0 hok, fun g gt hne hgt => ((ginv_run ops (m0, L0) h0 hok).trees g gt hne hgt).sum⟩

/-- g1 limited on root and root.a; app1 (user u1, group g1) holds mem 3 in root.b, app2 holds mem 2 in root.a.  A reload
    drops the root.a limit: decreaseTrackedResourceUsageDownwards wipes usage and running applications of g1 on root.a AND
    on its ancestor root.  app1 stays linked to g1 and keeps its allocation, but g1 counts nothing: Headroom(root.b)
    answers mem 20 instead of 17. -/
def groupReset : List Op :=
  [.conf [(R, [lim [("mem", 20)] 0 [] ["g1"]]), (RA, [lim [("mem", 10)] 0 [] ["g1"]]), (RB, [])],
   .inc RB "app1" [("mem", 3)] "u1" ["g1"], .inc RA "app2" [("mem", 2)] "u1" ["g1"],
   .conf [(R, [lim [("mem", 20)] 0 [] ["g1"]]), (RA, []), (RB, [])]]

theorem group_usage_lost_on_reload :
    groupForApp (run {} groupReset) "u1" "app1" = "g1" ∧
    (match aget (run {} groupReset).groups "g1" with | some gt => usageAt gt.qt R "mem" | none => -1) = 0 ∧
    (headroomM (run {} groupReset) RB "app1" "u1" ["g1"]).2 = some [("mem", 20)] ∧
    ¬ GroupUsageIsSum (run {} groupReset) [("u1", ⟨"app1", RB, [("mem", 3)]⟩), ("u1", ⟨"app2", RA, [("mem", 2)]⟩)] := by
  refine ⟨by decide, by decide, by decide, ?_⟩
  intro h
  have hg : ∃ gt, aget (run {} groupReset).groups "g1" = some gt := by
    cases hh : aget (run {} groupReset).groups "g1" with
    | none => exact absurd hh (by decide)
    | some gt => exact ⟨gt, rfl⟩
  obtain ⟨gt, hgt⟩ := hg
  have h1 := h "g1" gt (by decide) hgt R "mem"
  have h2 : (match aget (run {} groupReset).groups "g1" with | some gt => usageAt gt.qt R "mem" | none => -1) = 0 := by decide
  rw [hgt] at h2
  simp only at h2
  rw [h2] at h1
  exact absurd h1 (by decide)

/-! ## The outcome of a reload depends on Go's map iteration order -/

/-- g1 limited on root, root.a.b and root.c; app1 (u3, g1) holds mem 3 in root.c; the reload keeps only the root.c limit.
    clearEarlierSetGroupLimits ranges over a Go map: resetting (g1, root) first breaks the link app1 → g1; resetting
    (g1, root.a.b) first wipes the applications of root, the later reset of root finds none and app1 stays linked to a
    group tracker that no longer counts it. -/
theorem reload_outcome_depends_on_map_order :
    let c2 : Cfg := [(R, []), (RA, []), (RAB, []), (RC, [lim [("mem", 4)] 1 [] ["g1"]])]
    let pre := run {} [.conf [(R, [lim [("mem", 5)] 0 [] ["g1"]]), (RA, []), (RAB, [lim [("mem", 5)] 0 [] ["g1"]]), (RC, [lim [("mem", 4)] 0 [] ["g1"]])],
                       .inc RC "app1" [("mem", 3)] "u3" ["g1"]]
    let s := processConfig pre c2
    groupForApp (finishConfig s [(R, "g1"), (RAB, "g1")] []) "u3" "app1" = "" ∧
    groupForApp (finishConfig s [(RAB, "g1"), (R, "g1")] []) "u3" "app1" = "g1" := by decide

/-! ## non-vacuity -/

private def exW : List (Path × Limit) := [(RA, { maxRes := some [("mem", 4)], maxApps := 1 })]

/-- the headroom of a fresh user tree under a wildcard limit; an ask that fits, one that does not -/
example : (headroom exW true (newTree exW true) RA).2 = some [("mem", 4)] ∧
    fitInMaxUndef (headroom exW true (newTree exW true) RA).2 (some [("mem", 3)]) = true ∧
    fitInMaxUndef (headroom exW true (newTree exW true) RA).2 (some [("mem", 5)]) = false ∧
    fitInMaxUndef (headroom exW true (newTree exW true) RA).2 (some [("cpu", 50)]) = true := by decide
example : (canRunApp exW true (increase exW true (newTree exW true) RA "app1" []) RA "app2").2 = false ∧
    (canRunApp exW true (increase exW true (newTree exW true) RA "app1" []) RA "app1").2 = true := by decide
example : histOk true (newTree exW true, [])
    [.inc exW ⟨"app1", RA, [("mem", 2)]⟩, .touch exW RAB, .dec ⟨"app1", RA, [("mem", 2)]⟩ true, .unlink RA] := by
  refine ⟨?_, trivial, ⟨?_, ?_⟩, trivial, trivial⟩
  · show wf [("mem", 2)] = true; decide
  · show (⟨"app1", RA, [("mem", 2)]⟩ : Alloc) ∈ [(⟨"app1", RA, [("mem", 2)]⟩ : Alloc)]; exact List.mem_cons_self
  · intro _ b hb; simp [tstep] at hb

/-- a manager history with a reload between the allocation and its release meets the contract -/
example : mHistOk ({}, [])
    [.conf [(R, [lim [("mem", 9)] 0 ["u1"] []])], .inc RA "app1" [("mem", 2)] "u1" [], .conf [(R, [])],
     .dec RA "app1" [("mem", 2)] "u1" true] := by
  refine ⟨trivial, ⟨by decide, by decide, by decide, by decide⟩, trivial, ⟨?_, ?_⟩, trivial⟩
  · show (("u1", ⟨"app1", RA, [("mem", 2)]⟩) : String × Alloc) ∈ [(("u1", ⟨"app1", RA, [("mem", 2)]⟩) : String × Alloc)]
    exact List.mem_cons_self
  · intro _ b hb
    have : userAllocs (List.erase [(("u1", ⟨"app1", RA, [("mem", 2)]⟩) : String × Alloc)] ("u1", ⟨"app1", RA, [("mem", 2)]⟩)) "u1" = [] := by decide
    change b ∈ userAllocs (List.erase [(("u1", ⟨"app1", RA, [("mem", 2)]⟩) : String × Alloc)] ("u1", ⟨"app1", RA, [("mem", 2)]⟩)) "u1" at hb
    rw [this] at hb; cases hb

/-- a proper configuration with a group limit, and a history without reload that meets the group contract -/
example : ProperCfg [(R, [lim [("mem", 20)] 0 [] ["g1"]]), (RA, [lim [("mem", 10)] 0 [] ["g1"]]), (RB, [])] := by
  intro q hq
  simp only [List.mem_cons, List.not_mem_nil, or_false] at hq
  rcases hq with h | h | h <;> subst h <;> exact ⟨by decide, by decide⟩
example : groupForApp (run (updateConfig {} [(R, [lim [("mem", 20)] 0 [] ["g1"]]), (RA, [lim [("mem", 10)] 0 [] ["g1"]]), (RB, [])])
    [.inc RB "app1" [("mem", 3)] "u1" ["g1"]]) "u1" "app1" = "g1" := by decide
example : gHistOk (updateConfig {} [(R, [lim [("mem", 20)] 0 [] ["g1"]])], [])
    [.inc RA "app1" [("mem", 2)] "u1" ["g1"], .headroom RA "app1" "u1" ["g1"], .dec RA "app1" [("mem", 2)] "u1" true] := by
  refine ⟨⟨⟨by decide, by decide, by decide, by decide⟩, fun e he => (by cases he)⟩, trivial, ⟨?_, ?_⟩, trivial⟩
  · show (("u1", ⟨"app1", RA, [("mem", 2)]⟩) : String × Alloc) ∈ [(("u1", ⟨"app1", RA, [("mem", 2)]⟩) : String × Alloc)]
    exact List.mem_cons_self
  · intro _ b hb
    have : userAllocs (List.erase [(("u1", ⟨"app1", RA, [("mem", 2)]⟩) : String × Alloc)] ("u1", ⟨"app1", RA, [("mem", 2)]⟩)) "u1" = [] := by decide
    change b ∈ userAllocs (List.erase [(("u1", ⟨"app1", RA, [("mem", 2)]⟩) : String × Alloc)] ("u1", ⟨"app1", RA, [("mem", 2)]⟩)) "u1" at hb
    rw [this] at hb; cases hb

/-- fall back from a named limit to an UNCHANGED wildcard limit (corpus/C05/ugm-fallback-to-unchanged-wildcard.jsonl): u1 is
    named on root beside a wildcard limit and runs app1 in root.a; the reload drops the named limit and repeats the wildcard
    entry as it was: the limit in force for u1 on root is the wildcard limit of the latest configuration, and its headroom
    is counted against it -/
example : inForceUser (run {} [.conf [(R, [lim [("mem", 9)] 0 ["u1"] [], lim [("mem", 5)] 2 ["*"] []]), (RA, [])],
     .inc RA "app1" [("mem", 3)] "u1" [], .conf [(R, [lim [("mem", 5)] 2 ["*"] []]), (RA, [])]]) "u1" R = (some [("mem", 5)], 2) := by decide
example : (headroomM (run {} [.conf [(R, [lim [("mem", 9)] 0 ["u1"] [], lim [("mem", 5)] 2 ["*"] []]), (RA, [])],
     .inc RA "app1" [("mem", 3)] "u1" [], .conf [(R, [lim [("mem", 5)] 2 ["*"] []]), (RA, [])]]) RA "app1" "u1" []).2 = some [("mem", 2)] := by decide

end Yk.C05
