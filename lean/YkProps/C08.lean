/-
  C08 — Preemption respects guarantees and never kills without effect.
  Property theorems only. Model: YkModel/Preempt.lean; lemmas: YkProofs/Preempt.lean; tie to the code: component
  `preempt` (correspondence against the real functions + the clauses `C08.*` evaluated on what the implementation did).
  `Snap.used s` = allocated − preempting of a queue snapshot (what the guarantee arithmetic calls usage);
  `SameShape ss' ss` = the same snapshots with other allocated amounts (a what-if state reached by Add/RemoveAllocation).
-/
import YkProofs.Preempt
namespace Yk.C08
open Yk Yk.Res Yk.Pre

/-! ### the attempt needs a guarantee -/

/-- checkPreemptionQueueGuarantees refuses — TryPreemption does nothing — when no queue on the path of the ask queue
    has guaranteed resources. -/
theorem attempt_needs_guarantee (w : World) (nt : Bool)
    (h : ∀ q ∈ snapChain (findEligible w) (askInfo w).path, ∀ s, findSnap (findEligible w) q = some s → isEmpty s.guar = true) :
    checkGuarantees w (findEligible w) = false ∧ tryPreemptionNoPlugin w nt = none := by
  have hc := checkGuarantees_needs_guarantee w (findEligible w) h
  refine ⟨hc, ?_⟩
  unfold tryPreemptionNoPlugin
  simp [hc]

/-! ### victims only from queues above their guaranteed share -/

/-- What a negative entry of GetRemainingGuaranteedResource means (guards the sign and min/max arithmetic): if the
    remaining guaranteed of queue `p` is negative on type `k`, some queue on the path of `p` (itself or an ancestor in
    the snapshot tree) guarantees an amount of `k` that is below its usage of `k`. -/
theorem negative_remaining_means_over_guarantee (ai : AskInfo) (ss : List Snap) (p : String) (r : Res) (k : String) (v : Int)
    (h : remaining ai ss p = some r) (hk : (k, v) ∈ r) (hv : v < 0) :
    ∃ s ∈ ss, s.path ∈ snapChain ss p ∧ ∃ g gv, s.guar = some g ∧ (k, gv) ∈ g ∧ gv < s.used.getD k :=
  remaining_neg_witness ai ss _ _ r k v h hk hv

/-- A leaf queue that is within its guarantee (remaining guaranteed defined, no negative entry) offers no victims. -/
theorem leaf_within_guarantee_offers_nothing (w : World) (l : Nat) (q : PQ) (hq : w.queues[l]? = some q)
    (hrem : (remaining (askInfo w) (allSnaps w) q.path).isSome = true)
    (hge : strictlyGreaterThanOrEquals (remaining (askInfo w) (allSnaps w) q.path) (some []) = true) :
    ∀ vs, (l, vs) ∉ eligLeaves w :=
  Pre.leaf_within_guarantee_offers_nothing w l q hq hrem hge

/-- Conversely a leaf that offers victims has remaining guaranteed nil (no guarantee in force for it) or some queue
    of its path is above its guaranteed share. -/
theorem offering_leaf_over_guarantee (w : World) (l : Nat) (vs : List String) (h : (l, vs) ∈ eligLeaves w) :
    ∃ q, w.queues[l]? = some q ∧
      (remaining (askInfo w) (allSnaps w) q.path = none ∨
       ∃ k, ∃ s ∈ allSnaps w, s.path ∈ snapChain (allSnaps w) q.path ∧ ∃ g gv, s.guar = some g ∧ (k, gv) ∈ g ∧ gv < s.used.getD k) :=
  Pre.offering_leaf_over_guarantee w l vs h

/-- AT THE MOMENT EACH VICTIM IS TAKEN: every victim TryPreemption collects (second pass of calculateVictimsByNode,
    calculateAdditionalVictims) — hence every victim it marks — was taken in a what-if state `ss'` of the snapshots in
    which its queue had remaining guaranteed nil or some queue of its path was above its guaranteed share on a type the
    ask needs. -/
theorem victim_queue_over_guarantee (w : World) (nt : Bool) (r : TryResult) (h : tryPreemptionNoPlugin w nt = some r) :
    ∀ v ∈ r.victims, ∃ qp ss', queueOfVictim (findEligible w) v.key = some qp ∧ SameShape ss' (findEligible w) ∧
      (remaining (askInfo w) ss' qp = none ∨
       ∃ k, (∃ a, (k, a) ∈ w.ask.res) ∧ ∃ s ∈ ss', s.path ∈ snapChain ss' qp ∧
          ∃ g gv, s.guar = some g ∧ (k, gv) ∈ g ∧ gv < s.used.getD k) := by
  obtain ⟨hcoll, hsub, _⟩ := tryPreemption_commits_potential h
  intro v hv
  exact (hcoll v (hsub.subset hv)).2

/-- THE GUARANTEE RULE ON THE WORLD ITSELF, full strength (refuted before the repository fix 198ba47 by the path-prefix
    sibling `root.a` / `root.a1`; holds now): in every well-formed world — parents before children, the ask names a queue,
    queue paths identify queues, a queue whose path plus "." is a prefix of the ask queue's path is one of its ancestors
    (`wellFormedB`, evaluated by the driver on every generated world) — a leaf offers victims only if, whenever a queue
    of its path that is not shared with the ask queue sets a guarantee, some queue of its path is above its guaranteed
    share. -/
theorem offers_only_above_guarantee (w : World) (hw : wellFormedB w = true) : offersRespectGuarantee w = true :=
  offersRespectGuarantee_true w (wellFormed_of_check w hw)

/-- what keeps the rule: a queue off the asker's path with a guarantee on the private part of its path always has a
    remaining guaranteed that is defined and not empty — its guarantee is never ignored -/
theorem private_guarantee_is_in_force (w : World) (hw : wellFormedB w = true) (i : Nat) (q : PQ)
    (hq : w.queues[i]? = some q) (hpriv : i ∉ chain w w.ask.q)
    (hex : ∃ j ∈ chain w i, j ∉ chain w w.ask.q ∧ ∃ qj, w.queues[j]? = some qj ∧ isEmpty qj.guar = false) :
    ∃ r, remaining (askInfo w) (allSnaps w) q.path = some r ∧ r ≠ [] := by
  unfold remaining
  exact remaining_some_of_private_guarantee w (wellFormed_of_check w hw) _ i q
    (by rw [allSnaps_length]; have := lt_length_of_getElem? hq; omega) hq hpriv hex

def mkAlloc (k : String) (q node : Nat) (r : Res) (ct : Int) : PAlloc :=
  { key := k, app := "app-b", q := q, node := node, res := r, prio := 0, released := false, preempted := false, req := false,
    ph := false, self := true, orig := false, ct := ct }

def mkQueue (path : String) (parent : Option Nat) (leaf : Bool) (g : ORes) : PQ :=
  { path := path, parent := parent, leaf := leaf, max := none, effMax := some [("cpu", 12), ("mem", 10)], guar := g, ppol := 0,
    prFence := false, off := 0, delay := 30, managed := true }

def mkAsk (q : Nat) (r : Res) : PAsk :=
  { key := "ask-0", app := "app-a", q := q, res := r, prio := 0, other := true, self := true, req := none, age := 100, triggered := false }

/-- the former counterexample: root.a (guaranteed cpu 5, uses cpu 3) next to the ask queue root.a1 -/
def prefixWitness (victimQueue : String) : World :=
  { queues := [mkQueue "root" none false none, mkQueue "root.a1" (some 0) true (some [("cpu", 10)]),
               mkQueue victimQueue (some 0) true (some [("cpu", 5)])],
    nodes := [{ id := "n0", cap := [("cpu", 4), ("mem", 4)], avail := [("cpu", 1), ("mem", 3)], sched := true }],
    allocs := [mkAlloc "v1" 2 0 [("cpu", 3), ("mem", 1)] 2],
    ask := mkAsk 1 [("cpu", 3)] }

/-- non-vacuity / regression: the world is well-formed, and the queue within its guarantee is skipped whatever it is
    called (replayed on the code: corpus/C08/preempt-path-prefix-guarantee-ignored.jsonl and its control) -/
example : wellFormedB (prefixWitness "root.a") = true ∧ eligLeaves (prefixWitness "root.b") = [] ∧
    eligLeaves (prefixWitness "root.a") = [] ∧
    remaining (askInfo (prefixWitness "root.a")) (allSnaps (prefixWitness "root.a")) "root.a" = some [("cpu", 2)] ∧
    tryPreemptionNoPlugin (prefixWitness "root.a") true = none := by decide

/-! ### committed only if the victims cover the ask -/

/-- FULL STATEMENT (false for the unchanged code, see `commit_covers_ask_refuted`): whenever TryPreemption commits,
    the free space of the chosen node plus the victims it marks on that node cover the ask on every type. -/
def commit_covers_ask : Prop := ∀ (w : World) (nodesTried : Bool), commitCovers w nodesTried = true

/-- the witness of the known finding: node {cpu12,mem10} full with v1{cpu11,mem1} (newer) and v2{cpu1,mem9} of queue
    root.b (guaranteed {1,1}); ask {cpu10,mem10} from root.a (guaranteed {20,20}) -/
def witness : World :=
  { queues := [mkQueue "root" none false none, mkQueue "root.a" (some 0) true (some [("cpu", 20), ("mem", 20)]),
               mkQueue "root.b" (some 0) true (some [("cpu", 1), ("mem", 1)])],
    nodes := [{ id := "n0", cap := [("cpu", 12), ("mem", 10)], avail := [("cpu", 0), ("mem", 0)], sched := true }],
    allocs := [mkAlloc "v1" 2 0 [("cpu", 11), ("mem", 1)] 2, mkAlloc "v2" 2 0 [("cpu", 1), ("mem", 9)] 4],
    ask := mkAsk 1 [("cpu", 10), ("mem", 10)] }

/-- on the witness the model (like the code: corpus/C08/preempt-f19-commit-does-not-cover-ask.jsonl) collects v1 and v2
    for the node but commits with v1 only: free {0,0} + v1 {cpu11,mem1} does not cover mem 10 -/
example : (tryPreemptionNoPlugin witness false).map (fun r => (r.node, r.victims.map (·.key), r.collected.map (·.key))) =
    some ("n0", ["v1"], ["v1", "v2"]) := by decide

theorem commit_covers_ask_refuted : ¬ commit_covers_ask := fun h => absurd (h witness false) (by decide)

/-- PROVED PART, same predicate as the full statement: for every world whose ask has a single resource type `{k: A}`,
    `A > 0` (resource vectors being maps with non-negative values), a commit does cover the ask — the final victims
    alone free at least `A`. With more than one type this fails because the final filter stops as soon as ONE type of
    the running total exceeds the ask while the shortfall test that follows looks at the running total of everything
    collected and never at the node's free space. -/
theorem commit_covers_ask_partial (w : World) (nodesTried : Bool) (k : String) (A : Int)
    (hask : w.ask.res = [(k, A)]) (hA : 0 < A) (hn : NonNeg w) : commitCovers w nodesTried = true :=
  commitCovers_single_type w nodesTried k A hask hA hn

/-- the same at the level of the final filter, for every collected list: when the shortfall test passes, the final
    victims alone free at least `A` -/
theorem final_filter_covers_single_type (k : String) (A : Int) (hA : 0 < A) (fitIn : Bool) (ni : Nat) (victims : List PAlloc)
    (hv : ∀ v ∈ victims, wf v.res = true ∧ 0 ≤ v.res.getD k)
    (hc : strictlyOnlyExisting (some [(k, A)]) (some (finalFilter [(k, A)] fitIn ni victims).2) false = false) :
    A ≤ (sumRes ((finalFilter [(k, A)] fitIn ni victims).1.map (·.res))).getD k :=
  finalFilter_single k A hA fitIn ni victims hv hc

/-! ### quota change preemption -/

/-- The amount setPreemptableResources plans for a queue never exceeds, on any type, the amount by which the queue's
    usage (allocated minus what is already being preempted) exceeds the lowered maximum; it only lists types that are
    over the maximum. -/
theorem quota_plan_le_excess (w : World) (i : Nat) (newMax : ORes) (pre : Res) (h : quotaPreemptable w i newMax = some pre) :
    ∀ k v, (k, v) ∈ pre → ∃ mx m, newMax = some mx ∧ (k, m) ∈ mx ∧ v ≤ (quotaUsed w i).getD k - m ∧ m < (quotaUsed w i).getD k :=
  quotaPreemptable_le_excess w i newMax pre h

/-- QUOTA PREEMPTION, a victim released in the meantime. `sel` are the selected victims (`quotaSelect` of every leaf that
    takes part), `late` the allocations released (placeholder replaced / timed out: SetReleased(true)) after
    filterAllocations listed them and before preemptVictims marks its victims; `quotaPreemptLate` is the marking loop as
    written (MarkPreempted; a released victim is skipped). For every world with well-formed resource vectors, every
    `late`, every selection, every queue `i` and every resource type `k`:
    preempting(after) = preempting(before) + Σ sizes of the victims of the subtree of `i` marked by this operation
    (`newlyMarked`: named by `quotaMarked` and not marked before) - nothing is booked for a victim that is not marked. -/
theorem quota_preempting_equals_marked (w : World) (hres : ∀ a ∈ w.allocs, wf a.res = true) (late sel : List String)
    (i : Nat) (k : String) :
    (preemptingOf { w with allocs := quotaPreemptLate w late sel } i).getD k =
      (preemptingOf w i).getD k +
      (sumRes ((newlyMarked w (quotaMarked (releaseLate late w.allocs) sel) i).map (·.res))).getD k :=
  quotaPreemptLate_preempting w hres late sel i k

/-- ... and the victims the loop marks are exactly the selected victims that are not released at that moment: a victim
    released in the meantime is never marked, and nothing else changes (the allocations afterwards are those left by
    the late releases with the flag set on the marked victims). -/
theorem quota_released_victim_never_marked (w : World) (late sel : List String) :
    (∀ k ∈ quotaMarked (releaseLate late w.allocs) sel, k ∈ sel ∧ isReleased (releaseLate late w.allocs) k = false) ∧
    (∀ k ∈ sel, isReleased (releaseLate late w.allocs) k = false → k ∈ quotaMarked (releaseLate late w.allocs) sel) ∧
    quotaPreemptLate w late sel =
      markMap (quotaMarked (releaseLate late w.allocs) sel) true (releaseLate late w.allocs) := by
  refine ⟨fun k hk => quotaMarked_mem hk, fun k hk hr => ?_, quotaPreemptLate_eq w late sel⟩
  unfold quotaMarked
  exact List.mem_filter.mpr ⟨hk, by rw [hr]; rfl⟩

/-- Whatever order the candidates are tried in (the sort key is float valued), the resources claimed from a leaf never
    exceed the amount planned for the leaf on any type of the plan, every victim fits the plan on the types it defines,
    and the claimed total is the sum of the selected victims. -/
theorem quota_claim_bounded (plan : Res) (cands : List PAlloc) :
    (∀ p ∈ plan, ∀ v, (quotaSelect plan cands).2.get? p.1 = some v → v ≤ p.2) ∧
    (quotaSelect plan cands).2 = sumRes ((quotaSelect plan cands).1.map (·.res)) ∧
    (∀ v ∈ (quotaSelect plan cands).1, v ∈ cands ∧ fitInMaxUndef (some plan) (some v.res) = true) :=
  quotaSelect_spec plan cands

/-- The distribution of a parent's plan over its children (first pass of getChildQueuesPreemptableResource): with a
    guarantee set, every type of a child's preemptable usage — the only types its share can list — is a type the
    guarantee defines and the child's allocation exceeds, by exactly the listed amount; so a child at or below its
    guarantee on a type gets no share of that type (holds since the repository fix 5aef914; the float valued size of
    the share is taken from the implementation, the driver checks that its types are types of this vector). -/
theorem quota_child_share_respects_guarantee (w : World) (c : Nat) (q : PQ) (hq : w.queues[c]? = some q) (g u : Res)
    (hg : q.guar = some g) (hne : g ≠ []) (hu : childPreemptableUsage w c = some u) :
    (∀ k v, (k, v) ∈ u → ∃ gv, (k, gv) ∈ g ∧ gv < (allocatedOf w c).getD k ∧ v = (allocatedOf w c).getD k - gv) ∧
    (wf g = true → ∀ k gv, (k, gv) ∈ g → (allocatedOf w c).getD k ≤ gv → ∀ v, (k, v) ∉ u) :=
  ⟨childPreemptableUsage_guaranteed w c q hq g u hg hne hu,
   fun hgw k gv hk hle => childPreemptableUsage_respects_guarantee w c q hq g u hg hne hgw hu k gv hk hle⟩

/-! ### quota change preemption: when it is due -/

/-- FULL STATEMENT (false for the unchanged code, see the refutation): along every history of configuration updates
    (maximum, quota.preemption.delay), clock advances and attempts, a scheduled start is exactly (time at which the
    pending lowering was first scheduled) + (delay in force) — never earlier. -/
def quota_start_never_early : Prop :=
  ∀ (managed : Bool) (alloc : Res) (s0 : QuotaT) (steps : List QuotaStep), timingOK s0 = true →
    timingOK (runQuota managed alloc (s0, 0) steps).1 = true

/-- witness: usage {15,15}; maximum {20,20} lowered to {10,10} with delay 10m (due at 600 s), then changed to {9,11} —
    neither lower nor higher — with delay 30m: setPreemptionTime has no branch for it, the start stays at 600 s although
    the delay in force is 1800 s (replayed on the code: corpus/C08/preempt-quota-incomparable-change-keeps-early-start.jsonl) -/
theorem quota_start_never_early_refuted : ¬ quota_start_never_early := fun h =>
  absurd (h true [("cpu", 15), ("mem", 15)] { max := some [("cpu", 20), ("mem", 20)], delay := 0, start := none, base := none }
    [.conf (some [("cpu", 10), ("mem", 10)]) 600, .conf (some [("cpu", 9), ("mem", 11)]) 1800] rfl) (by decide)

/-- PROVED PART: it holds along every history in which no update changes the delay of a pending start across an
    incomparable change of the maximum (`goodHist`: lowerings, raises, equal maxima with any delay change are all fine;
    consecutive lowerings with a LARGER delay move the start LATER by the difference). -/
theorem quota_start_never_early_partial (managed : Bool) (alloc : Res) (s0 : QuotaT) (steps : List QuotaStep)
    (h0 : timingOK s0 = true) (hg : goodHist managed alloc (s0, 0) steps = true) :
    timingOK (runQuota managed alloc (s0, 0) steps).1 = true :=
  runQuota_keeps managed alloc steps (s0, 0) h0 hg

/-- ... and preemption never fires before it: tryAcquirePreemption succeeds only when (time the pending lowering was
    scheduled) + (delay in force) has passed. -/
theorem quota_fires_only_after_delay (managed : Bool) (alloc : Res) (s : QuotaT) (now : Int) (h : timingOK s = true)
    (hf : (tryAcquire managed alloc s now).2 = true) : ∃ b, s.base = some b ∧ b + s.delay ≤ now :=
  tryAcquire_fires_late managed alloc s now h hf

/-- consecutive lowerings with a larger delay: the start moves later by the difference (10m → 30m: 600 s → 1800 s) -/
example : (runQuota true [("cpu", 15)] ({ max := some [("cpu", 20)], delay := 0, start := none, base := none }, 0)
    [.conf (some [("cpu", 10)]) 600, .advance 300, .conf (some [("cpu", 9)]) 1800]).1.start = some 1800 := by decide

/-! ### non-vacuity -/

/-- the former Q2 witness: root.p.y (guaranteed {cpu8,mem4}, uses {cpu2,mem6}) only offers the 2 mem above its guarantee -/
example : childPreemptableUsage
    { queues := [mkQueue "root" none false none, mkQueue "root.p" (some 0) false none, mkQueue "root.p.x" (some 1) true none,
                 mkQueue "root.p.y" (some 1) true (some [("cpu", 8), ("mem", 4)])],
      nodes := [], allocs := [mkAlloc "v1" 2 0 [("cpu", 9)] 2, mkAlloc "v3" 3 0 [("cpu", 1), ("mem", 6)] 4, mkAlloc "v4" 3 0 [("cpu", 1)] 6],
      ask := mkAsk 2 [("cpu", 1)] } 3 = some [("mem", 2)] := by decide


example : (quotaSelect [("cpu", 5)] [mkAlloc "a" 1 0 [("cpu", 3)] 1, mkAlloc "b" 1 0 [("cpu", 3)] 2, mkAlloc "c" 1 0 [("cpu", 2)] 3]).1.map (·.key)
    = ["a", "c"] := by decide
/-- a single-type ask on the F19 node: the commit covers it -/
example : commitCovers { witness with ask := mkAsk 1 [("cpu", 10)] } false = true ∧
    (tryPreemptionNoPlugin { witness with ask := mkAsk 1 [("cpu", 10)] } false).isSome = true := by decide
/-- a negative remaining entry and its witness queue -/
example : remaining (askInfo witness) (allSnaps witness) "root.b" = some [("cpu", -11), ("mem", -9)] := by decide

/-- quota marking world: leaf root.b holds v1, v2 of cpu 4; planned cpu 8 selects both -/
def qmWorld : World :=
  { queues := [mkQueue "root" none false none, mkQueue "root.b" (some 0) true none],
    nodes := [{ id := "n0", cap := [("cpu", 12)], avail := [("cpu", 4)], sched := true }],
    allocs := [mkAlloc "v1" 1 0 [("cpu", 4)] 2, mkAlloc "v2" 1 0 [("cpu", 4)] 4],
    ask := mkAsk 1 [("cpu", 1)] }
example : (quotaSelect [("cpu", 8)] qmWorld.allocs).1.map (·.key) = ["v1", "v2"] := by decide
/-- undisturbed both are marked and booked: preempting of root.b and of root is cpu 8 -/
example : markedKeys (quotaPreemptLate qmWorld [] ["v1", "v2"]) = ["v1", "v2"] ∧
    preemptingOf { qmWorld with allocs := quotaPreemptLate qmWorld [] ["v1", "v2"] } 1 = [("cpu", 8)] ∧
    preemptingOf { qmWorld with allocs := quotaPreemptLate qmWorld [] ["v1", "v2"] } 0 = [("cpu", 8)] := by decide
/-- v2 released after the filtering: skipped - only v1 is marked, only v1 is booked -/
example : quotaMarked (releaseLate ["v2"] qmWorld.allocs) ["v1", "v2"] = ["v1"] ∧
    markedKeys (quotaPreemptLate qmWorld ["v2"] ["v1", "v2"]) = ["v1"] ∧
    preemptingOf { qmWorld with allocs := quotaPreemptLate qmWorld ["v2"] ["v1", "v2"] } 1 = [("cpu", 4)] ∧
    (newlyMarked qmWorld ["v1"] 0).map (·.key) = ["v1"] := by decide

end Yk.C08
