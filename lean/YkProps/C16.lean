/-
  C16 — Configuration reload is atomic and preserves running state.
  Property theorems only. Model: YkModel/Reload.lean (updateSchedulerConfig / updatePartitionDetails / updateQueues /
  applyConf / NewConfiguredQueue / MarkQueueForRemoval / cleanQueues over a queue tree and the pre-order list of the
  configuration's queue entries); lemmas: YkProofs/Reload.lean. `applyAll t conf` is the walk of updateQueues over the
  tree `t`; `applyAll [] conf` is the fresh load (also the dry run); `updateTree` adds the marking of the queues the
  configuration no longer names; `configUpdate` is the RM event (validator verdict as input, checksum short-cut).
  Where the unchanged code violates a clause the full statement is kept as a `def … : Prop`, refuted with a concrete
  witness, and proved under an explicit hypothesis (`…_partial`).
-/
import YkProofs.Reload
import YkProofs.ReloadMark
import YkProofs.ReloadParts
import YkProofs.ReloadPlace
import YkProofs.ReloadFlip
namespace Yk.C16
open Yk Yk.Reload

/-! ### a rejected reload changes nothing -/

/-- The dry run is a sufficient guard: when the fresh load of a (well-formed) configuration list goes through, the
    update walk goes through on EVERY queue tree — none of its error exits (applyConf on an ACL / template / resource
    text, NewConfiguredQueue below a leaf or a draining parent) can be taken once the dry run has passed, so the walk
    never stops half way. -/
theorem dry_run_guards (conf : List QC) (hwf : confWF conf = true) (t0 : Tree) (hfresh : applyAll [] conf = (t0, none)) (t : Tree) :
    ∃ t', applyAll t conf = (t', none) :=
  dryRun_guards conf hwf t0 hfresh t

/-- The full atomicity clause: whatever the cluster and the configuration, an update answered with an error leaves
    the state as it was. -/
def RejectedChangesNothing : Prop :=
  ∀ (s s' : CState) (viaEvent valid : Bool) (text : String) (conf : List PC) (e : CErr),
    (∀ pc ∈ conf, confWF pc.queues = true) → configUpdate s viaEvent valid text conf = (s', some e) → s' = s

/-- Proved for a configuration with ONE partition: validator, dry run and placement rules are the only ways to fail and
    all three come before the first change. -/
theorem rejected_changes_nothing_partial (s s' : CState) (viaEvent valid : Bool) (text : String) (pc : PC) (e : CErr)
    (hwf : confWF pc.queues = true) (h : configUpdate s viaEvent valid text [pc] = (s', some e)) : s' = s :=
  configUpdate_rejected_single s viaEvent valid text pc hwf s' e h

/-- One partition, seen from inside updatePartitionDetails: once the dry run has gone through, an update answered with
    an error has written NOTHING — the partition is what it was: queues, limits, preemption flags, placement rules and the
    node sorting policy (type and resource weights). The only step that can still refuse is the placement rule list
    (UpdateRules), and it comes before updateNodeSortingPolicy and before everything else that writes. -/
theorem rejected_reload_keeps_partition (p p' : Part) (pc : PC) (e : CErr) (hwf : confWF pc.queues = true)
    (pf : Part) (hfresh : pc.fresh = .ok pf) (h : updatePartition p pc = (p', some e)) : p' = p :=
  updatePartition_refused_id p p' pc e hwf pf hfresh h

/-- A rule list UpdateRules refuses (e.g. a rule name that is an identifier and names no rule — the validator checks
    rule names only syntactically, the dry run swallows the placement manager's error): the update is the identity,
    whatever else the configuration changes — for EVERY partition and EVERY configuration (no well-formedness needed). -/
theorem rejected_by_placement_rules_is_identity (p : Part) (pc : PC) (hroot : pc.rootName = "root") (hbad : pc.rulesBad = true) :
    updatePartition p pc = (p, some .rules) := by
  simp [updatePartition, hroot, hbad]

/-- The node sorting policy spelled out, at the level of the RM event: after a (single-partition) update answered with
    an error every partition sorts its nodes with the policy type and the resource weights it had. -/
theorem rejected_reload_keeps_node_sorting_policy (s s' : CState) (viaEvent valid : Bool) (text : String) (pc : PC) (e : CErr)
    (hwf : confWF pc.queues = true) (h : configUpdate s viaEvent valid text [pc] = (s', some e)) (n : String) :
    (s'.cluster.get n).map (fun p => (p.settings.nodeSort, p.settings.weights)) =
      (s.cluster.get n).map (fun p => (p.settings.nodeSort, p.settings.weights)) := by
  rw [configUpdate_rejected_single s viaEvent valid text pc hwf s' e h]

def exTplNone : TplConf := { maxApps := 0, props := [], maxRaw := [], guarRaw := [], max := [], guaranteed := [] }
def exRootC : QC := { path := "root", parent := "", name := "root", isParent := true, max := [], guaranteed := [], maxApps := 0, props := [],
                      tpl := exTplNone, aclBad := false, tplBad := false, resBad := false }
def exLeafC (n : String) (apps : Nat) : QC := { exRootC with path := "root." ++ n, parent := "root", name := n, isParent := false, maxApps := apps }
def exPC (n : String) (qs : List QC) : PC := { name := n, rootName := "root", queues := qs, settings := {}, limits := "", rulesBad := false }
def exFresh (pc : PC) : Part := match pc.fresh with | .ok p => p | .error _ => { tree := [], settings := {}, limits := "" }

/-- two partitions loaded from [root, root.a (maxapplications 2)] and [root, root.x] -/
def exCluster : CState := { cluster := [("d", exFresh (exPC "d" [exRootC, exLeafC "a" 2])), ("o", exFresh (exPC "o" [exRootC, exLeafC "x" 0]))], text := "v1" }
/-- the update: root.a gets maxapplications 7 in partition d; partition o gets a parent queue whose child template the
    loader refuses (the validator lets it through) -/
def exBadUpdate : List PC :=
  [exPC "d" [exRootC, exLeafC "a" 7], exPC "o" [exRootC, { exLeafC "x" 0 with isParent := true, tplBad := true }]]

/-- REFUTED (KNOWN_FINDINGS C16.A1): dry run and update alternate partition by partition, so the first partition is
    already updated when the second one is refused. -/
theorem rejected_changes_nothing_refuted : ¬ RejectedChangesNothing := by
  intro h
  have := h exCluster (configUpdate exCluster true true "v2" exBadUpdate).1 true true "v2" exBadUpdate CErr.tpl (by decide) (by decide)
  revert this
  decide

/-! ### several partitions: what does hold -/

/-- When the loop of updateSchedulerConfig gets through a list of partitions (distinct names), each of them ends exactly
    as the update with that partition ALONE would leave it (and that single update succeeds). -/
theorem partitions_updated_as_single (conf : List PC) (cl cl1 : Cluster) (hd : namesDistinct conf)
    (h : updateCluster cl conf = (cl1, none)) :
    ∀ pc ∈ conf, cl1.get pc.name = (updateCluster cl [pc]).1.get pc.name ∧ (updateCluster cl [pc]).2 = none :=
  updateCluster_each_as_single conf cl cl1 hd h

/-- … and every partition the list does not name is as it was. -/
theorem partitions_not_named_untouched (conf : List PC) (cl : Cluster) (m : String) (h : ∀ pc ∈ conf, ¬ m = pc.name) :
    (updateCluster cl conf).1.get m = cl.get m :=
  updateCluster_get_other conf cl m h

/-- A refused update with several partitions: either nothing changed, or the cluster is EXACTLY what the loop over the
    partitions before the refused one left (by the two theorems above: each of those updated as it would be alone, every
    other partition — the refused one and all after it — untouched), and the configuration in force stays the old one. -/
theorem rejected_update_is_prefix_update (s s' : CState) (viaEvent valid : Bool) (text : String) (conf : List PC) (e : CErr)
    (hwf : ∀ pc ∈ conf, confWF pc.queues = true) (h : configUpdate s viaEvent valid text conf = (s', some e)) :
    s' = s ∨ ∃ pre pc rest, conf = pre ++ pc :: rest ∧ updateCluster s.cluster pre = (s'.cluster, none) ∧
      (stepPartition s'.cluster pc).2 = some e ∧ s'.text = s.text :=
  configUpdate_rejected_multi s s' viaEvent valid text conf e hwf h

/-- The identical configuration (same text, event path): nothing is touched. -/
theorem identical_configuration_is_noop (s : CState) (conf : List PC) : configUpdate s true true s.text conf = (s, none) := by
  simp [configUpdate]

/-- A configuration the validator refuses: nothing is touched. -/
theorem invalid_configuration_is_noop (s : CState) (viaEvent : Bool) (text : String) (conf : List PC) :
    configUpdate s viaEvent false text conf = (s, some .validator) := by
  simp [configUpdate]

/-! ### an accepted reload preserves the running state -/

/-- Whatever the update walk does (also when it stops with an error): every queue that was there is still there with
    the same allocated / pending / preempting totals, applications, reservations and running counters, and a queue
    that was not there starts with none of them. Applications, allocations and nodes are not touched by any step of
    the model: the queue tree is all it writes. -/
theorem accepted_preserves_running_state (t : Tree) (conf : List QC) :
    (∀ x q, t.find x = some q → ∃ q', (updateTree t conf).1.find x = some q' ∧ q'.runtime = q.runtime) ∧
    (∀ x q', (updateTree t conf).1.find x = some q' →
        (∃ q, t.find x = some q ∧ q'.runtime = q.runtime) ∨ (t.find x = none ∧ q'.runtime = Runtime.zero)) :=
  updateTree_ext t conf

/-! ### new limits and properties: the reloaded tree against the fresh load -/

/-- The full refinement clause: after an accepted update every configured queue carries the configuration-derived
    fields (type, state, max, guaranteed, maxapplications, effective properties and what is derived from them, child
    template of a parent — own or inherited) that a fresh load of the same configuration gives it. -/
def ReloadRefinesFresh : Prop :=
  ∀ (t t' tf : Tree) (conf : List QC), confWF conf = true → parentsAgree t conf = true →
    updateTree t conf = (t', none) → applyAll [] conf = (tf, none) →
    ∀ c ∈ conf, ∃ q qf, t'.find c.path = some q ∧ tf.find c.path = some qf ∧ q.cfgView = qf.cfgView

/-- Full strength for every configuration in which no queue below the top queue is NAMED root: inherited properties,
    inherited child templates (InheritParentTemplate) and the maxapplications of the top queue need no hypothesis. -/
theorem reload_refines_fresh (t t' tf : Tree) (conf : List QC) (hwf : confWF conf = true) (hpa : parentsAgree t conf = true)
    (hnr : noNamedRoot conf = true) (hupd : updateTree t conf = (t', none)) (hfresh : applyAll [] conf = (tf, none)) :
    ∀ c ∈ conf, ∃ q qf, t'.find c.path = some q ∧ tf.find c.path = some qf ∧ q.cfgView = qf.cfgView :=
  updateTree_refines_fresh t t' tf conf hwf hupd hfresh (parentsAgree_spec t conf hpa)
    (fun c hc hr hne => absurd (noNamedRoot_spec conf hnr c hc hr) hne)

/-- With a queue named root below the top: proved when that queue holds no resources before the update (applyConf
    skips the resources of a queue NAMED root on both paths: the update keeps what the queue had, the fresh load has none). -/
theorem reload_refines_fresh_partial (t t' tf : Tree) (conf : List QC) (hwf : confWF conf = true) (hpa : parentsAgree t conf = true)
    (hupd : updateTree t conf = (t', none)) (hfresh : applyAll [] conf = (tf, none))
    (hRoot : ∀ c ∈ conf, c.name = "root" → ¬ c.parent = "" → ∀ q, t.find c.path = some q → q.max = none ∧ q.guaranteed = none) :
    ∀ c ∈ conf, ∃ q qf, t'.find c.path = some q ∧ tf.find c.path = some qf ∧ q.cfgView = qf.cfgView :=
  updateTree_refines_fresh t t' tf conf hwf hupd hfresh (parentsAgree_spec t conf hpa) hRoot

/-- the refinement clause at one entry, as a Boolean -/
def agreeAt (t' tf : Tree) (c : QC) : Bool :=
  match t'.find c.path, tf.find c.path with
  | some q, some qf => decide (q.cfgView = qf.cfgView)
  | _, _ => false

theorem agreeAt_of {t' tf : Tree} {c : QC} (h : ∃ q qf, t'.find c.path = some q ∧ tf.find c.path = some qf ∧ q.cfgView = qf.cfgView) :
    agreeAt t' tf c = true := by
  obtain ⟨q, qf, h1, h2, hv⟩ := h
  simp [agreeAt, h1, h2, hv]

/-- root -> e (parent) -> the dynamic leaf root.e.root that took max cpu 5 from a child template; the configuration then
    names it (as a plain leaf) -/
def exNamedRootConf : List QC :=
  [exRootC, { exLeafC "e" 0 with isParent := true }, { exLeafC "e" 0 with path := "root.e.root", parent := "root.e", name := "root" }]
def exNamedRootTree : Tree :=
  (applyAll [] [exRootC, { exLeafC "e" 0 with isParent := true }]).1 ++
    [{ (blank { exLeafC "e" 0 with path := "root.e.root", parent := "root.e", name := "root" }) with leaf := true, managed := false, max := some [("cpu", 5)] }]

/-- REFUTED in general (KNOWN_FINDINGS C16.L2, the half that is left): the managed queue root.e.root keeps max cpu 5
    after the update, a fresh load of the same configuration gives it none (and its configured resources are never applied). -/
theorem reload_refines_fresh_refuted_named_root : ¬ ReloadRefinesFresh := by
  intro h
  have := h exNamedRootTree (updateTree exNamedRootTree exNamedRootConf).1 (applyAll [] exNamedRootConf).1 exNamedRootConf
    (by decide) (by decide) (by decide) (by decide) { exLeafC "e" 0 with path := "root.e.root", parent := "root.e", name := "root" } (by decide)
  have := agreeAt_of this
  revert this
  decide

/-- root with a child template (maxapplications 3) and the managed parent root.p without one -/
def exTplConf : List QC := [{ exRootC with tpl := { exTplNone with maxApps := 3 } }, { exLeafC "p" 0 with isParent := true }]

/-- regression (fixed: C16.T1 / C17.T1): after a reload of the very same configuration root.p still holds the template
    inherited from root, as after the fresh load -/
example : ∀ c ∈ exTplConf, agreeAt (updateTree (applyAll [] exTplConf).1 exTplConf).1 (applyAll [] exTplConf).1 c = true := by decide
example : ((updateTree (applyAll [] exTplConf).1 exTplConf).1.find "root.p").map (·.tpl) =
    some (some { maxApps := 3, props := [], max := none, guaranteed := none }) := by decide
/-- regression (fixed: C16.L1): the top queue takes the new maxapplications (5 -> 9) -/
example : ((updateTree (applyAll [] [{ exRootC with maxApps := 5 }]).1 [{ exRootC with maxApps := 9 }]).1.find "root").map (·.maxApps) = some 9 := by decide

/-- The yardstick itself: a fresh load gives every configured queue what its entry says — type, limits,
    maxapplications, its own properties over the FILTERED effective properties of its parent, the settings derived from
    them (`QC.view`; resources are skipped for a queue NAMED root: KNOWN_FINDINGS C16.L2). Together with the refinement
    theorem: after an accepted update the configured queues carry the new limits and properties, inherited ones included. -/
theorem fresh_load_carries_configuration (conf : List QC) (hwf : confWF conf = true) (tf : Tree) (hfresh : applyAll [] conf = (tf, none)) :
    ∀ c ∈ conf, ∃ q, tf.find c.path = some q ∧ q.cfgView = c.view (tf.parentProps c.parent) q.tpl := by
  intro c hc
  obtain ⟨q, hq, hcar⟩ := fresh_carries conf hwf tf hfresh c hc
  exact ⟨q, hq, carries_view c _ q hcar⟩

/-- Inheritance, key by key: the effective value of a property is the queue's own value, otherwise the parent's
    effective value as filterParentProperty lets it through (priority.policy and priority.offset are never inherited,
    of preemption.policy only `disabled`). -/
theorem inherited_property_value (own parent : Props) (k : String) :
    Props.get? (mergeProps own parent) k =
      (match Props.get? own k with
       | some v => some v
       | none => (Props.get? parent k).map (filterParentProperty k)) :=
  mergeProps_get? own parent k

/-! ### draining, reactivation, dynamic queues -/

/-- After an accepted update every queue the configuration names is there, managed, ACTIVE (a draining queue that
    reappears is reactivated) and of the configured type. -/
theorem configured_queues_active (t t' : Tree) (conf : List QC) (hwf : confWF conf = true) (h : updateTree t conf = (t', none)) :
    ∀ c ∈ conf, ∃ q, t'.find c.path = some q ∧ q.state = .active ∧ q.managed = true ∧ q.leaf = (!c.isParent) :=
  updateTree_configured t t' conf hwf h

/-- … and no managed queue the configuration does not name is active any more (it drains). -/
theorem missing_queues_drain (t t' : Tree) (conf : List QC) (h : updateTree t conf = (t', none)) :
    ∀ x q, t'.find x = some q → q.managed = true → configured conf x = false → ¬ q.state = .active :=
  updateTree_missing t t' conf h

/-! ### the marking walk itself -/

/-- Queue.MarkQueueForRemoval as the code walks (`markRec`: the unvisited children of every visited queue, then DOWN
    through the children of each managed queue, stopping at an unmanaged one) marks exactly the managed queues the
    configuration does not name (`markMissing`) — on every well-formed tree: parents first and present with distinct
    non-empty paths, nothing managed below an unmanaged queue (W0), the configuration closed under parents and naming the top. -/
theorem mark_walk_is_characterisation (t : Tree) (conf : List QC) (hpf : parentsFirst t = true) (hw0 : W0 t)
    (hclosed : ∀ q ∈ t, configured conf q.path = true → q.parent = "" ∨ configured conf q.parent = true)
    (hroot : ∀ q ∈ t, q.parent = "" → configured conf q.path = true) :
    markRec t conf = markMissing t conf :=
  markRec_eq_markMissing t conf hpf hw0 hclosed hroot

/-- Hence the whole update with the walk as performed is the update all the other theorems are about. -/
theorem update_walk_is_characterisation (t : Tree) (conf : List QC) (h : TreeOK t) (hwf : confWF conf = true) (hcp : confPaths conf = true)
    (htop : ∀ q ∈ t, q.parent = "" → configured conf q.path = true) : updateTreeRec t conf = updateTree t conf :=
  updateTreeRec_eq_updateTree t conf h hwf hcp htop

/-- W0 is an invariant, not an assumption: every tree the modelled operations can produce (fresh load, updates — accepted
    or stopped by an error, with either marking —, the queue cleaner, creation of a dynamic queue by a submission, anything
    that leaves path / parent / managed alone) is well-formed; in particular nothing managed sits below an unmanaged queue. -/
theorem w0_reachable (t : Tree) (h : Reachable t) : TreeOK t := reachable_ok t h

theorem w0_invariant (t : Tree) (h : Reachable t) : W0 t := (reachable_ok t h).w0

/-- Depth clause: after an accepted update (walk as performed) EVERY managed queue the configuration does not name — at
    whatever depth of a dropped hierarchy — has taken the Remove event: Active and Draining queues are Draining. -/
theorem dropped_hierarchy_drains_at_every_level (t t' : Tree) (conf : List QC) (h : TreeOK t) (hwf : confWF conf = true)
    (hcp : confPaths conf = true) (htop : ∀ q ∈ t, q.parent = "" → configured conf q.path = true)
    (hupd : updateTreeRec t conf = (t', none)) :
    ∀ x q, t.find x = some q → q.managed = true → configured conf x = false → t'.find x = some q.mark :=
  updateTreeRec_dropped t t' conf h hwf hcp htop hupd

/-- Spelled out: after updateQueues every (managed, not stopped) queue of the OLD tree that the new configuration does not
    name is still there and Draining — nothing stays Active outside the configuration. (Removal is the cleaner's business
    and only happens to empty queues: `removed_only_when_empty`.) -/
theorem old_queue_not_in_configuration_is_draining (t t' : Tree) (conf : List QC) (h : TreeOK t) (hwf : confWF conf = true)
    (hcp : confPaths conf = true) (htop : ∀ q ∈ t, q.parent = "" → configured conf q.path = true)
    (hupd : updateTreeRec t conf = (t', none)) :
    ∀ x q, t.find x = some q → q.managed = true → configured conf x = false → ¬ q.state = .stopped →
      ∃ q', t'.find x = some q' ∧ q'.state = .draining ∧ q'.runtime = q.runtime := by
  intro x q hq hm hc hs
  refine ⟨q.mark, updateTreeRec_dropped t t' conf h hwf hcp htop hupd x q hq hm hc, ?_, rfl⟩
  cases hst : q.state <;> simp_all [RQ.mark, QState.remove]

/-- A parent that becomes a leaf: when the configuration has only a leaf-type entry at path p (the queue was a parent
    with children and is now configured without any, parent flag not set), NO entry of the configuration sits below p, so
    every managed child the old tree has below p takes the Remove event in the recursion of updateQueues into p with the
    empty child list — whether it holds applications or not. -/
theorem children_of_parent_turned_leaf_drain (t t' : Tree) (conf : List QC) (h : TreeOK t) (hwf : confWF conf = true)
    (hcp : confPaths conf = true) (htop : ∀ q ∈ t, q.parent = "" → configured conf q.path = true)
    (hupd : updateTreeRec t conf = (t', none)) (p : String) (hp : ¬ p = "")
    (hleaf : ∀ c ∈ conf, c.path = p → c.isParent = false) :
    ∀ x q, t.find x = some q → q.managed = true → q.parent = p → t'.find x = some q.mark :=
  updateTreeRec_flip_children t t' conf h hwf hcp htop hupd p hp hleaf

/-- A dynamic queue the configuration does not name is left exactly as it was. -/
theorem dynamic_queues_untouched (t t' : Tree) (conf : List QC) (h : updateTree t conf = (t', none)) :
    ∀ x q, t.find x = some q → q.managed = false → configured conf x = false → t'.find x = some q :=
  updateTree_dynamic t t' conf h

/-- A draining leaf takes no new application, nor does a queue that would have to be created below a draining queue
    (placement through the provided rule with open ACLs; C17 owns the rule chain). -/
theorem draining_leaf_refuses (t : Tree) (p : String) (create : Bool) (q : RQ) (h : t.find p = some q) (hd : q.state = .draining) :
    admits t p create = false :=
  admits_draining t p create q h hd

theorem below_draining_refuses (t : Tree) (p : String) (create : Bool) (a : RQ) (h : t.find p = none)
    (hn : nearest t (p.length + 1) (parentPath p) = some a) (hd : a.state = .draining) : admits t p create = false :=
  admits_below_draining t p create a h hn hd

/-! ### a draining queue takes no new application: the whole rule chain

  `Place.place` is AppPlacementManager.PlaceApplication of the placement model (YkModel/Place.lean: every configured
  rule with its parent rules, the recovery rule the manager appends, and the "no rule matched, use root.default" fall-back
  that runs inside the iteration of the LAST rule); `Place.submit` is PartitionContext.AddApplication with that rule chain
  on a tree of the reload model (YkModel/ReloadPlace.lean). -/

/-- Placement never returns a draining queue: for every tree, application, regular-expression oracle and rule list, the
    name PlaceApplication returns does not name a queue that is draining — also when the name comes from the default
    queue fall-back of the last rule. (The one exit before the checks: the recovery queue of a FORCED application.) -/
theorem placement_never_returns_draining_queue (rx : Place.Str → Place.Str → Bool) (t : Place.Tree) (a : Place.App)
    (rules : List Place.Rule) (n : Place.QName) (q : Place.Queue)
    (h : Place.place rx t a rules = .placed n) (hq : Place.getQueue t n = some q) :
    q.draining = false ∨ (n = Place.recoveryQ ∧ a.forced = true) :=
  Place.place_not_draining rx t a rules n q h hq

/-- An application is accepted into queue q only if q is not draining: whatever the queue tree of the reload model and
    the rule list in force, the queue a (not forced) submission is accepted into was not Draining. -/
theorem accepted_only_into_queue_not_draining (t : Tree) (rules : List Place.Rule) (a : Place.App) (q : Place.QName)
    (hnf : a.forced = false) (h : Place.submit t rules a = .accepted q) (r : RQ)
    (hr : t.find? (fun r => decide (Place.splitDot r.path.toList = q)) = some r) : ¬ r.state = .draining :=
  Place.submit_not_draining t rules a q hnf h r hr

/-! ### existing applications keep running: a draining queue is still offered to the scheduler -/

/-- Marking the queues the configuration no longer names (MarkQueueForRemoval) does not change what any parent offers
    to the scheduling cycle (`offered` = the filter of Queue.sortQueues: children that are not STOPPED and have pending
    resources): the applications of a draining queue are scheduled as before. -/
theorem draining_does_not_change_offer (t : Tree) (conf : List QC) (p : String) :
    offered (markMissing t conf) p = offered t p :=
  offered_markMissing t conf p

/-- In particular a draining child with pending resources below a parent-type queue is offered. -/
theorem draining_child_is_offered (t : Tree) (p : String) (q c : RQ) (hq : t.find p = some q) (hl : q.leaf = false) (hc : c ∈ t)
    (hpar : c.parent = p) (hd : c.state = .draining) (hpend : strictlyGreaterThanZero (some c.pending) = true) :
    c.path ∈ offered t p :=
  offered_mem t p q c hq hl hc hpar (by rw [hd]; decide) hpend

/-! ### queues are removed only when empty -/

/-- The cleaner invents and alters nothing … -/
theorem cleaner_only_removes (t : Tree) : ∀ q ∈ clean t, q ∈ t := clean_sub t

/-- … and a path that is gone belonged to a queue without applications that was draining or dynamic, and no child of it
    is left (managed and dynamic queues alike: only once empty). -/
theorem removed_only_when_empty (t : Tree) (x : String) (h1 : (t.find x).isSome) (h2 : (clean t).find x = none) :
    ∃ q ∈ t, q.path = x ∧ q.apps = [] ∧ (q.state = .draining ∨ q.managed = false) ∧ (clean t).hasChild x = false :=
  clean_removed t x h1 h2

/-- Hence a queue that holds applications survives the cleaner. -/
theorem busy_queue_survives (t : Tree) (x : String) (h1 : (t.find x).isSome) (hbusy : ∀ q ∈ t, q.path = x → ¬ q.apps = []) :
    ((clean t).find x).isSome := by
  cases h : (clean t).find x with
  | some _ => rfl
  | none =>
    obtain ⟨q, hq, hp, ha, _⟩ := clean_removed t x h1 h
    exact absurd ha (hbusy q hq hp)

/-! ### non-vacuity -/

/-- root -> a (leaf, app-1 with usage), b (leaf), dyn (dynamic leaf with an application) -/
def exTree : Tree :=
  let t := (applyAll [] [exRootC, exLeafC "a" 2, exLeafC "b" 0]).1
  (t.upd "root.a" (fun q => { q with apps := ["app-1"], allocated := [("cpu", 3)], running := 1 })) ++
    [{ (blank (exLeafC "dyn" 0)) with leaf := true, managed := false, apps := ["app-2"] }]
/-- the new configuration drops root.a, keeps root.b with a property and adds root.c below which root.c.c1 -/
def exConf : List QC :=
  [{ exRootC with props := [("application.sort.policy", "fair"), ("priority.offset", "5")] },
   { exLeafC "b" 4 with max := [("cpu", 10)], props := [("preemption.delay", "10s")] },
   { exLeafC "c" 0 with isParent := true },
   { exLeafC "c" 0 with path := "root.c.c1", parent := "root.c", name := "c1" }]

example : confWF exConf = true := by decide
example : (applyAll [] exConf).2 = none ∧ (updateTree exTree exConf).2 = none := by decide
/-- root.a drains and keeps its application and usage; root.b is active with the new limit, its own and the inherited
    properties (the offset is not inherited); root.c.c1 is new; the dynamic queue is as it was -/
example : ((updateTree exTree exConf).1.find "root.a").map (fun q => (q.state, q.apps, q.allocated)) = some (.draining, ["app-1"], [("cpu", 3)]) := by decide
example : ((updateTree exTree exConf).1.find "root.b").map (fun q => (q.state, q.maxApps, q.set.sort, q.set.preemptDelay)) =
    some (.active, 4, "fair", 10000000000) := by decide
example : ((updateTree exTree exConf).1.find "root.b").map (·.max) = some (some [("cpu", 10)]) ∧
    ((updateTree exTree exConf).1.find "root.b").map (·.set.prioOffset) = some 0 ∧
    ((updateTree exTree exConf).1.find "root").map (·.set.prioOffset) = some 5 := by decide
example : ((updateTree exTree exConf).1.find "root.c.c1").isSome = true ∧ (updateTree exTree exConf).1.find "root.dyn" = exTree.find "root.dyn" := by decide
/-- the refinement clause holds at every entry (no queue named root below the top: `reload_refines_fresh` applies) -/
example : parentsAgree exTree exConf = true ∧ noNamedRoot exConf = true := by decide
example : ∀ c ∈ exConf, agreeAt (updateTree exTree exConf).1 (applyAll [] exConf).1 c = true := by decide
/-- root still offers the draining root.a (pending cpu 2) to the scheduler, as before the update -/
example : offered ((updateTree exTree exConf).1.upd "root.a" (fun q => { q with pending := [("cpu", 2)] })) "root" = ["root.a"] := by decide
/-- the draining queue refuses, the cleaner keeps it while app-1 is there and removes it afterwards; root.a reappears active -/
example : admits (updateTree exTree exConf).1 "root.a" true = false ∧ admits (updateTree exTree exConf).1 "root.c.new" true = true := by decide
example : ((clean (updateTree exTree exConf).1).find "root.a").isSome = true := by decide
example : (clean ((updateTree exTree exConf).1.upd "root.a" (fun q => { q with apps := [] }))).find "root.a" = none := by decide
example : ((updateTree (updateTree exTree exConf).1 [exRootC, exLeafC "a" 2]).1.find "root.a").map (·.state) = some .active := by decide
/-- a hierarchy three levels deep (root.a > root.a.b > root.a.b.c) with a dynamic queue below it is dropped: every managed
    level is Draining after the walk, the dynamic queue is not touched, and the walk agrees with the characterisation -/
def exDeepConf : List QC :=
  [exRootC, { exLeafC "a" 0 with isParent := true },
   { exLeafC "a" 0 with path := "root.a.b", parent := "root.a", name := "b", isParent := true },
   { exLeafC "a" 0 with path := "root.a.b.c", parent := "root.a.b", name := "c" }]
def exDeepTree : Tree :=
  (applyAll [] exDeepConf).1 ++
    [{ (blank { exLeafC "a" 0 with path := "root.a.b.dyn", parent := "root.a.b", name := "dyn" }) with leaf := true, managed := false }]
example : parentsFirst exDeepTree = true ∧ w0 exDeepTree = true ∧ pathParents exDeepTree = true ∧ confPaths exDeepConf = true := by decide
example : ((updateTreeRec exDeepTree [exRootC]).1.map (fun q => (q.path, q.state))) =
    [("root", .active), ("root.a", .draining), ("root.a.b", .draining), ("root.a.b.c", .draining), ("root.a.b.dyn", .active)] := by decide
example : updateTreeRec exDeepTree [exRootC] = updateTree exDeepTree [exRootC] := by decide
/-- a single-partition update that the loader refuses after the validator let it through: answered with an error, nothing changed -/
example : configUpdate exCluster true true "v2" [exPC "d" [exRootC, { exLeafC "a" 7 with aclBad := true }]] = (exCluster, some .acl) := by decide

/-! non-vacuity of the round-4 theorems -/

/-- root -> default (leaf, app-1), b (leaf); the new configuration drops root.default -/
def exDefTree : Tree :=
  (applyAll [] [exRootC, exLeafC "default" 0, exLeafC "b" 0]).1.upd "root.default" (fun q => { q with apps := ["app-1"], running := 1 })
def exDefAfter : Tree := (updateTree exDefTree [exRootC, exLeafC "b" 0]).1
def exAlice : Place.User := { name := "alice".toList, groups := ["dev".toList] }
def exProvided (create : Bool) : Place.Rule := [{ kind := .provided, create := create }]

/-- root.default drains and keeps its application -/
example : (exDefAfter.find "root.default").map (fun q => (q.state, q.apps)) = some (.draining, ["app-1"]) := by decide
/-- before the update: a submission no rule places falls back to root.default (the fall-back is live) -/
example : Place.submit exDefTree [exProvided false] { user := exAlice, queue := "root.nosuch".toList, tags := [] } =
    .accepted [Place.sRoot, Place.sDefault] := by decide
/-- after it: the same submission is refused (the fall-back of the last rule names the draining queue), so is the direct
    submission — qualified or not, with the provided rule alone (the implicit rule list) or with a fixed rule that names
    the draining queue as the last configured rule —; an active leaf still takes applications -/
example : Place.submit exDefAfter [exProvided false] { user := exAlice, queue := "root.nosuch".toList, tags := [] } = .rejected .noRule := by decide
example : Place.submit exDefAfter [] { user := exAlice, queue := "root.default".toList, tags := [] } = .rejected .noRule := by decide
example : Place.submit exDefAfter [exProvided true] { user := exAlice, queue := "default".toList, tags := [] } = .rejected .noRule := by decide
example : Place.submit exDefAfter [exProvided false, [{ kind := .fixed "root.default".toList, create := true }]]
    { user := exAlice, queue := [], tags := [] } = .rejected .noRule := by decide
example : Place.submit exDefAfter [exProvided false] { user := exAlice, queue := "root.b".toList, tags := [] } =
    .accepted [Place.sRoot, ['b']] := by decide
/-- a later rule places what the draining queue refuses -/
example : Place.submit exDefAfter [exProvided false, [{ kind := .fixed "root.b".toList }]]
    { user := exAlice, queue := "root.default".toList, tags := [] } = .accepted [Place.sRoot, ['b']] := by decide

/-- a partition that sorts its nodes `fair` with weights cpu 1; the update says binpacking with cpu 4 and flips the
    preemption flag, drops root.a and adds root.n -/
def exPartS : Part := { (exFresh (exPC "d" [exRootC, exLeafC "a" 2])) with
  settings := { nodeSort := "fair", weights := [("cpu", "1")], preemption := true, ruleNames := ["provided", "recovery"] } }
def exClusterS : CState := { cluster := [("d", exPartS)], text := "v1" }
def exLateUpdate (bad : Bool) : PC :=
  { (exPC "d" [exRootC, exLeafC "n" 0]) with
    rulesBad := bad
    settings := { nodeSort := "binpacking", weights := [("cpu", "4")], preemption := false, ruleNames := ["providedd", "recovery"] } }

/-- refused by UpdateRules after validator and dry run let it through: answered with an error, nothing changed — the node
    sorting policy neither -/
example : configUpdate exClusterS true true "v2" [exLateUpdate true] = (exClusterS, some .rules) := by decide
/-- … while the same update with a rule list that is accepted does write the node sorting policy -/
example : ((configUpdate exClusterS true true "v2" [exLateUpdate false]).1.cluster.get "d").map (fun p => (p.settings.nodeSort, p.settings.weights)) =
    some ("binpacking", [("cpu", "4")]) ∧ (configUpdate exClusterS true true "v2" [exLateUpdate false]).2 = none := by decide

/-- parent -> leaf flip: root -> team (parent) -> team.batch (leaf, app-1), team.adhoc (leaf); the new configuration says
    root -> team (leaf). Both old children are Draining after the walk as the code performs it (batch keeps its
    application), root.team is an active leaf; a submission naming the old child is refused, root.team takes it -/
def exFlipOld : List QC :=
  [exRootC, { exLeafC "team" 0 with isParent := true },
   { exLeafC "team" 0 with path := "root.team.batch", parent := "root.team", name := "batch" },
   { exLeafC "team" 0 with path := "root.team.adhoc", parent := "root.team", name := "adhoc" }]
def exFlipTree : Tree := (applyAll [] exFlipOld).1.upd "root.team.batch" (fun q => { q with apps := ["app-1"], running := 1 })
def exFlipConf : List QC := [exRootC, exLeafC "team" 0]
def exFlipAfter : Tree := (updateTreeRec exFlipTree exFlipConf).1
example : parentsFirst exFlipTree = true ∧ w0 exFlipTree = true ∧ pathParents exFlipTree = true ∧ confWF exFlipConf = true ∧ confPaths exFlipConf = true := by decide
example : exFlipAfter.map (fun q => (q.path, q.leaf, q.state, q.apps)) =
    [("root", false, .active, []), ("root.team", true, .active, []), ("root.team.batch", true, .draining, ["app-1"]),
     ("root.team.adhoc", true, .draining, [])] := by decide
example : Place.submit exFlipAfter [exProvided true] { user := exAlice, queue := "root.team.batch".toList, tags := [] } = .rejected .noRule ∧
    Place.submit exFlipAfter [exProvided true] { user := exAlice, queue := "root.team".toList, tags := [] } = .accepted [Place.sRoot, "team".toList] := by decide

end Yk.C16
