/-
  C04 — Allocation protocol seen by the shim is exactly-once and well-formed.
  `ShimView.step` (YkModel/Shim.lean) is the monitor the driver runs on the SI traffic recorded from the real core;
  a trace is well-formed iff `ShimView.run {} trace` is `some _`.  The theorems say what acceptance by the monitor
  guarantees, for every trace.
-/
import YkProofs.Shim
import YkProofs.ShimReg
namespace Yk.C04
open Yk Yk.ShimView

/-- An allocation key is bound at most once until it is released, and never outstanding and bound at once:
    in every view reached by an accepted trace the bound keys are pairwise distinct, the outstanding keys are
    pairwise distinct, and no key is both. -/
theorem exactly_once (trace : List ShimMsg) (v : ShimView) (h : run {} trace = some v) :
    (v.bound.map (·.1)).Nodup ∧ (v.asks.map (·.1)).Nodup ∧ ∀ k, k ∈ v.asks.map (·.1) → k ∉ v.bound.map (·.1) :=
  shim_exactly_once trace v h

/-- Every new allocation the core announces is for an ask the shim submitted that is still outstanding, whose
    application is accepted and not removed, on a node the shim registered and has not removed, with a key that is not
    bound — or it is the one echo of an allocation the shim itself reported as bound. -/
theorem newAlloc_accepted_iff (v : ShimView) (key app node : String) :
    (v.step (.newAlloc key app node)).isSome = true ↔
      ((key, node) ∈ v.reported ∨
       ((key, app) ∈ v.asks ∧ app ∈ v.apps ∧ node ∈ v.nodes ∧ key ∉ v.bound.map (·.1))) :=
  shim_newAlloc_iff v key app node

/-- Every release the core announces names an allocation still bound or an ask still outstanding; a release that needs
    the shim's confirmation may be repeated (it leaves the allocation bound until the shim confirms). -/
theorem release_accepted_iff (v : ShimView) (key : String) (c : Bool) :
    (v.step (.release key c)).isSome = true ↔ (key ∈ v.asks.map (·.1) ∨ key ∈ v.bound.map (·.1)) :=
  shim_release_iff v key c

theorem release_needing_confirmation_repeatable (v v' : ShimView) (key : String) (h : v.step (.release key true) = some v') :
    (v'.step (.release key true)).isSome = true ∧ v'.bound = v.bound ∧ v'.asks = v.asks :=
  shim_release_repeat v v' key h

/-- Every submitted application and node receives at most one answer per submission: an answer is accepted only
    while a submission is waiting for one, and it consumes exactly that one. -/
theorem one_answer_per_submission (v v' : ShimView) (app : String) :
    (v.step (.appAccepted app) = some v' ∨ v.step (.appRejected app) = some v') →
      app ∈ v.appsSubmitted ∧ v'.appsSubmitted.length + 1 = v.appsSubmitted.length :=
  shim_one_answer v v' app

/-- A rejected item leaves no trace. -/
theorem rejected_leaves_no_trace (v v' : ShimView) (app : String) (h : v.step (.appRejected app) = some v') :
    v'.apps = v.apps ∧ v'.asks = v.asks ∧ v'.bound = v.bound ∧ v'.nodes = v.nodes :=
  shim_rejected_no_trace v v' app h

/-- In every view reached by an accepted trace an application and a node are registered at most once, however often
    they are submitted, answered, removed and submitted again. -/
theorem registered_once (trace : List ShimMsg) (v : ShimView) (h : run {} trace = some v) :
    v.apps.Nodup ∧ v.nodes.Nodup :=
  run_RInv trace {} v ⟨List.nodup_nil, List.nodup_nil⟩ h

/-- An allocation the core announces on its own (not the echo of one the shim reported) is bound, in the view that
    accepts it, to an application and a node that are registered there, and its ask is no longer outstanding. -/
theorem newAlloc_lands_on_registered (v v' : ShimView) (key app node : String)
    (hr : v.reported.contains (key, node) = false) (hs : v.step (.newAlloc key app node) = some v') :
    (key, app, node) ∈ v'.bound ∧ app ∈ v'.apps ∧ node ∈ v'.nodes ∧ key ∉ v'.asks.map (·.1) :=
  newAlloc_lands v v' key app node hr hs

/-- non-vacuity: a well-formed conversation, and three ill-formed ones -/
example : (run {} [.nodeCreate "n1", .nodeAccepted "n1", .appAdd "a", .appAccepted "a", .ask "k1" "a",
                   .newAlloc "k1" "a" "n1", .release "k1" true, .release "k1" true, .releaseKey "k1"]).isSome = true := by decide
example : run {} [.nodeCreate "n1", .nodeAccepted "n1", .appAdd "a", .appAccepted "a", .ask "k1" "a",
                  .newAlloc "k1" "a" "n1", .newAlloc "k1" "a" "n1"] = none := by decide
example : run {} [.nodeCreate "n1", .nodeAccepted "n1", .appAdd "a", .appAccepted "a", .newAlloc "k1" "a" "n1"] = none := by decide
example : run {} [.appAdd "a", .appAccepted "a", .appAccepted "a"] = none := by decide

end Yk.C04
