/-
  C19 — Scheduling order is a deterministic function of the documented sort keys.
  `stableSort` models sort.SliceStable; the comparators are those of sorters.go over the sort keys (float-valued
  keys by rank).  The driver presents every candidate set to the real sort functions in two permutations and checks
  (1) agreement with this model whenever the comparator is a strict weak order on the set, (2) the statement itself:
  every pair the policy distinguishes comes out in the same relative order.
-/
import YkProofs.Sort
import YkProofs.SortChildren
import YkProofs.SortNodes
namespace Yk.C19
open Yk

/-- A stable sort by an irreflexive, transitive comparator returns the candidates (a permutation of any presentation
    of them) with no inversion: no element comes after one it is strictly less than.
    (Irreflexivity is needed: with `lt := fun _ _ => true`, which is transitive, `stableSort lt [a, a] = [a, a]` and
    `sortedBy lt [a, a] = false`.) -/
theorem sorted_permutation {α} (lt : α → α → Bool) (hirr : ∀ a, lt a a = false)
    (htr : ∀ a b c, lt a b = true → lt b c = true → lt a c = true) (l : List α) :
    (stableSort lt l).Perm l ∧ sortedBy lt (stableSort lt l) = true :=
  stableSort_perm_sorted lt hirr htr l

/-- Hence the order does not depend on how the candidates were stored: for two presentations l₁ ~ l₂ of the same
    candidates, every pair (x, y) the policy distinguishes (lt x y, with an asymmetric lt) has x before y in both results —
    there is no position pair i < j with y at i and x at j. -/
theorem permutation_invariant {α} (lt : α → α → Bool) (hirr : ∀ a, lt a a = false)
    (htr : ∀ a b c, lt a b = true → lt b c = true → lt a c = true)
    (l₁ l₂ : List α) (hp : l₁.Perm l₂) :
    (stableSort lt l₁).Perm (stableSort lt l₂) ∧
    (∀ out ∈ [stableSort lt l₁, stableSort lt l₂], ∀ (i j : Nat) (x y : α), i < j → out[i]? = some y → out[j]? = some x → lt x y = false) :=
  stableSort_perm_invariant lt hirr htr l₁ l₂ hp

/-- The comparators over totally ordered keys are strict weak orders (irreflexive, transitive, incomparability
    transitive): queue priority, and the four application policies. -/
theorem comparators_strict_weak_order :
    (∀ l : List QKey, isSWO qLessPrio l = true) ∧
    (∀ l : List AKey, isSWO aLessFairPrio l = true ∧ isSWO aLessPrioFair l = true ∧
                      isSWO aLessSubmitPrio l = true ∧ isSWO aLessPrioSubmit l = true) :=
  swo_comparators

/-- … and so are the two fair queue policies as long as the pending tie-break is not reached (no two candidates agree on
    both priority and share). -/
theorem fair_queue_swo_without_tiebreak (l : List QKey)
    (h : ∀ x ∈ l, ∀ y ∈ l, x.prio = y.prio → x.share = y.share → x = y) (hp : ∀ x ∈ l, pendingGt x x = false) :
    isSWO qLessPrioFair l = true ∧ isSWO qLessFairPrio l = true :=
  swo_fair_no_tie l h hp

/-- The unrestricted statement is false for the fair queue policies: the pending tie-break is a product order, its
    incomparability is not transitive (KNOWN_FINDINGS C19 queues-pending-tiebreak-not-weak-order). -/
theorem pending_tiebreak_not_weak_order :
    ∃ a b c : QKey, isSWO qLessPrioFair [a, b, c] = false ∧
      qLessPrioFair a b = false ∧ qLessPrioFair b a = false ∧ qLessPrioFair b c = false ∧ qLessPrioFair c b = false ∧
      qLessPrioFair c a = true :=
  ⟨⟨"a", 0, 0, [("cpu", 1), ("mem", 0)]⟩, ⟨"b", 0, 0, [("cpu", 0), ("mem", 1)]⟩, ⟨"c", 0, 0, [("cpu", 2), ("mem", 0)]⟩, by decide⟩

/-- Asks of an application: inserting into a list that is in the documented order (priority descending, creation time
    ascending) keeps it in that order and keeps exactly the asks; removing an ask removes exactly one entry. -/
theorem asks_stay_sorted (s : List AskKey) (a : AskKey) (hs : sortedBy askBefore s = true) :
    sortedBy askBefore (askInsert s a) = true ∧ (askInsert s a).Perm (a :: s) :=
  askInsert_sorted s a hs

theorem asks_remove (s : List AskKey) (key : String) (hs : sortedBy askBefore s = true) :
    sortedBy askBefore (askRemove s key) = true ∧ (askRemove s key).length ≤ s.length :=
  askRemove_sorted s key hs

example : (stableSort qLessPrio [⟨"a", 1, 0, []⟩, ⟨"b", 3, 0, []⟩, ⟨"c", 1, 0, []⟩]).map (·.id) = ["b", "a", "c"] := by decide
example : sortedBy askBefore (askInsert (askInsert [] ⟨"k1", 1, 5⟩) ⟨"k2", 2, 9⟩) = true := by decide

/-! ### the children a parent queue offers: `Queue.sortQueues()` with `GetFairMaxResource()` per child

`offeredSorted rootMax anc fair prio cs` models sortQueues of a parent whose ancestors below the root have the own
maxima `anc` (top down, the parent last), over the children `cs` in the order the map iteration presented them: filter
(not stopped, pending > 0), the parallel slice of `child.GetFairMaxResource()`, `fairMaxByQueue`, the stable sort.
`ownLess` is the same comparator written on a child's own keys only. -/

/-- The fair max chain, per resource type: a queue's own max wins for the types it names, every other type comes from
    the value handed down by its parent … -/
theorem fair_max_child_wins (limit own : Res) (hw : Res.wf own = true) (ho : own ≠ []) (hl : limit ≠ []) (k : String) :
    (fairMaxMerge (some limit) (some own)).map (fun r => Res.get? r k) = some ((Res.get? own k).or (Res.get? limit k)) :=
  fairMaxMerge_get? limit own hw ho hl k

/-- … and a queue without own max, or below a parent that hands down nothing (no node registered yet), passes the
    parent's value on unchanged: its own max is ignored. -/
theorem fair_max_passed_on (limit own : ORes) (h : isEmpty own = true ∨ isEmpty limit = true) :
    fairMaxMerge limit own = limit :=
  fairMaxMerge_passes limit own h

/-- Sharing is impossible: the fair max sortQueues hands to the comparator for a candidate `c` is
    `fairMaxOf rootMax anc c.max` — a function of the ancestors' maxima and of `c`'s own max. Hence it is the same
    whatever the siblings are (two arbitrary sibling lists `cs₁`, `cs₂`, any order) and wherever `c` stands. -/
theorem fair_max_is_own (rootMax : ORes) (anc : List ORes) (cs₁ cs₂ : List Child)
    (h₁ : (cs₁.map (·.name)).Nodup) (h₂ : (cs₂.map (·.name)).Nodup) (c : Child)
    (hc₁ : c ∈ offeredCands cs₁) (hc₂ : c ∈ offeredCands cs₂) :
    let pf := fairMaxChain rootMax anc
    fairMaxByQueue (offeredCands cs₁) (fairMaxSlice pf (offeredCands cs₁)) c = fairMaxOf rootMax anc c.max ∧
    fairMaxByQueue (offeredCands cs₂) (fairMaxSlice pf (offeredCands cs₂)) c = fairMaxOf rootMax anc c.max :=
  ⟨fairMaxByQueue_slice _ _ (offeredCands_names_nodup cs₁ h₁) c hc₁, fairMaxByQueue_slice _ _ (offeredCands_names_nodup cs₂ h₂) c hc₂⟩

/-- The statement has teeth: with ONE fair-max object shared by the siblings (every child merging its own max into the
    same accumulator — `fairMaxSliceShared`, not the code) a child is compared using its sibling's maximum. -/
theorem shared_fair_max_is_not_own :
    ∃ (pf : ORes) (a b : Child),
      fairMaxByQueue [a, b] (fairMaxSliceShared pf [a, b]) a ≠ fairMaxMerge pf a.max ∧
      fairMaxByQueue [a, b] (fairMaxSlice pf [a, b]) a = fairMaxMerge pf a.max :=
  ⟨some [("cpu", 100)], ⟨"a", some [("cpu", 10)], none, none, none, 0, false⟩, ⟨"b", some [("cpu", 50)], none, none, none, 0, false⟩,
   by decide, by decide⟩

/-- What is offered: exactly the children that are not stopped and have pending resources strictly greater than zero
    (a draining child is still offered), each once. -/
theorem offered_children (rootMax : ORes) (anc : List ORes) (fair prio : Bool) (cs : List Child) :
    (offeredSorted rootMax anc fair prio cs).Perm (cs.filter (fun c => !c.stopped && strictlyGreaterThanZero c.pending)) :=
  stableSort_perm _ _

/-- Clause C19.children-own-fair-max. For EVERY set of siblings `cs` (distinct names) and two candidates `x`, `y` in it:
    if the comparator on their own keys (allocated, guaranteed, own fair max, pending, priority — `ownLess` mentions
    nothing else) puts `x` first, then `x` stands before `y` in what sortQueues returns. The siblings and the
    presentation order do not appear in the condition. For the fair policies the pending tie-break must be an order
    inside each group of equal priority and share (`PendingTieOrder`; see `pending_tiebreak_not_weak_order`). -/
theorem children_order_own_keys (rootMax : ORes) (anc : List ORes) (fair prio : Bool) (cs : List Child)
    (hnd : (cs.map (·.name)).Nodup) (hp : fair = true → PendingTieOrder rootMax anc (offeredCands cs))
    (x y : Child) (hx : x ∈ offeredCands cs) (hy : y ∈ offeredCands cs) (hxy : ownLess rootMax anc fair prio x y = true) :
    ∃ i j : Nat, i < j ∧ (offeredSorted rootMax anc fair prio cs)[i]? = some x ∧ (offeredSorted rootMax anc fair prio cs)[j]? = some y := by
  obtain ⟨hperm, hs⟩ := offeredSorted_spec rootMax anc fair prio cs hnd hp
  exact before_of_sorted _ _ hs x y (hperm.mem_iff.mpr hx) (hperm.mem_iff.mpr hy) hxy
    ((ownLess_order_on rootMax anc fair prio (offeredCands cs) hp).1 x hx)

/-- Presentation invariance lifted to sortQueues: two presentations of the same children (the map iterated in another
    order) offer the same candidates, and neither result has an inversion with respect to the own-key comparator. -/
theorem children_presentation_invariant (rootMax : ORes) (anc : List ORes) (fair prio : Bool) (cs₁ cs₂ : List Child)
    (hperm : cs₁.Perm cs₂) (hnd : (cs₁.map (·.name)).Nodup) (hp : fair = true → PendingTieOrder rootMax anc (offeredCands cs₁)) :
    (offeredSorted rootMax anc fair prio cs₁).Perm (offeredSorted rootMax anc fair prio cs₂) ∧
    (∀ out ∈ [offeredSorted rootMax anc fair prio cs₁, offeredSorted rootMax anc fair prio cs₂],
      ∀ (i j : Nat) (x y : Child), i < j → out[i]? = some y → out[j]? = some x → ownLess rootMax anc fair prio x y = false) := by
  have hc : (offeredCands cs₁).Perm (offeredCands cs₂) := hperm.filter _
  have hnd₂ : (cs₂.map (·.name)).Nodup := (hperm.map _).nodup_iff.mp hnd
  have hp₂ : fair = true → PendingTieOrder rootMax anc (offeredCands cs₂) := fun h => pendingTieOrder_perm _ _ _ _ hc (hp h)
  obtain ⟨p1, s1⟩ := offeredSorted_spec rootMax anc fair prio cs₁ hnd hp
  obtain ⟨p2, s2⟩ := offeredSorted_spec rootMax anc fair prio cs₂ hnd₂ hp₂
  refine ⟨p1.trans (hc.trans p2.symm), ?_⟩
  intro out hout i j x y hij hy hx
  have hsorted : sortedBy (ownLess rootMax anc fair prio) out = true := by
    rcases List.mem_cons.mp hout with rfl | hout
    · exact s1
    · rcases List.mem_cons.mp hout with rfl | hout
      · exact s2
      · cases hout
  exact pairwise_getElem? ((sortedBy_iff _ out).mp hsorted) i j y x hij hy hx

/-- `ownLess` IS the comparator of the `queues` model (qLessPrioFair / qLessFairPrio / qLessPrio above) applied to the child
    with the rank of its own share: for any ranking that orders the two shares as the exact fractions do. -/
theorem own_keys_are_queue_keys (rootMax : ORes) (anc : List ORes) (rank : Child → Int) (l r : Child)
    (hlt : rank l < rank r ↔ shareLt (ownShare rootMax anc l) (ownShare rootMax anc r) = true)
    (heq : rank l = rank r ↔ shareEq (ownShare rootMax anc l) (ownShare rootMax anc r) = true) :
    ownLess rootMax anc true true l r = qLessPrioFair (toQKey rank l) (toQKey rank r) ∧
    ownLess rootMax anc true false l r = qLessFairPrio (toQKey rank l) (toQKey rank r) ∧
    ownLess rootMax anc false true l r = qLessPrio (toQKey rank l) (toQKey rank r) :=
  ownLess_eq_queue_model rootMax anc rank l r hlt heq

/-- The hypothesis of the two theorems above holds whenever no two candidates agree on both priority and share
    (`fair_queue_swo_without_tiebreak` lifted to children) … -/
theorem pending_tie_order_without_tie (rootMax : ORes) (anc : List ORes) (L : List Child)
    (hirr : ∀ x ∈ L, cPendingGt x x = false)
    (h : ∀ x ∈ L, ∀ y ∈ L, x.prio = y.prio → shareEq (ownShare rootMax anc x) (ownShare rootMax anc y) = true → x = y) :
    PendingTieOrder rootMax anc L :=
  pendingTieOrder_of_no_tie rootMax anc L hirr h

/-- … and is false in general, for children as for the `queues` candidates: three children with equal priority and share
    whose pending vectors are (1,0), (0,1), (2,0) (known finding C19.queues-pending-tiebreak-not-weak-order). -/
theorem children_tiebreak_not_weak_order :
    ∃ a b c : Child, isSWO (ownLess none [] true true) [a, b, c] = false ∧
      ownLess none [] true true a b = false ∧ ownLess none [] true true b a = false ∧
      ownLess none [] true true b c = false ∧ ownLess none [] true true c b = false ∧ ownLess none [] true true c a = true :=
  ⟨⟨"a", none, none, none, some [("cpu", 1), ("mem", 0)], 0, false⟩, ⟨"b", none, none, none, some [("cpu", 0), ("mem", 1)], 0, false⟩,
   ⟨"c", none, none, none, some [("cpu", 2), ("mem", 0)], 0, false⟩, by decide⟩

/-- … and without the fair policy nothing is assumed: by priority only, or (fifo, priority off) not sorted at all — the
    candidates stay as the map iteration presented them. -/
theorem children_unsorted (rootMax : ORes) (anc : List ORes) (cs : List Child) :
    offeredSorted rootMax anc false false cs = offeredCands cs := by
  have : childLess false false (fairMaxByQueue (offeredCands cs) (fairMaxSlice (fairMaxChain rootMax anc) (offeredCands cs))) = (fun _ _ => false) := by
    funext l r; simp [childLess]
  unfold offeredSorted
  simp only [this]
  exact stableSort_false _

-- a parent with max {cpu 100} below a root with {cpu 200, mem 400}: child a (own max cpu 10) uses 5/10, child b (no own max) 20/100
example : (offeredSorted (some [("cpu", 200), ("mem", 400)]) [some [("cpu", 100)]] true false
    [⟨"a", some [("cpu", 10)], none, some [("cpu", 5)], some [("cpu", 1)], 0, false⟩,
     ⟨"b", none, none, some [("cpu", 20)], some [("cpu", 1)], 0, false⟩,
     ⟨"c", none, none, some [("cpu", 1)], some [("cpu", 1)], 0, true⟩,
     ⟨"d", none, none, some [("cpu", 1)], none, 0, false⟩]).map (·.name) = ["b", "a"] := by decide
example : fairMaxOf (some [("cpu", 200), ("mem", 400)]) [some [("cpu", 100)]] (some [("gpu", 2), ("cpu", 10)]) =
    some [("cpu", 10), ("mem", 400), ("gpu", 2)] := by decide

/-! ### the priority key of a queue: `GetCurrentPriority()` = `priorityValueByPolicy(policy, offset, currentPriority)`

`PrioQueue.value` computes the key from the policy, the offset and the priorities of the pending asks of the applications
below (a leaf: the largest askMaxPriority; a parent: the largest value its children report) — exact integers. -/

/-- The key saturates at the int32 bounds and never wraps: under the default policy it is offset + priority when that
    sum is an int32, MaxPriority when the sum is larger, MinPriority when it is smaller. -/
theorem priority_key_saturates (offset prio : Int) (hp : prio ≠ minPrio) :
    (offset + prio > maxPrio → priorityValue false offset prio = maxPrio) ∧
    (offset + prio < minPrio → priorityValue false offset prio = minPrio) ∧
    (minPrio ≤ offset + prio → offset + prio ≤ maxPrio → priorityValue false offset prio = offset + prio) := by
  rw [priorityValue_default offset prio hp]; exact clampPrio_cases _

/-- The key is monotone in offset + priority: a queue whose offset + priority is not smaller never gets a smaller key
    (so the sibling with the highest priority is never sorted behind the others by an overflow). `p₂ ≠ MinPriority`:
    MinPriority means "nothing pending" and is passed through unchanged, whatever the offset. -/
theorem priority_key_monotone (o₁ p₁ o₂ p₂ : Int) (h2 : p₂ ≠ minPrio) (h : o₁ + p₁ ≤ o₂ + p₂) :
    priorityValue false o₁ p₁ ≤ priorityValue false o₂ p₂ :=
  priorityValue_mono o₁ p₁ o₂ p₂ h2 h

/-- Whatever the policy, the key of a queue with int32 offset is an int32. -/
theorem priority_key_in_range (q : PrioQueue) (ho : minPrio ≤ q.offset ∧ q.offset ≤ maxPrio) :
    minPrio ≤ q.value ∧ q.value ≤ maxPrio := by
  unfold PrioQueue.value priorityValue
  split
  next h => have : q.current = minPrio := by simpa using h
            rw [this]; decide
  next h =>
    split
    · exact ho
    · exact clampPrio_bounds _

/-- currentPriority is the maximum it is documented to be: at least MinPriority, at least every item, and one of them
    (or MinPriority when there is nothing pending below). -/
theorem current_priority_is_max (items : List Int) :
    minPrio ≤ maxPriority items ∧ (∀ v ∈ items, v ≤ maxPriority items) ∧ (maxPriority items = minPrio ∨ maxPriority items ∈ items) :=
  maxPriority_foldl items minPrio

/-- The priority of an application is the maximum over its OUTSTANDING asks: an allocated entry (allocated by the
    scheduler, recovered after a restart or placed by the RM), whatever its priority and wherever it stands in the
    history, leaves `askMaxPriority` unchanged — and with it the current priority of the leaf queue and of its parents,
    which are functions of the applications' values only (`PrioLeaf.current`, `PrioQueue.value`). -/
theorem current_priority_ignores_allocated (e₁ e₂ : List (Int × Bool)) (p : Int) (fence : Bool) (offset : Int)
    (others : List (List Int)) :
    askMaxPriority (e₁ ++ [(p, true)] ++ e₂) = askMaxPriority (e₁ ++ e₂) ∧
    (PrioLeaf.mk fence offset (outstanding (e₁ ++ [(p, true)] ++ e₂) :: others)).value =
      (PrioLeaf.mk fence offset (outstanding (e₁ ++ e₂) :: others)).value := by
  refine ⟨askMaxPriority_ignores_allocated e₁ e₂ p, ?_⟩
  have : outstanding (e₁ ++ [(p, true)] ++ e₂) = outstanding (e₁ ++ e₂) := by
    rw [outstanding_append, outstanding_append, outstanding_allocated, outstanding_append]; simp
  rw [this]

-- a recovered allocation of priority 9 next to pending asks of priority 1 and 2: the application's priority is 2
example : askMaxPriority [(9, true), (1, false), (2, false)] = 2 := by decide
example : askMaxPriority [(9, true)] = minPrio := by decide

-- system-critical ask priority below an offset queue: 2000000000 + 1000000000 saturates (a wrapping int32 sum gives -1294967296)
example : (PrioQueue.mk false 1000000000 true [[2000000000, 5], [7]] []).value = 2147483647 := by decide
example : (PrioQueue.mk false (-1000000000) false [] [⟨false, -1000000000, [[-2000000000]]⟩, ⟨true, 5, [[]]⟩]).value = -2147483648 := by decide
example : (PrioQueue.mk false 10 false [] [⟨true, 5, [[1]]⟩, ⟨false, 0, [[3], [2]]⟩]).value = 15 := by decide

/-! ### the score of a node: `ScoreNode` = `absResourceUsage` over `Node.GetResourceUsageShares()`

`nodeScore binpacking weights n` computes the score from the capacity, the allocated and occupied resources of the node
and the (integral) resource weights of the policy, as an exact fraction; `nodeOrder` is the order of the sorted node tree. -/

/-- A usage share is 1 - available/total over the PRUNED available resource: a missing entry means nothing is left, the
    type counts as fully used (share total/total = 1); a present entry v gives (total - v)/total … -/
theorem usage_share_missing_is_fully_used (avail : Res) (k : String) (t : Int) :
    (Res.get? avail k = none → usageShare avail k t = ⟨t, t⟩) ∧
    (∀ v, Res.get? avail k = some v → usageShare avail k t = ⟨t - v, t⟩) :=
  ⟨usageShare_missing avail k t, fun v h => usageShare_present avail k t v h⟩

/-- … so pruning is not observable: an explicit zero entry and a pruned entry give the same share. -/
theorem usage_share_ignores_pruning (avail : Res) (hw : Res.wf avail = true) (k : String) (t : Int) :
    usageShare (prune avail) k t = usageShare avail k t :=
  usageShare_prune avail hw k t

/-- The usage of a node (= its fair score) is the weighted mean of its usage shares, as a rational number:
    (Σ weight_k · (1 - available_k / total_k)) / Σ weight_k over the types of the capacity that have a weight other than
    zero, available_k read from total - allocated - occupied with a missing entry as 0. (Positive totals and weights.) -/
theorem node_usage_is_weighted_mean (weights : Res) (n : NodeKey) (hm : nodeModelled weights n = true)
    (h : ((weightedTypes weights n.cap).map (·.1)).foldl (· + ·) 0 ≠ 0) :
    (nodeUsage weights n).toRat =
      (weightedTypes weights n.cap).foldl
        (fun acc t => acc + (t.1 : Rat) * (1 - (((nodeAvail n).getD t.2.1 : Int) : Rat) / (t.2.2 : Rat))) 0 /
      ((((weightedTypes weights n.cap).map (·.1)).foldl (· + ·) 0 : Int) : Rat) :=
  nodeUsage_toRat weights n hm h

/-- The order of the sorted node tree: a permutation of the nodes without inversion — no node stands behind one with a
    larger score, and among equal scores none stands behind a larger node id: ascending score, ties by node id. -/
theorem node_order_ascending (binpacking : Bool) (weights : Res) (nodes : List NodeKey)
    (hm : ∀ n ∈ nodes, nodeModelled weights n = true) :
    (nodeOrder binpacking weights nodes).Perm nodes ∧
    (∀ (i j : Nat) (a b : NodeKey), i < j → (nodeOrder binpacking weights nodes)[i]? = some a →
      (nodeOrder binpacking weights nodes)[j]? = some b →
      shareLt (nodeScore binpacking weights b) (nodeScore binpacking weights a) = false ∧
      (shareEq (nodeScore binpacking weights b) (nodeScore binpacking weights a) = true → ¬ b.id < a.id)) := by
  obtain ⟨hi, ht⟩ := nodeBefore_order_on binpacking weights nodes hm
  have hs := stableSort_sorted_on (nodeBefore binpacking weights) nodes hi ht
  refine ⟨stableSort_perm _ _, ?_⟩
  intro i j a b hij ha hb
  have := pairwise_getElem? ((sortedBy_iff _ _).mp hs) i j a b hij ha hb
  have hn : ¬ (nodeBefore binpacking weights b a = true) := by rw [this]; simp
  rw [nodeBefore_iff] at hn
  constructor
  · cases h : shareLt (nodeScore binpacking weights b) (nodeScore binpacking weights a) with
    | false => rfl
    | true => exact absurd (Or.inl h) hn
  · intro he hlt; exact hn (Or.inr ⟨he, hlt⟩)

/-- Fair sorts ascending in the usage; binpacking (score 1 - usage) descending in it. -/
theorem node_order_fair_binpacking (weights : Res) (a b : NodeKey) :
    nodeScore false weights a = nodeUsage weights a ∧
    shareLt (nodeScore true weights a) (nodeScore true weights b) = shareLt (nodeUsage weights b) (nodeUsage weights a) :=
  ⟨by simp [nodeScore], binpacking_score_lt weights a b⟩

-- n1 has its vcores exhausted (no available entry): usage (10/10 + 5/20)/2 = 5/8; n2 is half used on both: 1/2
example : nodeAvail ⟨"n1", [("vcore", 10), ("memory", 20)], [("vcore", 10), ("memory", 5)], []⟩ = [("memory", 15)] := by decide
example : (nodeOrder false [("vcore", 1), ("memory", 1)]
    [⟨"n1", [("vcore", 10), ("memory", 20)], [("vcore", 10), ("memory", 5)], []⟩,
     ⟨"n2", [("vcore", 10), ("memory", 20)], [("vcore", 5)], [("memory", 10)]⟩]).map (·.id) = ["n2", "n1"] := by decide
example : (nodeOrder true [("vcore", 1), ("memory", 1)]
    [⟨"n2", [("vcore", 10), ("memory", 20)], [("vcore", 5)], [("memory", 10)]⟩,
     ⟨"n1", [("vcore", 10), ("memory", 20)], [("vcore", 10), ("memory", 5)], []⟩]).map (·.id) = ["n1", "n2"] := by decide

end Yk.C19
