/-
  C19 — Scheduling order is a deterministic function of the documented sort keys.
  `stableSort` models sort.SliceStable; the comparators are those of sorters.go over the sort keys (float-valued
  keys by rank).  The driver presents every candidate set to the real sort functions in two permutations and checks
  (1) agreement with this model whenever the comparator is a strict weak order on the set, (2) the statement itself:
  every pair the policy distinguishes comes out in the same relative order.
-/
import YkProofs.Sort
namespace Yk.C19
open Yk

/-- A stable sort by an irreflexive, transitive comparator returns the candidates (a permutation of any presentation
    of them) with no inversion: no element comes after one it is strictly less than.
    (Irreflexivity is needed: with `lt := fun _ _ => true`, which is transitive, `stableSort lt [a, a] = [a, a]` and
    `sortedBy lt [a, a] = false`.) -/
theorem sorted_permutation {α} (lt : α → α → Bool) (hirr : ∀ a, lt a a = false)
    (htr : ∀ a b c, lt a b = true → lt b c = true → lt a c = true) (l : List α) :
    (stableSort lt l).Perm l ∧ sortedBy lt (stableSort lt l) = true :=
  stableSort_perm_sorted lt hirr htr l

/-- Hence the order does not depend on how the candidates were stored: for two presentations l₁ ~ l₂ of the same
    candidates, every pair (x, y) the policy distinguishes (lt x y, with an asymmetric lt) has x before y in both results —
    there is no position pair i < j with y at i and x at j. -/
theorem permutation_invariant {α} (lt : α → α → Bool) (hirr : ∀ a, lt a a = false)
    (htr : ∀ a b c, lt a b = true → lt b c = true → lt a c = true)
    (l₁ l₂ : List α) (hp : l₁.Perm l₂) :
    (stableSort lt l₁).Perm (stableSort lt l₂) ∧
    (∀ out ∈ [stableSort lt l₁, stableSort lt l₂], ∀ (i j : Nat) (x y : α), i < j → out[i]? = some y → out[j]? = some x → lt x y = false) :=
  stableSort_perm_invariant lt hirr htr l₁ l₂ hp

/-- The comparators over totally ordered keys are strict weak orders (irreflexive, transitive, incomparability
    transitive): queue priority, and the four application policies. -/
theorem comparators_strict_weak_order :
    (∀ l : List QKey, isSWO qLessPrio l = true) ∧
    (∀ l : List AKey, isSWO aLessFairPrio l = true ∧ isSWO aLessPrioFair l = true ∧
                      isSWO aLessSubmitPrio l = true ∧ isSWO aLessPrioSubmit l = true) :=
  swo_comparators

/-- … and so are the two fair queue policies as long as the pending tie-break is not reached (no two candidates agree on
    both priority and share). -/
theorem fair_queue_swo_without_tiebreak (l : List QKey)
    (h : ∀ x ∈ l, ∀ y ∈ l, x.prio = y.prio → x.share = y.share → x = y) (hp : ∀ x ∈ l, pendingGt x x = false) :
    isSWO qLessPrioFair l = true ∧ isSWO qLessFairPrio l = true :=
  swo_fair_no_tie l h hp

/-- The unrestricted statement is false for the fair queue policies: the pending tie-break is a product order, its
    incomparability is not transitive (KNOWN_FINDINGS C19 queues-pending-tiebreak-not-weak-order). -/
theorem pending_tiebreak_not_weak_order :
    ∃ a b c : QKey, isSWO qLessPrioFair [a, b, c] = false ∧
      qLessPrioFair a b = false ∧ qLessPrioFair b a = false ∧ qLessPrioFair b c = false ∧ qLessPrioFair c b = false ∧
      qLessPrioFair c a = true :=
  ⟨⟨"a", 0, 0, [("cpu", 1), ("mem", 0)]⟩, ⟨"b", 0, 0, [("cpu", 0), ("mem", 1)]⟩, ⟨"c", 0, 0, [("cpu", 2), ("mem", 0)]⟩, by decide⟩

/-- Asks of an application: inserting into a list that is in the documented order (priority descending, creation time
    ascending) keeps it in that order and keeps exactly the asks; removing an ask removes exactly one entry. -/
theorem asks_stay_sorted (s : List AskKey) (a : AskKey) (hs : sortedBy askBefore s = true) :
    sortedBy askBefore (askInsert s a) = true ∧ (askInsert s a).Perm (a :: s) :=
  askInsert_sorted s a hs

theorem asks_remove (s : List AskKey) (key : String) (hs : sortedBy askBefore s = true) :
    sortedBy askBefore (askRemove s key) = true ∧ (askRemove s key).length ≤ s.length :=
  askRemove_sorted s key hs

example : (stableSort qLessPrio [⟨"a", 1, 0, []⟩, ⟨"b", 3, 0, []⟩, ⟨"c", 1, 0, []⟩]).map (·.id) = ["b", "a", "c"] := by decide
example : sortedBy askBefore (askInsert (askInsert [] ⟨"k1", 1, 5⟩) ⟨"k2", 2, 9⟩) = true := by decide

end Yk.C19
