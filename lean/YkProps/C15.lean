/-
  C15 — configuration validation is sound: what it accepts is well-formed (and, where validation covers it, loadable).

  `Yk.Conf.validate` (YkModel/Conf.lean) mirrors configs.Validate statement by statement on the tree that the YAML
  decoder produces; the correspondence run ties it to the real code (same verdict, same error class, same rewritten
  tree on every generated document, under re-ordered mappings).  The theorems below hold for ALL configuration trees:
  any depth, any sparse resource maps (quantities with units), any limit lists, any rule chains.  They are proved by
  structural induction over the tree (YkProofs/Conf*.lean).  `queuesOf p` lists every queue of a validated partition
  together with its ancestors, nearest first; `qty m t` is the quantity a resource map of the configuration gives to
  the type `t` (none if the type is not mentioned).

  Where the unchanged code does NOT establish a rule of the property, the refutation is stated next to the theorem with
  a concrete accepted configuration (`decide`), and the driver reports exactly that class (KNOWN_FINDINGS.txt).
-/
import YkProofs.ConfMain
import YkProofs.ConfOrder
import YkProofs.ConfRules
import YkProofs.ConfPerm
namespace Yk.C15
open Yk Yk.Res Yk.Conf

variable {ps ps' : List Part}

/-- Every partition of an accepted configuration has exactly one top level queue: it is called root (in any case), is a
    parent and has no resources ("single root without limits"). -/
theorem accepted_single_root (h : validate ps = .ok ps') : ∀ p ∈ ps', okSingleRoot p = true := by
  intro p' hp'
  obtain ⟨p, _, root, ha⟩ := validate_ok h p' hp'
  exact accepted_singleRoot ha

/-- Queue names are valid (1 to 64 characters of `[a-zA-Z0-9_:#/@-]`) and unique among siblings when compared in lower case. -/
theorem accepted_names (h : validate ps = .ok ps') : ∀ p ∈ ps', ∀ e ∈ queuesOf p,
    (∀ c ∈ e.2.qs, validQueueName c.d.name = true) ∧ distinctL (e.2.qs.map (fun c => toLower c.d.name)) = true := by
  intro p' hp' e he
  obtain ⟨p, _, root, ha⟩ := validate_ok h p' hp'
  rw [queuesOf_accepted ha] at he
  have := (accepted_facts ha e he).loc.names
  simpa [okNames, List.all_eq_true] using this

/-- The maximum of a queue is within the maximum of EVERY ancestor on every type both define — also across levels that
    do not define the type (the effective maximum is what the validator hands down). -/
theorem accepted_max_within_ancestors (h : validate ps = .ok ps') : ∀ p ∈ ps', ∀ e ∈ queuesOf p,
    ∀ a ∈ e.1, ∀ t x v, qty e.2.d.m t = some x → qty a.m t = some v → x ≤ v := by
  intro p' hp' e he
  obtain ⟨p, _, root, ha⟩ := validate_ok h p' hp'
  rw [queuesOf_accepted ha] at he
  exact (accepted_facts ha e he).res.q1

/-- Guaranteed is within the queue's own maximum and within the maximum of every ancestor. -/
theorem accepted_guaranteed_within_max (h : validate ps = .ok ps') : ∀ p ∈ ps', ∀ e ∈ queuesOf p,
    ∀ a ∈ e.2.d :: e.1, ∀ t x v, qty e.2.d.g t = some x → qty a.m t = some v → x ≤ v := by
  intro p' hp' e he a ha' t x v hx hv
  obtain ⟨p, _, root, ha⟩ := validate_ok h p' hp'
  rw [queuesOf_accepted ha] at he
  cases ha' with
  | head => exact (accepted_facts ha e he).res.q2 t x v hx hv
  | tail _ ha' => exact (accepted_facts ha e he).gAnc a ha' t x v hx hv

/-- The children's guaranteed quantities add up to at most the parent's guaranteed, on every type the parent's guaranteed
    defines — as long as the parent's quantity is below MaxInt64 (the implementation adds with saturation). -/
theorem accepted_children_guaranteed_sum (h : validate ps = .ok ps') : ∀ p ∈ ps', ∀ e ∈ queuesOf p,
    ∀ t v, qty e.2.d.g t = some v → v < maxI → sumGuaranteed e.2.qs t ≤ v := by
  intro p' hp' e he t v hv hlt
  obtain ⟨p, _, root, ha⟩ := validate_ok h p' hp'
  rw [queuesOf_accepted ha] at he
  have := (accepted_facts ha e he).res.q3 t v hv
  omega

/-- … and to at most the maximum of the parent and of every ancestor (same proviso). -/
theorem accepted_children_sum_within_max (h : validate ps = .ok ps') : ∀ p ∈ ps', ∀ e ∈ queuesOf p,
    ∀ a ∈ e.2.d :: e.1, ∀ t v, qty a.m t = some v → v < maxI → sumGuaranteed e.2.qs t ≤ v := by
  intro p' hp' e he a ha' t v hv hlt
  obtain ⟨p, _, root, ha⟩ := validate_ok h p' hp'
  rw [queuesOf_accepted ha] at he
  have := (accepted_facts ha e he).res.q4 a ha' t v hv
  omega

/-- Max-applications is non-increasing downwards: below a queue that sets it, every queue sets it and not to more. -/
theorem accepted_max_applications (h : validate ps = .ok ps') : ∀ p ∈ ps', ∀ e ∈ queuesOf p,
    ∀ a ∈ e.1, a.maxApps ≠ 0 → e.2.d.maxApps ≠ 0 ∧ e.2.d.maxApps ≤ a.maxApps := by
  intro p' hp' e he
  obtain ⟨p, _, root, ha⟩ := validate_ok h p' hp'
  rw [queuesOf_accepted ha] at he
  exact (accepted_facts ha e he).apps

/-- A user/group limit is within the maximum of its queue (for every queue not NAMED root) and its application count
    within the count of the queue and of every ancestor that sets one. -/
theorem accepted_limit_within_queue (h : validate ps = .ok ps') : ∀ p ∈ ps', ∀ e ∈ queuesOf p, ∀ l ∈ e.2.d.limits,
    (e.2.d.name ≠ "root" → ∀ t x v, qty l.maxRes t = some x → qty e.2.d.m t = some v → x ≤ v) ∧
    (∀ a ∈ e.2.d :: e.1, a.maxApps ≠ 0 → l.maxApps ≤ a.maxApps) := by
  intro p' hp' e he l hl
  obtain ⟨p, _, root, ha⟩ := validate_ok h p' hp'
  rw [queuesOf_accepted ha] at he
  have hf := accepted_facts ha e he
  refine ⟨(hf.loc.lim l hl).2.1, ?_⟩
  intro a ha' hne
  cases ha' with
  | head => exact (hf.loc.lim l hl).1 hne
  | tail _ ha' =>
    obtain ⟨h1, h2⟩ := hf.apps a ha' hne
    have := (hf.loc.lim l hl).1 h1
    omega

/-- A limit for a user (`g = false`) or group (`g = true`) is within EVERY entry of the same name on EVERY ancestor, on the
    resource types both define; a name that no ancestor mentions is within every wildcard entry of every ancestor. -/
theorem accepted_limit_within_ancestor_limits (h : validate ps = .ok ps') (g : Bool) : ∀ p ∈ ps', ∀ e ∈ queuesOf p,
    ∀ l ∈ e.2.d.limits, ∀ n ∈ namesOf g l,
      (∀ a ∈ e.1, ∀ x ∈ limitsFor g a n, ∀ t lv xv, qty l.maxRes t = some lv → qty x.maxRes t = some xv → lv ≤ xv) ∧
      (n ≠ "*" → namedAbove g e.1 n = false →
        ∀ a ∈ e.1, ∀ x ∈ limitsFor g a "*", ∀ t lv xv, qty l.maxRes t = some lv → qty x.maxRes t = some xv → lv ≤ xv) := by
  intro p' hp' e he l hl n hn
  obtain ⟨p, _, root, ha⟩ := validate_ok h p' hp'
  rw [queuesOf_accepted ha] at he
  have hf := (accepted_facts ha e he).limRes
  have hL : LimAncOK resDom resOK g e := by cases g; exact hf.1; exact hf.2
  have conv : ∀ (x : Limit) (t : String) (lv xv : Int),
      (∀ vl vx, resDom.val l = .ok vl → resDom.val x = .ok vx → resOK.W vl vx) →
      qty l.maxRes t = some lv → qty x.maxRes t = some xv → lv ≤ xv := by
    intro x t lv xv hW h1 h2
    unfold qty at h1 h2
    split at h1
    · rename_i rl hrl
      split at h2
      · rename_i rx hrx; exact hW rl rx hrl hrx t lv xv h1 h2
      · cases h2
    · cases h1
  refine ⟨?_, ?_⟩
  · intro a ha' x hx t lv xv h1 h2
    exact conv x t lv xv (fun vl vx hvl hvx => (hL l hl vl hvl n hn).1 a ha' x hx vx hvx) h1 h2
  · intro hs hna a ha' x hx t lv xv h1 h2
    refine conv x t lv xv (fun vl vx hvl hvx => ?_) h1 h2
    rcases (hL l hl vl hvl n hn).2 with h3 | h3 | h3
    · exact absurd h3 hs
    · rw [hna] at h3; cases h3
    · exact h3 a ha' x hx vx hvx

/-- The skip-level reading of the clause above, spelled out: `a` is ANY ancestor of the queue — `near` are the levels between
    the queue and `a`, `far` the levels above `a`, both arbitrary (any number of levels, with or without entries for the name,
    naming whatever resource types they like).  A limit of an accepted configuration does not exceed, in any resource type,
    an entry of the same user (`g = false`) or group (`g = true`) on `a`: a level in between that names other types does not
    hide the types of `a`. -/
theorem accepted_limit_within_skip_level_limits (h : validate ps = .ok ps') (g : Bool) : ∀ p ∈ ps', ∀ e ∈ queuesOf p,
    ∀ l ∈ e.2.d.limits, ∀ n ∈ namesOf g l, ∀ (near far : List QD) (a : QD), e.1 = near ++ a :: far →
      ∀ x ∈ limitsFor g a n, ∀ t lv xv, qty l.maxRes t = some lv → qty x.maxRes t = some xv → lv ≤ xv := by
  intro p hp e he l hl n hn near far a hsplit x hx t lv xv h1 h2
  refine (accepted_limit_within_ancestor_limits h g p hp e he l hl n hn).1 a ?_ x hx t lv xv h1 h2
  rw [hsplit]; simp

/-- Why: the limit the model validator hands down to the children for a name with an inherited entry (`resDom.comb`, the
    mirror of `resources.ComponentWiseMin(limitMaxResources, existingMax)` in checkLimitResource) is, per resource type, the
    smaller value where the entry of the queue and the inherited limit both name the type, and the value of the one that
    names it otherwise: the types that only the ancestors name are handed down unchanged. -/
theorem limit_handed_down_is_componentwise_min {m mx : Option SMap} {lim ex : Yk.Res}
    (hl : parseConf m = .ok lim) (hx : parseConf mx = .ok ex) (t : String) :
    (resDom.comb lim ex).get? t =
      (match lim.get? t, ex.get? t with
       | some a, some b => some (min a b)
       | some a, none => some a
       | none, some b => some b
       | none, none => none) ∧
    (lim.get? t = none → (resDom.comb lim ex).get? t = ex.get? t) :=
  ⟨resDom_comb_get? lim ex (parseConf_wf hl) (parseConf_wf hx) t,
   resDom_comb_keeps_inherited_types lim ex (parseConf_wf hl) (parseConf_wf hx) t⟩

/-- The same for the application counts: where an ancestor's entry sets a count, the limit sets one too, not a larger one. -/
theorem accepted_limit_within_ancestor_applications (h : validate ps = .ok ps') (g : Bool) : ∀ p ∈ ps', ∀ e ∈ queuesOf p,
    ∀ l ∈ e.2.d.limits, ∀ n ∈ namesOf g l,
      (∀ a ∈ e.1, ∀ x ∈ limitsFor g a n, x.maxApps ≠ 0 → l.maxApps ≠ 0 ∧ l.maxApps ≤ x.maxApps) ∧
      (n ≠ "*" → namedAbove g e.1 n = false →
        ∀ a ∈ e.1, ∀ x ∈ limitsFor g a "*", x.maxApps ≠ 0 → l.maxApps ≠ 0 ∧ l.maxApps ≤ x.maxApps) := by
  intro p' hp' e he l hl n hn
  obtain ⟨p, _, root, ha⟩ := validate_ok h p' hp'
  rw [queuesOf_accepted ha] at he
  have hf := (accepted_facts ha e he).limApps
  have hL : LimAncOK appsDom appsOK g e := by cases g; exact hf.1; exact hf.2
  refine ⟨?_, ?_⟩
  · intro a ha' x hx hne
    rcases (hL l hl l.maxApps rfl n hn).1 a ha' x hx x.maxApps rfl with h1 | h1
    · exact absurd h1 hne
    · exact h1
  · intro hs hna a ha' x hx hne
    rcases (hL l hl l.maxApps rfl n hn).2 with h3 | h3 | h3
    · exact absurd h3 hs
    · rw [hna] at h3; cases h3
    · rcases h3 a ha' x hx x.maxApps rfl with h1 | h1
      · exact absurd h1 hne
      · exact h1

/-- All of the above in the form the check evaluates on the tree returned by the real validator: every executable
    clause of `clauseList` (ids C15.S2 … C15.L4g, YkModel/ConfSpec.lean) is true for every queue. -/
theorem accepted_clauses (h : validate ps = .ok ps') : ∀ p ∈ ps', ∀ e ∈ queuesOf p, ∀ c ∈ clauseList true, c.2 e = true := by
  intro p' hp' e he
  obtain ⟨p, _, root, ha⟩ := validate_ok h p' hp'
  rw [queuesOf_accepted ha] at he
  exact accepted_entries ha e he

/-! ### loading -/

/-- What validation does guarantee about loading: every resource map it parsed parses again when the queues are built
    ("parsing failed … this should not happen") and when the limits reach the user/group manager.  A new partition can
    only fail for the name of the root queue, an ACL string or a child template; an update of a running partition
    additionally for a placement rule. -/
theorem accepted_load_failures (h : validate ps = .ok ps') : ∀ p ∈ ps',
    (loadNew p = .ok () ∨ loadNew p = .error .rootName ∨ loadNew p = .error .acl ∨ loadNew p = .error .tmplParse) ∧
    (loadRunning p = .ok () ∨ loadRunning p = .error .rootName ∨ loadRunning p = .error .acl ∨
      loadRunning p = .error .tmplParse ∨ ∃ e, loadRules p.rules = .error e ∧ loadRunning p = .error e) := by
  intro p' hp'
  obtain ⟨p, _, root, ha⟩ := validate_ok h p' hp'
  exact Conf.accepted_load_failures ha

/-- `accepted_loads_partial`: an accepted partition loads into a new scheduler — and into a running one if its rules can
    be built — under the hypotheses `LoadHyp`: the root queue is written "root", every ACL has at most one space, the
    child template of every queue that is not a leaf parses. -/
theorem accepted_loads_partial (h : validate ps = .ok ps') : ∀ p ∈ ps', ∀ root, rootOf p = some root → LoadHyp root →
    loadNew p = .ok () ∧ (loadRules p.rules = .ok () → loadRunning p = .ok ()) := by
  intro p' hp' root hr hl
  obtain ⟨p, _, root', ha⟩ := validate_ok h p' hp'
  have : root' = root := by rw [accepted_root ha] at hr; injection hr
  subst this
  exact accepted_loads ha hl

/-! ### placement rules -/

/-- `rules_resolvable_partial`: a single `fixed` rule that validation accepted returns, at run time, nothing or a queue
    name that leads to a leaf or to something that can be created below a parent — provided the spellings agree: the
    rule name and its value are in lower case, the queue names of the tree are in lower case and every queue with
    children carries the parent flag (`CanonTree`), the root is written "root", the first component of the static
    path is root, the value is qualified for the validator exactly when it is for the rule (`rooty` is not), and the path is
    not the recovery queue.  Each hypothesis excludes one refuted class (`rules_resolvable_refuted`). -/
theorem rules_resolvable_partial (h : validate ps = .ok ps') : ∀ p ∈ ps', ∀ root, rootOf p = some root →
    root.d.name = "root" → CanonTree root →
    ∀ d, [d] ∈ p.rules → d.name = "fixed" → toLower d.value = d.value → toLower (staticPathOf d) = staticPathOf d →
    (∃ rest, splitDots (staticPathOf d) = "root" :: rest) →
    qualifiedRT d.value = hasPrefix d.value "root" → staticPathOf d ≠ "root.@recovery@" → okStaticRule root [d] = true := by
  intro p' hp' root hr hroot hc d hd hn hv hp hin hq hrec
  obtain ⟨p, _, root', ha⟩ := validate_ok h p' hp'
  have : root' = root := by rw [accepted_root ha] at hr; injection hr
  subst this
  have hrules : p'.rules = ({ p with name := partName p } : Part).rules := by rw [ha.out]
  rw [hrules] at hd
  exact single_fixed_rule_resolves ha d hd hn hv hp hroot hc hin hq hrec

/-! ### map order -/

/-- `NewResourceFromConf` ranges over a Go map: for any two orders of the entries of a map (unique keys) it gives the same
    error, or resources with the same quantity for every type … -/
theorem resources_independent_of_map_order {m m' : SMap} (hp : m.Perm m') (hn : (m.map Prod.fst).Nodup) :
    match parseConf (some m), parseConf (some m') with
    | .ok r, .ok r' => ∀ k, r.get? k = r'.get? k
    | .error e, .error e' => e = e'
    | _, _ => False := parseConf_perm hp hn

/-- … and the comparison the validator makes between two resources only depends on these quantities. -/
theorem comparison_independent_of_map_order {p p' c c' : Res} (hc : wf c = true) (hc' : wf c' = true)
    (hp : ∀ k, p.get? k = p'.get? k) (hcc : ∀ k, c.get? k = c'.get? k) :
    fitInMaxUndef (some p) (some c) = fitInMaxUndef (some p') (some c') := fitInMaxUndef_ext hc hc' hp hcc

/-- `validate_independent_of_map_order`.  `PsRel ps ps'`: the two configurations are the same except for the ORDER OF THE
    ENTRIES of their map-typed fields — max and guaranteed of every queue, `maxresources` of every limit (of queues and of
    the partition), the resources and properties of every child template, the properties of every queue, the resource
    weights; queues, limits and rules are lists and keep their order.  `PsKeys ps`: the walked maps have unique keys (they
    are Go maps).  Then validation gives the same verdict: both are rejected with the SAME ERROR CLASS, or both are accepted
    and the rewritten configurations are again the same up to the order of map entries.  No side condition on the error
    class is needed: every map walk of the validator (NewResourceFromConf, the weights loop) has a single error class,
    and reflect.DeepEqual compares maps as maps. -/
theorem validate_independent_of_map_order {ps ps' : List Part} (h : PsRel ps ps') (k : PsKeys ps) :
    match validate ps, validate ps' with
    | .ok o, .ok o' => PsRel o o'
    | .error e, .error e' => e = e'
    | _, _ => False := by
  have := validate_congr h k
  cases h1 : validate ps <;> cases h2 : validate ps' <;> rw [h1, h2] at this <;> simp only [VRel] at this <;> simp only <;> exact this

/-- The verdict and the error class, spelled out. -/
theorem validate_verdict_independent_of_map_order {ps ps' : List Part} (h : PsRel ps ps') (k : PsKeys ps) :
    ((∃ o, validate ps = .ok o) ↔ ∃ o', validate ps' = .ok o') ∧ ∀ e, validate ps = .error e ↔ validate ps' = .error e := by
  have := validate_independent_of_map_order h k
  cases h1 : validate ps <;> cases h2 : validate ps' <;> rw [h1, h2] at this <;> simp only at this
  · subst this; simp
  · simp

/-- The same for every family of permutations: `σ` re-orders each string map (it may treat every map differently), `τ` the
    resource weights; `mapPart σ τ` applies them to every map-typed field of a partition. -/
theorem validate_under_every_permutation {ps : List Part} (σ : SMap → SMap) (τ : List (String × Bool) → List (String × Bool))
    (hσ : ∀ m, (σ m).Perm m) (hτ : ∀ w, (τ w).Perm w) (k : PsKeys ps) :
    ((∃ o, validate ps = .ok o) ↔ ∃ o', validate (ps.map (mapPart σ τ)) = .ok o') ∧
    ∀ e, validate ps = .error e ↔ validate (ps.map (mapPart σ τ)) = .error e :=
  validate_verdict_independent_of_map_order (PsRel.map hσ hτ ps) k

/-- Below the error class, the MESSAGE of a rejected resource map is that of the first offending entry of the walk
    (`firstParseErr`): it does not depend on the order when at most one entry of the map offends … -/
theorem message_independent_of_map_order_one_offender {m m' : SMap} (hp : m.Perm m')
    (h1 : ∀ q1 ∈ m, ∀ q2 ∈ m, errOf q1 ≠ none → errOf q2 ≠ none → q1 = q2) : firstParseErr m = firstParseErr m' :=
  firstParseErr_perm hp h1

/-- … and does depend on it with two: "invalid quantity" or "invalid quantity: overflow" for the same map.  (The real
    validator behaves the same — Go's map iteration picks the entry; an observation, the verdict and the class are the
    same; corpus/C15/conf-map-order.jsonl.) -/
example : firstParseErr [("memory", "abc"), ("pods", "8Ei")] = some .invalid ∧
    firstParseErr [("pods", "8Ei"), ("memory", "abc")] = some .overflow ∧
    parseConf (some [("memory", "abc"), ("pods", "8Ei")]) = .error .parse ∧
    parseConf (some [("pods", "8Ei"), ("memory", "abc")]) = .error .parse := by decide

/-! ### witnesses: non-vacuity, and what the unchanged validator lets through -/

def qd (name : String) : QD :=
  { name := name, parent := false, g := none, m := none, maxApps := 0, props := none,
    adminACL := "", submitACL := "", tmpl := emptyTmpl, limits := [] }
def part (root : QC) (rules : List Rule := []) : Part :=
  { name := "default", queues := some [root], rules := rules, limits := [], nsp := "", weights := [] }
def lim (users : List String) (res : Option SMap) (apps : Nat) : Limit :=
  { label := "l", users := some users, groups := none, maxRes := res, maxApps := apps }
def rule (name value : String) (create : Bool) : RuleD :=
  { name := name, create := create, value := value, ftype := "", fusers := [], fgroups := [], ure := true, gre := true }

/-- the configuration is accepted and the validated partitions satisfy `f` -/
def acceptedAnd (ps : List Part) (f : List Part → Bool) : Bool :=
  match validate ps with
  | .ok ps' => f ps'
  | .error _ => false

theorem acceptedAnd_spec {ps : List Part} {f : List Part → Bool} (h : acceptedAnd ps f = true) :
    ∃ ps', validate ps = .ok ps' ∧ f ps' = true := by
  unfold acceptedAnd at h
  split at h
  · rename_i ps' hv; exact ⟨ps', hv, h⟩
  · cases h

/-- the configuration is rejected with this error -/
def rejectedWith (ps : List Part) (e : VErr) : Bool :=
  match validate ps with
  | .ok _ => false
  | .error e' => decide (e' = e)

/-- some queue of some partition violates the clause -/
def someQueueViolates (c : Entry → Bool) (ps' : List Part) : Bool := ps'.any (fun p => (queuesOf p).any (fun e => !c e))

/-- some placement rule of some partition does not resolve -/
def someRuleUnresolved (ps' : List Part) : Bool :=
  ps'.any (fun p => match rootOf p with | some r => p.rules.any (fun rl => !okStaticRule r rl) | none => false)

/-- a hierarchy with units, sparse maps, limits and a rule that is accepted, loads, and satisfies the strict clauses too -/
def good : List Part :=
  [part (.mk { qd "root" with parent := true, submitACL := "*", limits := [lim ["*"] (some [("memory", "64Gi")]) 20] }
      [.mk { qd "prod" with parent := true, m := some [("memory", "32Gi"), ("vcore", "16")], g := some [("memory", "8Gi")], maxApps := 10 }
         [.mk { qd "etl" with m := some [("memory", "16Gi")], g := some [("memory", "4Gi"), ("vcore", "2500m")], maxApps := 5,
                               limits := [lim ["alice"] (some [("memory", "8 Gi")]) 3] } [],
          .mk { qd "adhoc" with g := some [("memory", "4096Mi")], maxApps := 10 } []],
       .mk (qd "dev") []])
    (rules := [[rule "fixed" "root.prod.etl" false]])]

set_option maxRecDepth 100000 in
example : acceptedAnd good (fun ps' => decide (loadNewAll ps' = .ok ()) && decide (loadRunningAll ["default"] ps' = .ok ()) &&
    !someRuleUnresolved ps' && ps'.all okSingleRoot &&
    (clauseList true ++ strictList).all (fun c => !someQueueViolates c.2 ps')) = true := by decide

/-! limit ladders: the same user / group / wildcard on three and four levels that name different resource types -/

def glim (groups : List String) (res : Option SMap) (apps : Nat) : Limit :=
  { label := "l", users := none, groups := some groups, maxRes := res, maxApps := apps }

/-- root → parent → leaf, one limit entry each -/
def ladder3 (top mid leaf : Limit) : List Part :=
  [part (.mk { qd "root" with parent := true, submitACL := "*", limits := [top] }
    [.mk { qd "parent" with parent := true, limits := [mid] } [.mk { qd "leaf" with limits := [leaf] } []]])]

/-- root → a → b → leaf -/
def ladder4 (top a b leaf : Limit) : List Part :=
  [part (.mk { qd "root" with parent := true, submitACL := "*", limits := [top] }
    [.mk { qd "a" with parent := true, limits := [a] }
      [.mk { qd "b" with parent := true, limits := [b] } [.mk { qd "leaf" with limits := [leaf] } []]]])]

def allClauses (ps' : List Part) : Bool := (clauseList true).all (fun c => !someQueueViolates c.2 ps')

/-- group dev: memory 100 on root, vcore 5 on root.parent, memory 500 on root.parent.leaf is REJECTED (500 > 100 two levels
    up, through a level that does not name memory); with memory 100 (or 99 and the vcore of the parent) on the leaf, or
    when no level above names memory, it is accepted and satisfies every clause. -/
example : rejectedWith (ladder3 (glim ["dev"] (some [("memory", "100")]) 0) (glim ["dev"] (some [("vcore", "5")]) 0)
    (glim ["dev"] (some [("memory", "500")]) 0)) .glimResGtParent = true := by decide
set_option maxRecDepth 100000 in
example : acceptedAnd (ladder3 (glim ["dev"] (some [("memory", "100")]) 0) (glim ["dev"] (some [("vcore", "5")]) 0)
    (glim ["dev"] (some [("memory", "100")]) 0)) allClauses = true := by decide
set_option maxRecDepth 100000 in
example : acceptedAnd (ladder3 (glim ["dev"] (some [("memory", "100")]) 0) (glim ["dev"] (some [("vcore", "5")]) 0)
    (glim ["dev"] (some [("memory", "99"), ("vcore", "5000m")]) 0)) allClauses = true := by decide
set_option maxRecDepth 100000 in
example : acceptedAnd (ladder3 (glim ["dev"] (some [("vcore", "8")]) 0) (glim ["dev"] (some [("vcore", "5")]) 0)
    (glim ["dev"] (some [("memory", "500")]) 0)) allClauses = true := by decide
/-- the same shape for a named user, the user wildcard, the group wildcard (next to a named group), and a named user that
    meets only wildcard entries above -/
example : rejectedWith (ladder3 (lim ["alice"] (some [("memory", "100")]) 0) (lim ["alice"] (some [("vcore", "5")]) 0)
    (lim ["alice"] (some [("memory", "500")]) 0)) .ulimResGtParent = true := by decide
example : rejectedWith (ladder3 (lim ["*"] (some [("memory", "100")]) 0) (lim ["*"] (some [("vcore", "5")]) 0)
    (lim ["*"] (some [("memory", "500")]) 0)) .ulimResGtParent = true := by decide
example : rejectedWith (ladder3 (glim ["ops", "*"] (some [("memory", "100")]) 0) (glim ["ops", "*"] (some [("vcore", "5")]) 0)
    (glim ["ops", "*"] (some [("memory", "500")]) 0)) .glimResGtParent = true := by decide
example : rejectedWith (ladder3 (lim ["*"] (some [("memory", "100")]) 0) (lim ["*"] (some [("vcore", "5")]) 0)
    (lim ["alice"] (some [("memory", "500")]) 0)) .ulimResGtWildcard = true := by decide
/-- four levels: two levels in between name other types (vcore; a third type) -/
example : rejectedWith (ladder4 (glim ["dev"] (some [("memory", "1Gi")]) 0) (glim ["dev"] (some [("vcore", "5")]) 0)
    (glim ["dev"] (some [("nvidia.com/gpu", "2")]) 0) (glim ["dev"] (some [("memory", "2Gi")]) 0)) .glimResGtParent = true := by decide
example : rejectedWith (ladder4 (lim ["alice"] (some [("memory", "1Gi")]) 0) (lim ["alice"] (some [("vcore", "5")]) 0)
    (lim ["alice"] (some [("memory", "512Mi")]) 0) (lim ["alice"] (some [("vcore", "6")]) 0)) .ulimResGtParent = true := by decide
set_option maxRecDepth 100000 in
example : acceptedAnd (ladder4 (glim ["dev"] (some [("memory", "1Gi"), ("vcore", "8")]) 0) (glim ["dev"] (some [("vcore", "5")]) 0)
    (glim ["dev"] (some [("nvidia.com/gpu", "2"), ("memory", "512Mi")]) 0)
    (glim ["dev"] (some [("memory", "512Mi"), ("vcore", "5000m"), ("nvidia.com/gpu", "2")]) 0)) allClauses = true := by decide

/-- the hypotheses of `validate_independent_of_map_order` are satisfiable: the maps of `good` have unique keys, and `good`
    with every map reversed is accepted like `good` -/
theorem dkeys_of {d : QD} (h1 : ((d.g.getD []).map Prod.fst).Nodup) (h2 : ((d.m.getD []).map Prod.fst).Nodup)
    (h3 : d.limits.all (fun l => decide (((l.maxRes.getD []).map Prod.fst).Nodup)) = true) : DKeys d :=
  ⟨h1, h2, fun l hl => by have := List.all_eq_true.mp h3 l hl; unfold KeysOK; simpa using this⟩

set_option maxRecDepth 100000 in
example : PsKeys good := by
  intro p hp
  simp only [good, List.mem_singleton] at hp
  subst hp
  refine ⟨?_, ?_⟩
  · intro qs hqs
    simp only [part] at hqs
    injection hqs with hqs
    subst hqs
    simp only [QLKeys, QKeys, and_true]
    refine ⟨?_, ⟨?_, ?_, ?_⟩, ?_⟩ <;> exact dkeys_of (by decide) (by decide) (by decide)
  · intro l hl; simp [part] at hl

set_option maxRecDepth 100000 in
example : acceptedAnd (good.map (mapPart List.reverse List.reverse)) (fun ps' => ps'.all okSingleRoot) = true := by decide

/-- the hypotheses of `rules_resolvable_partial` are satisfiable: the tree and the rule of `good` -/
def goodRoot : QC := match good with | [p] => (rootOf p).getD (.mk (qd "x") []) | _ => .mk (qd "x") []

set_option maxRecDepth 100000 in
example : CanonTree goodRoot ∧ toLower (staticPathOf (rule "fixed" "root.prod.etl" false)) = staticPathOf (rule "fixed" "root.prod.etl" false) ∧
    splitDots (staticPathOf (rule "fixed" "root.prod.etl" false)) = ["root", "prod", "etl"] ∧
    qualifiedRT "root.prod.etl" = hasPrefix "root.prod.etl" "root" := by
  refine ⟨?_, by decide, by decide, by decide⟩
  simp only [goodRoot, good, part, rootOf, Option.getD_some, CanonTree, CanonList]
  decide

set_option maxRecDepth 100000 in
/-- rejected examples: child maximum above the parent's through a level that does not define the type; children's guaranteed above the parent's -/
example : rejectedWith [part (.mk (qd "root") [.mk { qd "a" with m := some [("memory", "10")] } [.mk (qd "b") [.mk { qd "c" with m := some [("memory", "11")] } []]]])]
      .maxGtParent = true ∧
    rejectedWith [part (.mk (qd "root") [.mk { qd "a" with g := some [("vcore", "1")] }
        [.mk { qd "b" with g := some [("vcore", "600m")] } [], .mk { qd "c" with g := some [("vcore", "600m")] } []]])]
      .sumGGtParentG = true := by decide

/-- "at least 1 partition must be defined" (documented on `Validate`) is REFUTED: the configuration without partitions —
    also what an empty document decodes to — is accepted (class C15.S0). -/
theorem no_partition_accepted : validate [] = .ok [] := rfl

/-! `accepted_loads : validate c = .ok c' → load c' succeeds` is REFUTED for the unchanged code.  Each of the following
    configurations is accepted by validation and fails to load (classes C15.LD.* / C15.RL.* of the check). -/

def wAcl : List Part := [part (.mk { qd "root" with submitACL := "*" } [.mk { qd "a" with submitACL := " bob grp" } []])]
def wTemplate : List Part := [part (.mk { qd "root" with submitACL := "*" }
  [.mk { qd "a" with parent := true, tmpl := { emptyTmpl with m := some [("memory", "abc")] } } []])]
def wRootName : List Part := [part (.mk { qd "Root" with submitACL := "*" } [])]
def wRule (r : Rule) : List Part := [part (.mk { qd "root" with submitACL := "*" } []) (rules := [r])]

set_option maxRecDepth 100000 in
theorem accepted_loads_refuted :
    (∃ ps', validate wAcl = .ok ps' ∧ loadNewAll ps' = .error .acl) ∧
    (∃ ps', validate wTemplate = .ok ps' ∧ loadNewAll ps' = .error .tmplParse) ∧
    (∃ ps', validate wRootName = .ok ps' ∧ loadNewAll ps' = .error .rootName) := by
  refine ⟨?_, ?_, ?_⟩
  · obtain ⟨ps', h1, h2⟩ := acceptedAnd_spec (ps := wAcl) (f := fun ps' => decide (loadNewAll ps' = .error .acl)) (by decide)
    exact ⟨ps', h1, by simpa using h2⟩
  · obtain ⟨ps', h1, h2⟩ := acceptedAnd_spec (ps := wTemplate) (f := fun ps' => decide (loadNewAll ps' = .error .tmplParse)) (by decide)
    exact ⟨ps', h1, by simpa using h2⟩
  · obtain ⟨ps', h1, h2⟩ := acceptedAnd_spec (ps := wRootName) (f := fun ps' => decide (loadNewAll ps' = .error .rootName)) (by decide)
    exact ⟨ps', h1, by simpa using h2⟩

/-- the rule chains validation accepts although placement.newRule refuses them: a new partition then runs without any
    rule (`rulesActive = false`) and an update of a running partition fails -/
def unloadableRules : List (Rule × LErr) :=
  [([rule "foo" "" false], .ruleUnknown), ([rule "recovery" "" false], .ruleRecovery), ([rule "fixed" "" true], .fixedEmpty),
   ([rule "fixed" "root.a b" true], .fixedQueueName), ([rule "fixed" "root.a" true, rule "user" "" false], .fixedQualifiedParent),
   ([rule "tag" "" true], .tagEmpty)]

set_option maxRecDepth 100000 in
theorem accepted_rules_refuted : ∀ w ∈ unloadableRules, ∃ ps', validate (wRule w.1) = .ok ps' ∧
    loadRunningAll ["default"] ps' = .error w.2 ∧ ps'.all rulesActive = false := by
  have : unloadableRules.all (fun w => acceptedAnd (wRule w.1) (fun ps' =>
      decide (loadRunningAll ["default"] ps' = .error w.2) && !ps'.all rulesActive)) = true := by decide
  intro w hw
  obtain ⟨ps', h1, h2⟩ := acceptedAnd_spec (List.all_eq_true.mp this w hw)
  simp only [Bool.and_eq_true, decide_eq_true_eq, Bool.not_eq_true'] at h2
  exact ⟨ps', h1, h2.1, h2.2⟩

/-! "placement rules resolvable" is REFUTED for static rules in six ways (classes C15.P1.*): a value that only starts with
    "root" (validation reads `rooty` as a qualified path outside the tree, the rule places into root.rooty — here an
    existing parent queue), the recovery queue (a no-match for applications that are not forced), a rule name / a value /
    a queue name written in another case, a queue with children that is not flagged as parent. -/

def unresolved : List (List Part) :=
  [ [part (.mk { qd "root" with submitACL := "*" } [.mk { qd "rooty" with parent := true } [.mk (qd "b") []]]) (rules := [[rule "fixed" "rooty" true]])],
    wRule [rule "fixed" "@recovery@" true],
    [part (.mk { qd "root" with submitACL := "*" } [.mk { qd "a" with parent := true } [.mk (qd "b") []]]) (rules := [[rule "Fixed" "root.a" false]])],
    wRule [rule "fixed" "ROOT" true],
    [part (.mk { qd "root" with submitACL := "*" } [.mk (qd "Prod") []]) (rules := [[rule "fixed" "root.prod.x" true]])],
    [part (.mk { qd "root" with submitACL := "*" } [.mk (qd "a") [.mk (qd "b") []]]) (rules := [[rule "fixed" "root.a" false]])] ]

set_option maxRecDepth 100000 in
theorem rules_resolvable_refuted : ∀ w ∈ unresolved, ∃ ps', validate w = .ok ps' ∧ someRuleUnresolved ps' = true := by
  have : unresolved.all (fun w => acceptedAnd w someRuleUnresolved) = true := by decide
  intro w hw
  exact acceptedAnd_spec (List.all_eq_true.mp this w hw)

/-! The stricter readings of the limit and sum rules are REFUTED (classes C15.L1e, C15.L1root, C15.L3w, C15.L4w, C15.Q3sat). -/

def wLimitAboveAncestorMax : List Part := [part (.mk (qd "root")
  [.mk { qd "a" with m := some [("memory", "5")] } [.mk { qd "b" with limits := [lim ["alice"] (some [("memory", "10")]) 0] } []]])]
def wLimitInQueueNamedRoot : List Part := [part (.mk (qd "root")
  [.mk { qd "root" with m := some [("memory", "5")], limits := [lim ["alice"] (some [("memory", "10")]) 0] } []])]
def wWildcardShadowed : List Part := [part (.mk { qd "root" with limits := [lim ["carol"] none 9] }
  [.mk { qd "a" with limits := [lim ["*"] (some [("memory", "7")]) 3] }
     [.mk { qd "b" with limits := [lim ["carol"] (some [("memory", "10")]) 5] } []]])]
def wSaturatedSum : List Part := [part (.mk (qd "root")
  [.mk { qd "a" with g := some [("memory", "9223372036854775807")] }
     [.mk { qd "b" with g := some [("memory", "7E")] } [], .mk { qd "c" with g := some [("memory", "7E")] } []]])]

set_option maxRecDepth 100000 in
theorem strict_readings_refuted :
    (∃ ps', validate wLimitAboveAncestorMax = .ok ps' ∧ someQueueViolates strictLimitWithinAncestorMax ps' = true) ∧
    (∃ ps', validate wLimitInQueueNamedRoot = .ok ps' ∧ someQueueViolates okLimitWithinQueueMax ps' = true) ∧
    (∃ ps', validate wWildcardShadowed = .ok ps' ∧ someQueueViolates (strictLimitWildcard resWithin false) ps' = true ∧
        someQueueViolates (strictLimitWildcard appsWithin false) ps' = true) ∧
    (∃ ps', validate wSaturatedSum = .ok ps' ∧ someQueueViolates (okChildrenSumG false) ps' = true) := by
  refine ⟨acceptedAnd_spec (by decide), acceptedAnd_spec (by decide), ?_, acceptedAnd_spec (by decide)⟩
  obtain ⟨ps', h1, h2⟩ := acceptedAnd_spec (ps := wWildcardShadowed)
    (f := fun ps' => someQueueViolates (strictLimitWildcard resWithin false) ps' && someQueueViolates (strictLimitWildcard appsWithin false) ps') (by decide)
  simp only [Bool.and_eq_true] at h2
  exact ⟨ps', h1, h2.1, h2.2⟩

end Yk.C15
