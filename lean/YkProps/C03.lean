/-
  C03 — Resource accounting is conserved across application, queue and node.
  `Core` is the observable state of the scheduler core; `Core.ask`, `Core.schedAlloc`, `Core.releaseKey`,
  `Core.nodeCreate`, `Core.foreignAdd/Remove` (YkModel/CoreOps.lean) update every ledger in the order partition.go /
  application.go / queue.go / node.go do.  The driver steps this model from the state dumped from the real core and
  compares all ledgers after every operation, and evaluates the clauses below (as `Core.conserved`) on every dumped state.
  `_partial`: the theorems cover the operations of the stepped model; the remaining operations (placeholder swap,
  application and node removal, preemption, timers) are covered by the monitor on the implementation only.
-/
import YkProofs.Core
namespace Yk.C03
open Yk Yk.Core Yk.Res

/-- The books agree (I1–I5 of CoreState, pointwise form): an application's totals are the sums over its allocations and
    unallocated asks, every queue's allocated/pending is the sum over the live applications at or below it (so a leaf is
    the sum of its applications and a parent the sum of its children), every node's allocated is the sum of its
    non-foreign allocations and available = capacity − allocated − occupied.  (`Books` is defined in YkProofs/Core.lean.) -/
theorem books_preserved_ask (s : Core) (app key : String) (res : Res) (ph : Bool) (tg reqNode : String)
    (hw : CoreWF s) (hr : wf res = true) (hb : Books s) : Books (s.ask app key res ph tg reqNode).1 :=
  books_ask s app key res ph tg reqNode hw hr hb

theorem books_preserved_schedAlloc (s s' : Core) (app key node : String)
    (hw : CoreWF s) (hb : Books s) (h : s.schedAlloc app key node = some s') : Books s' :=
  books_schedAlloc s s' app key node hw hb h

theorem books_preserved_releaseKey (s : Core) (app key : String)
    (hw : CoreWF s) (hb : Books s) (hrel : ReleaseOK s app key) : Books (s.releaseKey app key) :=
  books_releaseKey s app key hw hb hrel

theorem books_preserved_node_ops (s : Core) (id : String) (cap : Res) (b : Bool) (hw : CoreWF s) (hc : wf cap = true) (hb : Books s) :
    Books (s.nodeCreate id cap b) ∧ Books (s.nodeUpdate id cap) ∧ Books (s.nodeSchedulable id b) :=
  books_node_ops s id cap b hw hc hb

theorem books_preserved_foreign (s : Core) (key node : String) (res : Res) (hw : CoreWF s) (hr : wf res = true) (hb : Books s) :
    Books (s.foreignAdd key node res) ∧ Books (s.foreignRemove key) :=
  books_foreign s key node res hw hr hb

/-- When everything has been released and removed the books return exactly to zero: with no live application and no
    non-foreign allocation on any node, every queue's allocated and pending and every node's allocated are zero. -/
theorem drained_is_zero (s : Core) (hb : Books s) (ha : s.liveApps = [])
    (hn : ∀ n ∈ s.nodes, ∀ a ∈ n.allocs, a.foreign = true) :
    (∀ q ∈ s.queues, ∀ k, q.allocated.getD k = 0 ∧ q.pending.getD k = 0) ∧ (∀ n ∈ s.nodes, ∀ k, n.allocated.getD k = 0) :=
  books_drained s hb ha hn

/-- The executable clauses the driver evaluates on the implementation's dumped state imply the books (for well-formed
    dumps): `Core.conserved s = none ∧ Core.nodeLedger s = none → Books s`.  `QueueTreeWF` (YkProofs/Core.lean) states
    the shape of the queue hierarchy that turns "leaf = Σ its applications, parent = Σ its children" (I4, I5) into
    "every queue = Σ the applications at or below it". -/
theorem conserved_exec_sound (s : Core) (hw : CoreWF s) (ht : QueueTreeWF s) (h1 : s.conserved = none) (h2 : s.nodeLedger = none) :
    Books s :=
  books_of_exec s hw ht h1 h2

end Yk.C03
