/-
  C03 — Resource accounting is conserved across application, queue and node.
  `Core` is the observable state of the scheduler core; `Core.ask`, `Core.schedAlloc`, `Core.releaseKey`,
  `Core.nodeCreate`, `Core.foreignAdd/Remove` (YkModel/CoreOps.lean) update every ledger in the order partition.go /
  application.go / queue.go / node.go do.  The driver steps this model from the state dumped from the real core and
  compares all ledgers after every operation, and evaluates the clauses below (as `Core.conserved`) on every dumped state.
  YkModel/CoreOps2.lean adds the gang / removal / timer operations (placeholder swap start and confirmation, releases of
  every termination type, release of a whole application, application removal, node removal, placeholder and state
  timers, application add, cleanup); `books_reachable` covers whole histories of all of them.
  `_partial`: operations still outside the stepped model (reservations made or cancelled in a scheduling cycle,
  preemption decisions, RM-placed allocations, updates of foreign allocations, configuration reload) are covered by the
  monitor on the implementation only.
-/
import YkProofs.Core
import YkProofs.Core2Run
import YkProofs.Core2Example
import YkProofs.Core2Example2
namespace Yk.C03
open Yk Yk.Core Yk.Res

/-- The books agree (I1–I5 of CoreState, pointwise form): an application's totals are the sums over its allocations and
    unallocated asks, every queue's allocated/pending is the sum over the live applications at or below it (so a leaf is
    the sum of its applications and a parent the sum of its children), every node's allocated is the sum of its
    non-foreign allocations and available = capacity − allocated − occupied.  (`Books` is defined in YkProofs/Core.lean.) -/
theorem books_preserved_ask (s : Core) (app key : String) (res : Res) (ph : Bool) (tg reqNode : String)
    (hw : CoreWF s) (hr : wf res = true) (hb : Books s) : Books (s.ask app key res ph tg reqNode).1 :=
  books_ask s app key res ph tg reqNode hw hr hb

theorem books_preserved_schedAlloc (s s' : Core) (app key node : String)
    (hw : CoreWF s) (hb : Books s) (h : s.schedAlloc app key node = some s') : Books s' :=
  books_schedAlloc s s' app key node hw hb h

theorem books_preserved_releaseKey (s : Core) (app key : String)
    (hw : CoreWF s) (hb : Books s) (hrel : ReleaseOK s app key) : Books (s.releaseKey app key) :=
  books_releaseKey s app key hw hb hrel

theorem books_preserved_node_ops (s : Core) (id : String) (cap : Res) (b : Bool) (hw : CoreWF s) (hc : wf cap = true) (hb : Books s) :
    Books (s.nodeCreate id cap b) ∧ Books (s.nodeUpdate id cap) ∧ Books (s.nodeSchedulable id b) :=
  books_node_ops s id cap b hw hc hb

theorem books_preserved_foreign (s : Core) (key node : String) (res : Res) (hw : CoreWF s) (hr : wf res = true) (hb : Books s) :
    Books (s.foreignAdd key node res) ∧ Books (s.foreignRemove key) :=
  books_foreign s key node res hw hr hb

/-- When everything has been released and removed the books return exactly to zero: with no live application and no
    non-foreign allocation on any node, every queue's allocated and pending and every node's allocated are zero. -/
theorem drained_is_zero (s : Core) (hb : Books s) (ha : s.liveApps = [])
    (hn : ∀ n ∈ s.nodes, ∀ a ∈ n.allocs, a.foreign = true) :
    (∀ q ∈ s.queues, ∀ k, q.allocated.getD k = 0 ∧ q.pending.getD k = 0) ∧ (∀ n ∈ s.nodes, ∀ k, n.allocated.getD k = 0) :=
  books_drained s hb ha hn

/-- The executable clauses the driver evaluates on the implementation's dumped state imply the books (for well-formed
    dumps): `Core.conserved s = none ∧ Core.nodeLedger s = none → Books s`.  `QueueTreeWF` (YkProofs/Core.lean) states
    the shape of the queue hierarchy that turns "leaf = Σ its applications, parent = Σ its children" (I4, I5) into
    "every queue = Σ the applications at or below it". -/
theorem conserved_exec_sound (s : Core) (hw : CoreWF s) (ht : QueueTreeWF s) (h1 : s.conserved = none) (h2 : s.nodeLedger = none) :
    Books s :=
  books_of_exec s hw ht h1 h2

/-! ### the gang / removal / timer operations (YkModel/CoreOps2.lean)

Each keeps the books AND the well-formedness of the state.  The side conditions are explicit: `ReleaseOK` / `AppOnNodes`
(the allocations the operation releases are listed by their nodes with the size the application books: the
implementation skips the node and queue update otherwise), `SwapOK` (additionally: the linked real allocation is a proper
replacement and not larger than the placeholder — the guard of tryPlaceholderAllocate), `FreshOnNode` / `FreshQueuesOK`
(a key is new in a Go map / a new queue has nobody below it), `NodeRemoveOK` (a swap confirmed by the node removal is a
proper swap; a reversed replacement does not saturate int64). -/

/-- partition.removeAllocation for a key, every termination type (STOPPED_BY_RM, UNKNOWN, TIMEOUT,
    PREEMPTED_BY_SCHEDULER; PLACEHOLDER_REPLACED without a linked replacement) -/
theorem books_preserved_release (s : Core) (tt : TermType) (app key : String)
    (hw : CoreWF s) (hb : Books s) (hrel : ReleaseOK s app key) :
    Books (s.releaseKeyT tt app key) ∧ CoreWF (s.releaseKeyT tt app key) :=
  releaseKeyT_props s tt app key hw hb hrel

/-- tryPlaceholderAllocate decided a replacement (same node: nothing moves; other node: the real half is parked there) -/
theorem books_preserved_swapStart (s s' : Core) (app realKey phKey node : String) (hw : CoreWF s) (hb : Books s)
    (h : s.swapStart app realKey phKey node = some s') (hfresh : FreshOnNode s node realKey) : Books s' ∧ CoreWF s' :=
  swapStart_props s s' app realKey phKey node hw hb h hfresh

/-- the shim confirms the swap (PLACEHOLDER_REPLACED).  Also when the application leaves the partition in this very step
    with its new real allocation (Failing → Failed, KNOWN_FINDINGS C03.I7t): the books of the live objects still agree.
    Since fix 3b9e769 (removeAllocationInternal: a replacement that is being confirmed does not complete the application)
    that is the only way an application leaves in this step: `swapConfirm_leaves_only_failing`. -/
theorem books_preserved_swapConfirm (s : Core) (app phKey : String) (hw : CoreWF s) (hb : Books s) (hok : SwapOK s app phKey) :
    Books (s.swapConfirm app phKey) ∧ CoreWF (s.swapConfirm app phKey) :=
  swapConfirm_props s app phKey hw hb hok

/-- In the step that confirms a replacement the application leaves the partition only by failing, and (fix 81c5cb7) only
    when it holds no other real allocation — the replacement itself then becomes the allocation of a Failed application
    (what is left of KNOWN_FINDINGS C03.I7t: the swap of a failing application is confirmed); the former
    variant — a Completing / idle-looking application completing right before its real allocation is added (I7c) — is
    gone with fix 3b9e769, which the model mirrors (`replApp`, `relAppT`). -/
theorem swapConfirm_leaves_only_failing (p r : CItem) (a : CApp) (h : (replApp p r a).live = false) :
    (a.state = "Failing" ∧ isZero (some a.allocated) = true) ∨ terminated a.state = true :=
  replApp_leaves_only_failing p r a h

/-- release of every allocation (and, unless TIMEOUT, every ask) of an application -/
theorem books_preserved_releaseApp (s : Core) (tt : TermType) (app : String) (hw : CoreWF s) (hb : Books s)
    (hok : AppOnNodes s app) : Books (s.releaseApp tt app) ∧ CoreWF (s.releaseApp tt app) :=
  releaseApp_props s tt app hw hb hok

/-- partition.removeApplication -/
theorem books_preserved_appRemove (s : Core) (app : String) (hw : CoreWF s) (hb : Books s) (hok : AppOnNodes s app) :
    Books (s.appRemove app) ∧ CoreWF (s.appRemove app) :=
  appRemove_props s app hw hb hok

/-- partition.removeNode, including the in-flight replacement cases of removeNodeAllocations -/
theorem books_preserved_nodeRemove (s : Core) (id : String) (order : List (String × String)) (hw : CoreWF s) (hb : Books s)
    (hok : NodeRemoveOK s id order) : Books (s.nodeRemove id order) ∧ CoreWF (s.nodeRemove id order) :=
  nodeRemove_props s id order hw hb hok

/-- the placeholder timer (both cases) and the state timer: no side condition -/
theorem books_preserved_timers (s : Core) (app : String) (ev : Option String) (hw : CoreWF s) (hb : Books s) :
    (Books (s.phTimeout app ev) ∧ CoreWF (s.phTimeout app ev)) ∧ (Books (s.stateTimeout app) ∧ CoreWF (s.stateTimeout app)) :=
  ⟨phTimeout_props s app ev hw hb, stateTimeout_props s app hw hb⟩

/-- a new application (with the dynamic queues created for it), the clean-up of expired applications -/
theorem books_preserved_appAdd_cleanup (s : Core) (a : Option CApp) (nq : List CQueue) (hw : CoreWF s) (hb : Books s)
    (hok : FreshQueuesOK s nq) : (Books (s.appAdd a nq) ∧ CoreWF (s.appAdd a nq)) ∧ (Books s.cleanup ∧ CoreWF s.cleanup) :=
  ⟨appAdd_props s a nq hw hb hok, cleanup_props s hw hb⟩

/-- Whole histories: for every list of stepped operations (`Op`, YkModel/CoreRun.lean: all 21 operations of the stepped
    model) applied to a state satisfying `CoreWF ∧ Books`, every step meeting its side condition (`RunOK`), the result
    satisfies `Books` (and `CoreWF`). -/
theorem books_reachable (s : Core) (ops : List Op) (hw : CoreWF s) (hb : Books s) (hok : RunOK s ops) :
    Books (run s ops) ∧ CoreWF (run s ops) :=
  Yk.books_reachable s ops hw hb hok

/-- The full statement, without the side conditions: NOT true of the code. -/
def books_reachable_full : Prop := ∀ (s : Core) (ops : List Op), CoreWF s → Books s → Books (run s ops)

/-- … refuted on a concrete witness: a placeholder (cpu 4) whose node is not registered is "replaced" by a real
    allocation of cpu 2: removeAllocation skips the node AND the queue update (`continue` when the node is not found), the
    application books cpu 2, the root queue keeps cpu 4. -/
theorem books_reachable_full_refuted : ¬ books_reachable_full := by
  intro h
  obtain ⟨hw, hb, _, hn⟩ := swapConfirm_books_refuted_without_node
  exact hn (h swapW [.swapConfirm "app" "ph"] hw hb)

/-! ### "every allocation an application lists is on its node" as an invariant

`Linked s` (C03 clause I8): every bound item of every live application is listed by its registered node, for this
application, non-foreign, with the size the application books.  Every operation of the stepped model preserves it
(YkProofs/Core2Link*.lean), so along a history the node-side conditions of the release operations need not be assumed:
they follow.  What remains as side condition of a step (`Op.ok2`, YkProofs/Core2RunL.lean): requests are well-formed
(`wf`), a key is new in a Go map (`FreshOnNode`, `AskOK.newKey`, `FreshQueuesOK`), a confirmed replacement is a proper one,
not larger than its placeholder and — across nodes — parked on its node (`SwapLinkOK`, `NodeRemoveOK`,
`NodeRemoveLinkOK`), and no int64 saturation where a pending total grows (`AskOK.noSat`, `NodeRmOK`).
(The converse clause I7 — every allocation on a node belongs to a live application that lists it — is NOT an invariant of
the code: KNOWN_FINDINGS C03.I7t / I7r / I7o; the model reproduces these behaviours.) -/

/-- one step keeps the linkage -/
theorem linked_preserved (s : Core) (op : Op) (hw : CoreWF s) (hb : Books s) (hl : Linked s) (hok : op.ok2 s) :
    Linked (op.apply s) :=
  step_linked s op hw hb hl hok

/-- Whole histories from a well-formed, balanced and linked state: for every list of operations of the stepped model whose
    steps meet the reduced side condition, the result is balanced, well-formed and linked. -/
theorem books_linked_reachable (s : Core) (ops : List Op) (hw : CoreWF s) (hb : Books s) (hl : Linked s)
    (hok : RunOK2 s ops) : Books (run s ops) ∧ CoreWF (run s ops) ∧ Linked (run s ops) :=
  reachable_linked s ops hw hb hl hok

/-- … in particular the release operations need no side condition at all in a linked state -/
theorem release_needs_no_side_condition (s : Core) (tt : TermType) (app key : String) (hw : CoreWF s) (hb : Books s)
    (hl : Linked s) :
    (Books (s.releaseKeyT tt app key) ∧ CoreWF (s.releaseKeyT tt app key) ∧ Linked (s.releaseKeyT tt app key)) ∧
    (Books (s.releaseApp tt app) ∧ CoreWF (s.releaseApp tt app) ∧ Linked (s.releaseApp tt app)) ∧
    (Books (s.appRemove app) ∧ CoreWF (s.appRemove app) ∧ Linked (s.appRemove app)) :=
  ⟨⟨(releaseKeyT_props s tt app key hw hb (hl.releaseOK app key)).1, (releaseKeyT_props s tt app key hw hb (hl.releaseOK app key)).2,
     linked_releaseKeyT s tt app key hw hb hl⟩,
   ⟨(releaseApp_props s tt app hw hb (hl.appOnNodes app)).1, (releaseApp_props s tt app hw hb (hl.appOnNodes app)).2,
     linked_releaseApp tt app hw hb hl⟩,
   ⟨(appRemove_props s app hw hb (hl.appOnNodes app)).1, (appRemove_props s app hw hb (hl.appOnNodes app)).2,
     linked_appRemove app hw hb hl⟩⟩

/-! ### non-vacuity

`Example.exOps` (YkProofs/Core2Example.lean): from the empty partition — a node registers, a gang application is added,
asks for a placeholder (cpu 4) which the scheduler binds, asks for the real allocation (cpu 2), the scheduler starts the
swap on the same node, the shim confirms it, the real allocation is released, the node is removed.  Every step meets
its side condition (evaluated by the executable checkers `Op.okb`, sound for `Op.ok`), the states on the way are not
trivial, and at the end everything is back to zero.  `Example.exOps2`: the node is removed while the swap is in flight. -/

example : CoreWF Example.ex0 ∧ Books Example.ex0 ∧ RunOK Example.ex0 Example.exOps ∧
    (Example.s4.nodes.map (·.allocated)) = [[("cpu", 4)]] ∧
    (Example.s7.nodes.map (·.allocated)) = [[("cpu", 2)]] ∧
    (Example.s7.queues.map (·.allocated)) = [[("cpu", 2)], [("cpu", 2)]] ∧
    run Example.ex0 Example.exOps = Example.s9 ∧ Example.s9.nodes = [] ∧
    (Example.s9.queues.map (·.allocated)) = [[], []] :=
  ⟨Example.wf_ex0, Example.books_ex0, Example.exOps_ok, Example.s4_node.1, Example.s7_node, Example.s7_queues,
   Example.run_exOps, Example.s9_nodes, Example.s9_queues.1⟩

example : Books (run Example.ex0 Example.exOps) ∧ CoreWF (run Example.ex0 Example.exOps) :=
  books_reachable _ _ Example.wf_ex0 Example.books_ex0 Example.exOps_ok

example : RunOK Example.ex0 Example.exOps2 ∧ Books (run Example.ex0 Example.exOps2) :=
  ⟨Example.exOps2_ok, Example.example2_reachable.1⟩

/-- the same histories meet the reduced side conditions from the (trivially linked) empty partition; `Example.exOps3`: a
    cross-node swap (the real half is parked on `n2` while the placeholder sits on `n1`) -/
example : Linked Example.ex0 ∧ RunOK2 Example.ex0 Example.exOps ∧ RunOK2 Example.ex0 Example.exOps2 ∧
    RunOK2 Example.ex0 Example.exOps3 ∧
    (Books (run Example.ex0 Example.exOps3) ∧ CoreWF (run Example.ex0 Example.exOps3) ∧ Linked (run Example.ex0 Example.exOps3)) :=
  ⟨Example.linked_ex0, Example.exOps_ok2, Example.exOps2_ok2, Example.exOps3_ok2, Example.example3_reachable_linked⟩

end Yk.C03
