/-
  C12 — Restart recovery rebuilds the same accounting.
  The core keeps no state.  `Core.replay` (YkModel/Recover.lean) is the rebuilt state after the shim replayed a list of
  items on a restarted core `Core.fresh qs` (`qs` = the queue tree of the restarted core, any configuration): nodes
  (`Core.nodeCreate`), applications after placement (`Core.appSub` = partition.AddApplication), bound allocations
  (`Core.recAlloc` = the "new allocation already assigned" branch of partition.UpdateAllocation: IncAllocatedResource
  without limit, Node.AddAllocation forced, RecoverAllocationAsk, AddAllocation), foreign allocations, outstanding asks.
  `replay` also returns the items the core accepted.  The driver replays on this model what the harness replayed on a
  real restarted ClusterContext and compares every answer and every ledger; `Core.totalsOK` / `Core.agreeOK` are the
  statements below in executable form, evaluated on the dumps of the two real cores.
  Helper lemmas: YkProofs/Recover.lean.  `Books` (YkProofs/Core.lean) = the conservation invariants of C03.
-/
import YkProofs.Recover
namespace Yk.C12
open Yk Yk.Core Yk.Res

/-- **The rebuilt state satisfies the conservation invariants** — for every queue tree, every list of items (any order,
    also orders the core partly refuses), whatever the queue maxima, node capacities and limits are: every application's
    totals are the sums over its allocations and asks, every queue's allocated / pending is the sum over the applications
    at or below it, every node's allocated is the sum of its allocations and available = capacity − allocated − occupied. -/
theorem replay_books (qs : List CQueue) (items : List RItem) (hi : ∀ it ∈ items, it.wfRes) :
    Books ((Core.fresh qs).replay items).1 :=
  (replay_fresh qs items hi).2.1

/-- **Per-application and per-node totals are the totals recomputed from the accepted items** (`totApp…`, `totNode…`:
    plain sums over the replayed allocation set): allocated = Σ bound real allocations of the application, placeholder =
    Σ bound placeholders, pending = Σ outstanding asks; node allocated = Σ bound allocations on the node, node occupied =
    Σ foreign allocations on it. -/
theorem replay_totals (qs : List CQueue) (items : List RItem) (hi : ∀ it ∈ items, it.wfRes) :
    let b := ((Core.fresh qs).replay items).1
    let acc := ((Core.fresh qs).replay items).2
    (∀ a ∈ b.apps, ∀ k, a.allocated.getD k = (totAppAllocated acc a.id).getD k ∧
        a.allocatedPh.getD k = (totAppPlaceholder acc a.id).getD k ∧ a.pending.getD k = (totAppPending acc a.id).getD k) ∧
    (∀ n ∈ b.nodes, ∀ k, n.allocated.getD k = (totNodeAllocated acc n.id).getD k ∧
        n.occupied.getD k = (totNodeOccupied acc n.id).getD k) := by
  intro b acc
  obtain ⟨_, _, ht⟩ := replay_fresh qs items hi
  have hacc : ∀ it ∈ acc, it.wfRes := fun it h => hi it (replay_acc_sub _ _ it h)
  constructor
  · intro a ha k
    obtain ⟨h1, h2, h3⟩ := ht.app a ha k
    obtain ⟨e1, e2, e3, _, _⟩ := tot_getD acc hacc a.id k
    rw [h1, h2, h3, e1, e2, e3]; exact ⟨rfl, rfl, rfl⟩
  · intro n hn k
    obtain ⟨h1, h2⟩ := ht.node n hn k
    obtain ⟨_, _, _, e4, e5⟩ := tot_getD acc hacc n.id k
    rw [h1, h2, e4, e5]; exact ⟨rfl, rfl⟩

/-- **Per-queue totals**: allocated (pending) of every queue of the rebuilt state is the sum, over the applications the
    restarted core placed at or below the queue, of their recomputed allocation (ask) totals. -/
theorem replay_queue_totals (qs : List CQueue) (items : List RItem) (hi : ∀ it ∈ items, it.wfRes) :
    let b := ((Core.fresh qs).replay items).1
    let acc := ((Core.fresh qs).replay items).2
    ∀ q ∈ b.queues, ∀ k,
      q.allocated.getD k = qsum b.apps q.path (fun a => (totAppAllocated acc a.id).getD k + (totAppPlaceholder acc a.id).getD k) ∧
      q.pending.getD k = qsum b.apps q.path (fun a => (totAppPending acc a.id).getD k) := by
  intro b acc q hq k
  have hb := replay_books qs items hi
  obtain ⟨hA, _⟩ := replay_totals qs items hi
  have hqb := hb.queues q hq
  constructor
  · rw [hqb.allocated k]; unfold qsum; apply sumIf_congr; intro a ha
    obtain ⟨h1, h2, _⟩ := hA a ha k; rw [h1, h2]
  · rw [hqb.pending k]; unfold qsum; apply sumIf_congr; intro a ha
    obtain ⟨_, _, h3⟩ := hA a ha k; rw [h3]

/-- **The order of the replay does not matter**: two replays of the same items in different orders that were both
    accepted completely give every application and every node the same totals. -/
theorem replay_order_irrelevant (qs : List CQueue) (items items' : List RItem) (hp : items.Perm items')
    (hi : ∀ it ∈ items, it.wfRes)
    (h1 : ((Core.fresh qs).replay items).2 = items) (h2 : ((Core.fresh qs).replay items').2 = items') :
    (∀ a ∈ ((Core.fresh qs).replay items).1.apps, ∀ a' ∈ ((Core.fresh qs).replay items').1.apps, a'.id = a.id → ∀ k,
      a'.allocated.getD k = a.allocated.getD k ∧ a'.allocatedPh.getD k = a.allocatedPh.getD k ∧ a'.pending.getD k = a.pending.getD k) ∧
    (∀ n ∈ ((Core.fresh qs).replay items).1.nodes, ∀ n' ∈ ((Core.fresh qs).replay items').1.nodes, n'.id = n.id → ∀ k,
      n'.allocated.getD k = n.allocated.getD k ∧ n'.occupied.getD k = n.occupied.getD k) := by
  have hi' : ∀ it ∈ items', it.wfRes := fun it h => hi it (hp.mem_iff.mpr h)
  obtain ⟨_, _, t1⟩ := replay_fresh qs items hi
  obtain ⟨_, _, t2⟩ := replay_fresh qs items' hi'
  rw [h1] at t1; rw [h2] at t2
  constructor
  · intro a ha a' ha' hid k
    obtain ⟨x1, x2, x3⟩ := t1.app a ha k
    obtain ⟨y1, y2, y3⟩ := t2.app a' ha' k
    obtain ⟨e1, e2, e3, _, _⟩ := sums_perm hp a.id k
    rw [x1, x2, x3, y1, y2, y3, hid, e1, e2, e3]; exact ⟨rfl, rfl, rfl⟩
  · intro n hn n' hn' hid k
    obtain ⟨x1, x2⟩ := t1.node n hn k
    obtain ⟨y1, y2⟩ := t2.node n' hn' k
    obtain ⟨_, _, _, e4, e5⟩ := sums_perm hp n.id k
    rw [x1, x2, y1, y2, hid, e4, e5]; exact ⟨rfl, rfl⟩

/-- **Accepted regardless of quotas** (`forced_accepts`): a bound allocation whose application and node are registered,
    with a valid resource and a key the application does not know, is accepted; a foreign allocation whose node is
    registered; an ask whose application is registered.  No hypothesis mentions a queue maximum, the node's free
    capacity or a user limit: the model of these branches does not read them (the correspondence checks that the code
    does not either, with tightened configurations). -/
theorem registered_items_accepted (s : Core) :
    (∀ x a, s.findApp x.app = some a → (s.findNode x.node).isSome = true → isZero (some x.res) = false →
        strictlyGreaterThanZero (some x.res) = true → a.items.any (·.key == x.key) = false → (s.recAlloc x).2 = true) ∧
    (∀ key node res, (s.findNode node).isSome = true → s.foreign.contains key = false → (s.recForeign key node res).2 = true) ∧
    (∀ x a, s.findApp x.app = some a → isZero (some x.res) = false → strictlyGreaterThanZero (some x.res) = true →
        a.items.any (·.key == x.key) = false → (s.recAsk x).2 = true) ∧
    (∀ id cap sched, s.findNode id = none → (s.recNode id cap sched).2 = true) :=
  ⟨fun x a => recAlloc_accepts s x a, fun key node res => recForeign_accepts s key node res,
   fun x a => recAsk_accepts s x a, fun id cap sched => recNode_accepts s id cap sched⟩

/-- A replay in which every item finds its node / application registered and its key unused (`Legal`, YkProofs/Recover:
    the order the shim guarantees — nodes are accepted before anything is placed on them, a task is only sent once its
    application was accepted) is accepted completely. -/
theorem legal_replay_accepted (s : Core) (items : List RItem) (h : Legal s items) : (s.replay items).2 = items :=
  legal_all_accepted s items h

/-- **A legal order is accepted completely, whatever the quotas** (`LegalFrom`, a condition on the item list alone: every
    node id / application id / allocation key is used once, every allocation and foreign pod comes after its node, every
    allocation and ask after its application, resources are positive, applications are placed in a leaf of the queue tree
    and are force-created or carry no task-group request).  No maximum, capacity or limit occurs in the hypotheses. -/
theorem legal_order_accepted (qs : List CQueue) (items : List RItem) (hl : LegalFrom qs [] [] [] items) :
    ((Core.fresh qs).replay items).2 = items :=
  legalFrom_all_accepted qs items hl

/-- **A key replayed as an ask and reported as bound later** (a shim that learns about the binding during the replay, or
    places the pod itself afterwards), possibly WITH ANOTHER SIZE than the ask the core holds, goes through two blocks of
    UpdateAllocation in one update (`Core.recBind`): the resource change of the pending ask (`Core.resizePending`: the
    ask takes the new size, application and queue pending move by the delta, nothing is booked on a node — a pending ask
    has none) and then the "ask → allocation" transition with the new size (`Core.bindHeld`: AllocateAsk,
    IncAllocatedResource without limit, forced Node.AddAllocation of the application's own object, AddAllocation).
    It keeps the books of any well-formed state balanced: in particular the node's allocated stays the sum of its
    allocations (the new size once, not new size + delta).  No capacity or quota hypothesis; `NoSatResize`: no queue
    pending total leaves the int64 range. -/
theorem bound_later_keeps_books (s : Core) (x : RAlloc) (hw : CoreWF s) (hb : Books s) (hr : wf x.res = true)
    (hnn : NonNeg x.res) (hsat : NoSatResize s x.res) : Books (s.recBind x).1 :=
  books_recBind s x hw hb hr hnn hsat

/-- … and the two blocks separately: the resize of a pending ask, the transition with the size the application holds. -/
theorem pending_resize_keeps_books (s : Core) (a : CApp) (i : CItem) (res : Res) (hw : CoreWF s) (hb : Books s)
    (ham : a ∈ s.apps) (hl : a.live = true) (him : i ∈ a.items) (hreq : i.inReq = true) (hnal : i.allocated = false)
    (hr : wf res = true) : Books (s.resizePending a i res) :=
  books_resizePending s a i res hw hb ham hl him hreq hnal hr

theorem transition_keeps_books (s : Core) (x : RAlloc) (hw : CoreWF s) (hb : Books s) : Books (s.bindHeld x).1 :=
  books_bindHeld s x hw hb

/-- The order assumption is needed: an allocation replayed before its node and application is refused (and stays
    refused: nothing is booked for it). -/
theorem illegal_order_refused :
    ((Core.fresh []).replay [.alloc { app := "app-1", key := "k1", node := "n1", res := [("cpu", 1)], ph := false, tg := "", reqNode := "" },
                             .node "n1" [("cpu", 4)] true]).2 = [.node "n1" [("cpu", 4)] true] := by decide

/-- **A force-created application is accepted** whenever its id is new and the queue the placement chose exists as a
    leaf — whatever it asks for as task groups, whatever the queue maxima and the sort policy are (partition.AddApplication
    skips the task-group checks for a forced application; repaired by the fix recorded in KNOWN_FINDINGS `fixed:`). -/
theorem forced_app_accepted (s : Core) (a : RApp) (q : CQueue) (hf : a.forced = true) (hn : s.findApp a.id = none)
    (hq : s.findQueue a.queue = some q) (hl : q.leaf = true) : (s.appSub a).2 = true :=
  appAdd_accepts s a q hn hq hl (Or.inl hf)

/-- … and so is an application that is not forced and carries no task-group request. -/
theorem plain_app_accepted (s : Core) (a : RApp) (q : CQueue) (hn : s.findApp a.id = none)
    (hq : s.findQueue a.queue = some q) (hl : q.leaf = true) (hg : isZero (some a.phAsk) = true) : (s.appSub a).2 = true :=
  appAdd_accepts s a q hn hq hl (Or.inr hg)

/-- the former witness: queue root.a with max {cpu:1}; a running gang application that asked for {cpu:2} of placeholders -/
def exTree : List CQueue :=
  [ { path := "root", parent := none, leaf := false, managed := true, max := none, guaranteed := none, allocated := [], pending := [],
      preempting := [], maxApps := 0, running := 0, allocating := [], apps := [], reserved := [] },
    { path := "root.a", parent := some "root", leaf := true, managed := true, max := some [("cpu", 1)], guaranteed := none, allocated := [],
      pending := [], preempting := [], maxApps := 0, running := 0, allocating := [], apps := [], reserved := [] } ]
def exGang : RApp := { id := "app-1", queue := "root.a", user := "bob", phAsk := [("cpu", 2)], fifo := true, forced := true }

/-- regression (was the refutation of the unrepaired code): the forced gang application is accepted over the queue maximum,
    also in a queue that does not sort FIFO … -/
example : ((Core.fresh exTree).appSub exGang).2 = true := by decide
example : ((Core.fresh exTree).appSub { exGang with fifo := false }).2 = true := by decide
/-- … its bound placeholder is accepted with it … -/
example :
    ((Core.fresh exTree).replay [.node "n1" [("cpu", 4)] true, .app exGang,
        .alloc { app := "app-1", key := "p1", node := "n1", res := [("cpu", 2)], ph := true, tg := "tg", reqNode := "" }]).2.length = 3 := by decide
/-- … while the same submission WITHOUT the force-create tag is still refused (the task-group checks remain for new work). -/
example : ((Core.fresh exTree).appSub { exGang with forced := false }).2 = false := by decide

/-- **Old core and restarted core agree, per application.**  `A` = the old core with balanced books (C03); the shim
    replayed — in any legal order (`LegalFrom`) — exactly the bound allocations (`snapAllocs A`) and the asks it
    holds (`snapAsks A`: the unallocated asks, and the real halves of placeholder replacements in flight, which the old
    core counts as allocated but has not announced).  Then for every live application of `A` the restarted core books the
    same allocated and placeholder totals, and pending = old pending + the replacements in flight. -/
theorem recover_agrees_app (A : Core) (qs : List CQueue) (items : List RItem) (hw : CoreWF A) (hb : Books A)
    (hi : ∀ it ∈ items, it.wfRes) (hlegal : LegalFrom qs [] [] [] items)
    (hallocs : (allocsOf items).Perm (snapAllocs A)) (hasks : (asksOf items).Perm (snapAsks A))
    (a : CApp) (ha : a ∈ A.apps) (hl : a.live = true) (b : CApp) (hbm : b ∈ ((Core.fresh qs).replay items).1.apps)
    (hid : b.id = a.id) (k : String) :
    b.allocated.getD k = a.allocated.getD k ∧ b.allocatedPh.getD k = a.allocatedPh.getD k ∧
    b.pending.getD k = a.pending.getD k + (inflightOfApp a).getD k :=
  agree_app A qs items hw hb hi (legalFrom_all_accepted qs items hlegal) hallocs hasks a ha hl b hbm hid k

/-- **… per queue**, for the queues that exist in both, when the restarted core placed the applications where they were
    (`happs`: same (id, queue) pairs — same configuration; with a changed configuration `replay_queue_totals` says what
    each queue holds): same allocated; pending = old pending + the replacements in flight at or below the queue. -/
theorem recover_agrees_queue (A : Core) (qs : List CQueue) (items : List RItem) (hw : CoreWF A) (hb : Books A)
    (hi : ∀ it ∈ items, it.wfRes) (hlegal : LegalFrom qs [] [] [] items)
    (hallocs : (allocsOf items).Perm (snapAllocs A)) (hasks : (asksOf items).Perm (snapAsks A))
    (happs : ((appsOf items).map rappSig).Perm (A.liveApps.map appSig))
    (q : CQueue) (hq : q ∈ A.queues) (r : CQueue) (hr : r ∈ ((Core.fresh qs).replay items).1.queues) (hp : r.path = q.path) (k : String) :
    r.allocated.getD k = q.allocated.getD k ∧
    r.pending.getD k = q.pending.getD k + qsum A.apps q.path (fun a => (inflightOfApp a).getD k) :=
  agree_queue A qs items hw hb hi (legalFrom_all_accepted qs items hlegal) hallocs hasks happs q hq r hr hp k

/-- **… per node**, for a node of the old core whose ledger is the sum of what its live applications bound there plus
    the replacement halves in flight on it (`hview`: clauses I7 / I8 of C03 in sum form) and whose occupied is the sum of
    its foreign allocations (`hocc`): the restarted core books allocated = old allocated − in flight, and the same
    occupied. -/
theorem recover_agrees_node (A : Core) (qs : List CQueue) (items : List RItem)
    (hi : ∀ it ∈ items, it.wfRes) (hlegal : LegalFrom qs [] [] [] items)
    (hallocs : (allocsOf items).Perm (snapAllocs A)) (hforeign : (foreignOf items).Perm (snapForeign A))
    (n : CNode) (m : CNode) (hm : m ∈ ((Core.fresh qs).replay items).1.nodes) (hid : m.id = n.id) (k : String)
    (hview : n.allocated.getD k = sumIf (snapAllocs A) (fun x => x.node == n.id) (fun x => x.res.getD k) + (inflightOnNode A n).getD k)
    (hocc : n.occupied.getD k = sumIf (snapForeign A) (fun f => f.2.1 == n.id) (fun f => f.2.2.getD k)) :
    n.allocated.getD k = m.allocated.getD k + (inflightOnNode A n).getD k ∧ n.occupied.getD k = m.occupied.getD k :=
  agree_node A qs items hi (legalFrom_all_accepted qs items hlegal) hallocs hforeign n m hm hid k hview hocc

/-! ### non-vacuity -/

/-- a replay in a legal order: node, application, a bound allocation, an ask — everything is accepted although the queue
    maximum is {cpu:1} and the allocation takes {cpu:3} -/
def exApp : RApp := { id := "app-2", queue := "root.a", user := "bob", phAsk := [], fifo := true, forced := true }
def exItems : List RItem :=
  [.node "n1" [("cpu", 4)] true, .app exApp,
   .alloc { app := "app-2", key := "k1", node := "n1", res := [("cpu", 3)], ph := false, tg := "", reqNode := "" },
   .ask { app := "app-2", key := "k2", node := "", res := [("cpu", 2)], ph := false, tg := "", reqNode := "" }]

example : ((Core.fresh exTree).replay exItems).2 = exItems := by decide
example : LegalFrom exTree [] [] [] exItems := by
  simp [LegalFrom, exItems, exApp, exTree, validRes, isZero, strictlyGreaterThanZero]
/-- a forced gang application over the queue maximum with its placeholder: a legal replay -/
example : LegalFrom exTree [] [] [] [.node "n1" [("cpu", 4)] true, .app exGang,
    .alloc { app := "app-1", key := "p1", node := "n1", res := [("cpu", 2)], ph := true, tg := "tg", reqNode := "" }] := by
  simp [LegalFrom, exGang, exTree, validRes, isZero, strictlyGreaterThanZero]
example : ∀ it ∈ exItems, it.wfRes := by
  intro it h
  simp only [exItems, List.mem_cons, List.mem_nil_iff, or_false] at h
  rcases h with rfl | rfl | rfl | rfl
  · show wf _ = true; decide
  · trivial
  · show wf _ = true; decide
  · show wf _ = true; decide
example : (((Core.fresh exTree).replay exItems).1.apps.map (fun a => (a.id, a.state, a.allocated, a.pending))) =
    [("app-2", "Running", [("cpu", 3)], [("cpu", 2)])] := by decide
example : (((Core.fresh exTree).replay exItems).1.nodes.map (fun n => (n.id, n.allocated, n.available))) =
    [("n1", [("cpu", 3)], [("cpu", 1)])] := by decide
/-- ask first, bound later: the application and the node end with the totals of the direct recovery -/
example :
    let x : RAlloc := { app := "app-2", key := "k1", node := "n1", res := [("cpu", 3)], ph := false, tg := "", reqNode := "" }
    let viaAsk := (((Core.fresh exTree).replay [exItems[0], exItems[1], .ask { x with node := "" }]).1.recPlaced x).1
    let direct := ((Core.fresh exTree).replay [exItems[0], exItems[1], .alloc x]).1
    viaAsk.apps.map (fun a => (a.state, a.allocated, a.pending)) = direct.apps.map (fun a => (a.state, a.allocated, a.pending)) ∧
    viaAsk.nodes.map (fun n => (n.allocated, n.available, n.allocs)) = direct.nodes.map (fun n => (n.allocated, n.available, n.allocs)) := by
  decide
/-- ask first with size {cpu:1, mem:2}, bound later with size {cpu:3}: application, node and ask end exactly as in the
    direct recovery of the {cpu:3} allocation (the node books {cpu:3} once) -/
def exBound : RAlloc := { app := "app-2", key := "k1", node := "n1", res := [("cpu", 3)], ph := false, tg := "", reqNode := "" }
def exViaAsk : Core :=
  (((Core.fresh exTree).replay [exItems[0], exItems[1], .ask { exBound with node := "", res := [("cpu", 1), ("mem", 2)] }]).1.recPlaced exBound).1
def exDirect : Core := ((Core.fresh exTree).replay [exItems[0], exItems[1], .alloc exBound]).1
example : exViaAsk.apps.map (fun a => (a.state, a.allocated, a.pending)) = exDirect.apps.map (fun a => (a.state, a.allocated, a.pending)) := by decide
example : exViaAsk.apps.map (fun a => a.items.map (fun i => (i.key, prune i.res, i.bound))) =
    exDirect.apps.map (fun a => a.items.map (fun i => (i.key, prune i.res, i.bound))) := by decide
example : exViaAsk.nodes.map (fun n => (n.allocated, n.available, n.allocs)) =
    exDirect.nodes.map (fun n => (n.allocated, n.available, n.allocs)) := by decide
/-- the same items, the ask before the allocation -/
example : ((Core.fresh exTree).replay [exItems[0], exItems[1], exItems[3], exItems[2]]).2 = [exItems[0], exItems[1], exItems[3], exItems[2]] := by decide

end Yk.C12
