/-
  C10 — Applications follow the documented life cycle (state-machine clauses).
  The transition table and the callback bodies are REGENERATED from application_state.go on every run (T2);
  the theorems below are re-checked against what the source says now.
-/
import YkModel.AppFsm
import YkProofs.Core2LifeEx
namespace Yk.C10
open Yk Yk.Res Yk.Core

/-- tie: the states and events of the source are exactly the ones modelled, every name in the table resolves -/
theorem states_tie :
    Gen.appStates = AppState.all.map AppState.name ∧ Gen.appEvents = [AppEvent.run, .reject, .complete, .fail, .expire, .resume].map AppEvent.name ∧
    (∀ t ∈ Gen.appTransitions, (AppState.ofName t.2.2).isSome = true ∧ (∀ s ∈ t.2.1, (AppState.ofName s).isSome = true) ∧
       AppEvent.all.any (fun e => e.name == t.1) = true) := by decide

/-- The state an application reports only ever changes along the documented life cycle, and every documented
    change is possible: for all states a ≠ b, some event moves a to b iff the life cycle documents a → b. -/
theorem table_eq : ∀ a b : AppState, a ≠ b → ((∃ e : AppEvent, fire a e = some b) ↔ documented a b = true) := by
  have hex : ∀ a b : AppState, (∃ e : AppEvent, fire a e = some b) ↔ (AppEvent.all.any (fun e => fire a e == some b) = true) := by
    intro a b
    constructor
    · rintro ⟨e, he⟩
      rw [List.any_eq_true]
      exact ⟨e, by cases e <;> simp [AppEvent.all], by simp [he]⟩
    · intro h
      rw [List.any_eq_true] at h
      obtain ⟨e, _, he⟩ := h
      exact ⟨e, by simpa using he⟩
  intro a b hab
  rw [hex]
  revert hab
  cases a <;> cases b <;> decide

/-- every single handled event keeps the state or follows a documented edge (whatever the history) -/
theorem handle_documented (a : AppState) (e : AppEvent) : handle a e = a ∨ documented a (handle a e) = true := by
  cases a <;> cases e <;> decide

/-- the state log of a history of events, starting in state `a` -/
def trace (a : AppState) : List AppEvent → List AppState
  | [] => [a]
  | e :: es => a :: trace (handle a e) es

def chainOK : List AppState → Bool
  | [] => true
  | [_] => true
  | x :: y :: t => (x == y || documented x y) && chainOK (y :: t)

/-- so does every sequence of events: consecutive entries of the state log are repeats or documented edges -/
theorem log_follows (a : AppState) (es : List AppEvent) : chainOK (trace a es) = true := by
  induction es generalizing a with
  | nil => rfl
  | cons e es ih =>
    have h := ih (handle a e)
    cases es with
    | nil =>
      simp only [trace, chainOK, Bool.and_true]
      rcases handle_documented a e with h1 | h1
      · simp [h1]
      · simp [h1]
    | cons e' es' =>
      simp only [trace] at h ⊢
      simp only [chainOK] at h ⊢
      rw [Bool.and_eq_true]
      refine ⟨?_, h⟩
      rcases handle_documented a e with h1 | h1
      · simp [h1]
      · simp [h1]

/-- terminal states (Completed, Failed, Rejected) only move to Expired; Expired moves nowhere -/
theorem terminal_only_expires (e : AppEvent) :
    (handle .completed e = .completed ∨ handle .completed e = .expired) ∧
    (handle .failed e = .failed ∨ handle .failed e = .expired) ∧
    (handle .rejected e = .rejected ∨ handle .rejected e = .expired) ∧ handle .expired e = .expired := by
  cases e <;> decide

/-- Callbacks (regenerated): the running counter of the queue is incremented exactly when Running is entered from
    another state and decremented exactly when it is left for another state, by no other callback;
    terminated applications (Completed, Failed) run the terminated callback (leave the queue) and drop their asks;
    Completing arms the timer that completes the application undisturbed. -/
theorem callbacks_tie :
    callbackCalls "enter_Running" = [("incRunningApps", "event.Src != Running")] ∧
    callbackCalls "leave_Running" = [("decRunningApps", "event.Dst != Running")] ∧
    (∀ c ∈ Gen.appCallbacks, c.1 ≠ "enter_Running" → c.1 ≠ "leave_Running" →
        ∀ call ∈ c.2, call.1 ≠ "incRunningApps" ∧ call.1 ≠ "decRunningApps") ∧
    ("executeTerminatedCallback", "") ∈ callbackCalls "enter_Completed" ∧ ("cleanupAsks", "") ∈ callbackCalls "enter_Completed" ∧
    ("clearPlaceholderTimer", "") ∈ callbackCalls "enter_Completed" ∧
    ("executeTerminatedCallback", "") ∈ callbackCalls "enter_Failed" ∧ ("cleanupAsks", "") ∈ callbackCalls "enter_Failed" ∧
    callbackCalls "enter_Completing" = [("setStateTimer(completingTimeout,CompleteApplication)", "")] ∧
    callbackCalls "leave_state" = [("clearStateTimer", "")] := by decide

example : fire .completing .run = some .running ∧ fire .running .run = some .running ∧ fire .completed .run = none := by decide

/-! ### the state follows the ledger (stepped Core model, YkModel/CoreOps*.lean, compared with the real core line by line)

`CoreInv s` = `CoreWF ∧ Books ∧ Linked ∧ LifeInv`, `RunLifeOK`: every step meets `Op.ok2` and `Op.okLife`
(YkProofs/Core2LifeRun.lean). -/

/-- An ask that arrives at a Completing application moves it back to Running (and a New one to Accepted). -/
theorem ask_on_completing_runs (s : Core) (app key : String) (res : Res) (ph : Bool) (tg reqNode : String) (a : CApp)
    (hfind : s.findApp app = some a) (hst : a.state = "Completing")
    (hres : strictlyGreaterThanZero (some res) = true) (hnew : a.items.any (fun i => i.key == key && i.inReq) = false) :
    (s.ask app key res ph tg reqNode).2 = true ∧
    ∃ a', (s.ask app key res ph tg reqNode).1.findApp app = some a' ∧ a'.state = "Running" :=
  ask_completing_runs s app key res ph tg reqNode a hfind hst hres hnew

/-- An application with neither asks nor allocations does not stay Accepted / Running: when its last real allocation,
    its last placeholder (not a confirmed replacement: the real allocation follows) or its last ask goes it becomes
    Completing. -/
theorem idle_becomes_completing (tt : TermType) (key : String) (i x : CItem) (a : CApp)
    (hst : a.state = "Accepted" ∨ a.state = "Running") :
    (i.ph = false → isZero (some a.pending) = true → isZero (some (relAppT tt key i a).allocated) = true →
      (relAppT tt key i a).state = "Completing") ∧
    (i.ph = true → isZero (some (relAppT tt key i a).allocatedPh) = true → isZero (some a.pending) = true →
      isZero (some a.allocated) = true → (tt ≠ .replaced ∨ i.release = none) → (relAppT tt key i a).state = "Completing") ∧
    (isZero (some (askAppT key x a).pending) = true → isZero (some a.allocated) = true →
      (askAppT key x a).items.any (fun y => y.bound && y.ph) = false → (askAppT key x a).state = "Completing") :=
  ⟨fun h1 h2 h3 => (relAppT_idle_real tt key i a h1 h2 h3 hst).1,
   fun h1 h2 h3 h4 h5 => (relAppT_idle_ph tt key i a h1 h2 h3 h4 h5 hst).1,
   fun h1 h2 h3 => (askAppT_idle key x a h1 h2 h3 hst).1⟩

/-- Terminated applications leave the partition, and a Completed application holds no real allocation — along every
    history of the stepped model (also in the step that confirms a placeholder swap: fix 3b9e769). -/
theorem terminated_leave_and_completed_hold_nothing (s : Core) (ops : List Op) (h : CoreInv s) (hok : RunLifeOK s ops) :
    (∀ a ∈ (run s ops).apps, a.live = true → terminated a.state = false) ∧
    (∀ a ∈ (run s ops).apps, a.state = "Completed" → ∀ i ∈ a.items, i.bound = true → i.ph = true) ∧
    (∀ a ∈ (run s ops).apps, a.state = "Completed" → ∀ i ∈ a.items, i.bound = true → i.ph = false) :=
  let r := (reachable_life s ops h hok).life
  ⟨r.termGone, r.completedNoReal, fun a ha hst => r.noPhOrphan a ha (Or.inr (by rw [hst]; decide))⟩

/-- A Completing application holds no real allocation (a real allocation moves it back to Running). -/
theorem completing_holds_no_real_allocation (s : Core) (ops : List Op) (h : CoreInv s) (hok : RunLifeOK s ops) :
    ∀ a ∈ (run s ops).apps, a.live = true → a.state = "Completing" → ∀ i ∈ a.items, i.bound = true → i.ph = true :=
  (reachable_life s ops h hok).life.completingNoReal

/-- An application with outstanding asks is neither Completing nor Completed — along every history of the stepped model,
    also when a node removal rolls back a placeholder swap in flight: `Application.DeallocateAsk` moves a Completing
    application back to Running, as `AddAllocationAsk` does for a new ask (repaired in 20ee082).  Before the repair the
    statement was refuted by the history `Example.exOpsC10b` (the former KNOWN_FINDINGS entry
    C10.completing-with-pending-ask+swap-rolled-back-by-node-removal): a node is removed while a swap of the application
    is in flight on it; its real allocation on the node goes first (the application becomes Completing: the real ask of
    the swap counts as allocated), then the swap is rolled back (the ask is outstanding again — and the application
    stayed Completing); the state timer asked for the remaining placeholder back and its confirmation completed the
    application with the ask outstanding. -/
theorem outstanding_ask_not_completed (s : Core) (ops : List Op) (h : CoreInv s) (hp : NoPendInv s)
    (hok : RunLifeOK s ops) :
    (∀ a ∈ (run s ops).apps, a.live = true → a.state = "Completing" → ∀ i ∈ a.items, i.outstanding = false) ∧
    (∀ a ∈ (run s ops).apps, a.state = "Completed" → ∀ i ∈ a.items, i.outstanding = false) :=
  let r := reachable_nopend s ops h hp hok; ⟨r.completingNoPending, r.completedNoAsk⟩

/-- `_partial` (the form that held before the repair 20ee082): the same along the histories in which no node removal
    touches an application with a placeholder swap in flight (`RunNoRollback`: `NoRollback s id order` at every
    `nodeRemove`).  Now a corollary of `outstanding_ask_not_completed`; the side condition is not used. -/
theorem outstanding_ask_not_completed_partial (s : Core) (ops : List Op) (h : CoreInv s) (hp : NoPendInv s)
    (hok : RunLifeOK s ops) (_hnr : RunNoRollback s ops) :
    (∀ a ∈ (run s ops).apps, a.live = true → a.state = "Completing" → ∀ i ∈ a.items, i.outstanding = false) ∧
    (∀ a ∈ (run s ops).apps, a.state = "Completed" → ∀ i ∈ a.items, i.outstanding = false) :=
  outstanding_ask_not_completed s ops h hp hok

/-- The step that does it: the application record after `DeallocateAsk` (`deallocAppRun`: the ask `key` outstanding
    again, the replacement link to `other` cleared on both sides) is never Completing, and is Running when it was
    Completing. -/
theorem dealloc_ask_runs_again (key other : String) (r : CItem) (a : CApp) :
    (deallocAppRun key other r a).state ≠ "Completing" ∧
    (a.state = "Completing" → (deallocAppRun key other r a).state = "Running") ∧
    (a.state ≠ "Completing" → (deallocAppRun key other r a).state = a.state) := by
  have hs : (deallocApp key other r a).state = a.state := rfl
  refine ⟨runAgain_state_ne _, fun h => ?_, fun h => ?_⟩
  · show (runAgain (deallocApp key other r a)).state = "Running"
    rw [runAgain_state, if_pos (hs.trans h)]
  · show (runAgain (deallocApp key other r a)).state = a.state
    rw [runAgain_state, if_neg (fun e => h (hs.symm.trans e))]; rfl

/-- The state timer completes a Completing application without placeholders whatever its pending total (the step that,
    before the repair, turned "Completing with an outstanding ask" into "Completed with an outstanding ask"; by
    `outstanding_ask_not_completed` the pending total of a reachable Completing application lists no outstanding ask). -/
theorem state_timer_completes_regardless_of_asks (s : Core) (app : String) (a : CApp) (hw : CoreWF s)
    (hfind : s.findApp app = some a) (hst : a.state = "Completing") (hph : isZero (some a.allocatedPh) = true) :
    (s.stateTimeout app).findApp app = none ∧
    ∃ a' ∈ (s.stateTimeout app).apps, a'.id = app ∧ a'.live = false ∧ a'.state = "Completed" ∧ a'.pending = a.pending :=
  let ⟨h1, a', h2, h3, h4, h5, h6, _⟩ := stateTimeout_completes s app a hw hfind hst hph; ⟨h1, a', h2, h3, h4, h5, h6⟩

/-- non-vacuity: the hypotheses are met by the empty partition `ex0` with the history `exOpsC10b`, whose node removal does
    roll a swap back: right before it the application is Running with nothing pending and the swap in flight (items
    with a release link); right after it the application is Running again — having passed through Completing inside the
    removal, as its state log shows — with the ask `r1` outstanding; at the end of the history (state timer, release of
    the last placeholder) it is still live and Running, neither Completing nor Completed.  (`exOps` — placeholder bound,
    swapped, released, node removed — also meets `RunNoRollback`, the side condition of the `_partial` form.) -/
example : CoreInv Example.ex0 ∧ NoPendInv Example.ex0 ∧ RunLifeOK Example.ex0 Example.exOpsC10b ∧
    (∃ a, (run Example.ex0 (Example.exOpsC10b.take 11)).findApp "app" = some a ∧ a.state = "Running" ∧ a.pending = [] ∧
      ∃ i ∈ a.items, i.release ≠ none) ∧
    (∃ a, (run Example.ex0 (Example.exOpsC10b.take 12)).findApp "app" = some a ∧ a.state = "Running" ∧
      a.log = ["Accepted", "Running", "Completing", "Running"] ∧ a.pending = [("cpu", 2)] ∧ a.allocatedPh = [("cpu", 2)] ∧
      ∃ i ∈ a.items, i.key = "r1" ∧ i.outstanding = true) ∧
    (∃ a, (run Example.ex0 Example.exOpsC10b).findApp "app" = some a ∧ a.state = "Running" ∧ a.pending = [("cpu", 2)] ∧
      a.allocatedPh = [] ∧ ∃ i ∈ a.items, i.key = "r1" ∧ i.outstanding = true) ∧
    RunLifeOK Example.ex0 Example.exOps ∧ RunNoRollback Example.ex0 Example.exOps :=
  ⟨Example.coreInv_ex0, Example.noPendInv_ex0, Example.exOpsC10b_life, Example.exC10b_before,
   Example.exC10b_after_removal, Example.exC10b_end, Example.exOps_life, Example.exOps_noRollback⟩

end Yk.C10
