/-
  C10 — Applications follow the documented life cycle (state-machine clauses).
  The transition table and the callback bodies are REGENERATED from application_state.go on every run (T2);
  the theorems below are re-checked against what the source says now.
-/
import YkModel.AppFsm
namespace Yk.C10
open Yk

/-- tie: the states and events of the source are exactly the ones modelled, every name in the table resolves -/
theorem states_tie :
    Gen.appStates = AppState.all.map AppState.name ∧ Gen.appEvents = [AppEvent.run, .reject, .complete, .fail, .expire, .resume].map AppEvent.name ∧
    (∀ t ∈ Gen.appTransitions, (AppState.ofName t.2.2).isSome = true ∧ (∀ s ∈ t.2.1, (AppState.ofName s).isSome = true) ∧
       AppEvent.all.any (fun e => e.name == t.1) = true) := by decide

/-- The state an application reports only ever changes along the documented life cycle, and every documented
    change is possible: for all states a ≠ b, some event moves a to b iff the life cycle documents a → b. -/
theorem table_eq : ∀ a b : AppState, a ≠ b → ((∃ e : AppEvent, fire a e = some b) ↔ documented a b = true) := by
  have hex : ∀ a b : AppState, (∃ e : AppEvent, fire a e = some b) ↔ (AppEvent.all.any (fun e => fire a e == some b) = true) := by
    intro a b
    constructor
    · rintro ⟨e, he⟩
      rw [List.any_eq_true]
      exact ⟨e, by cases e <;> simp [AppEvent.all], by simp [he]⟩
    · intro h
      rw [List.any_eq_true] at h
      obtain ⟨e, _, he⟩ := h
      exact ⟨e, by simpa using he⟩
  intro a b hab
  rw [hex]
  revert hab
  cases a <;> cases b <;> decide

/-- every single handled event keeps the state or follows a documented edge (whatever the history) -/
theorem handle_documented (a : AppState) (e : AppEvent) : handle a e = a ∨ documented a (handle a e) = true := by
  cases a <;> cases e <;> decide

/-- the state log of a history of events, starting in state `a` -/
def trace (a : AppState) : List AppEvent → List AppState
  | [] => [a]
  | e :: es => a :: trace (handle a e) es

def chainOK : List AppState → Bool
  | [] => true
  | [_] => true
  | x :: y :: t => (x == y || documented x y) && chainOK (y :: t)

/-- so does every sequence of events: consecutive entries of the state log are repeats or documented edges -/
theorem log_follows (a : AppState) (es : List AppEvent) : chainOK (trace a es) = true := by
  induction es generalizing a with
  | nil => rfl
  | cons e es ih =>
    have h := ih (handle a e)
    cases es with
    | nil =>
      simp only [trace, chainOK, Bool.and_true]
      rcases handle_documented a e with h1 | h1
      · simp [h1]
      · simp [h1]
    | cons e' es' =>
      simp only [trace] at h ⊢
      simp only [chainOK] at h ⊢
      rw [Bool.and_eq_true]
      refine ⟨?_, h⟩
      rcases handle_documented a e with h1 | h1
      · simp [h1]
      · simp [h1]

/-- terminal states (Completed, Failed, Rejected) only move to Expired; Expired moves nowhere -/
theorem terminal_only_expires (e : AppEvent) :
    (handle .completed e = .completed ∨ handle .completed e = .expired) ∧
    (handle .failed e = .failed ∨ handle .failed e = .expired) ∧
    (handle .rejected e = .rejected ∨ handle .rejected e = .expired) ∧ handle .expired e = .expired := by
  cases e <;> decide

/-- Callbacks (regenerated): the running counter of the queue is incremented exactly when Running is entered from
    another state and decremented exactly when it is left for another state, by no other callback;
    terminated applications (Completed, Failed) run the terminated callback (leave the queue) and drop their asks;
    Completing arms the timer that completes the application undisturbed. -/
theorem callbacks_tie :
    callbackCalls "enter_Running" = [("incRunningApps", "event.Src != Running")] ∧
    callbackCalls "leave_Running" = [("decRunningApps", "event.Dst != Running")] ∧
    (∀ c ∈ Gen.appCallbacks, c.1 ≠ "enter_Running" → c.1 ≠ "leave_Running" →
        ∀ call ∈ c.2, call.1 ≠ "incRunningApps" ∧ call.1 ≠ "decRunningApps") ∧
    ("executeTerminatedCallback", "") ∈ callbackCalls "enter_Completed" ∧ ("cleanupAsks", "") ∈ callbackCalls "enter_Completed" ∧
    ("clearPlaceholderTimer", "") ∈ callbackCalls "enter_Completed" ∧
    ("executeTerminatedCallback", "") ∈ callbackCalls "enter_Failed" ∧ ("cleanupAsks", "") ∈ callbackCalls "enter_Failed" ∧
    callbackCalls "enter_Completing" = [("setStateTimer(completingTimeout,CompleteApplication)", "")] ∧
    callbackCalls "leave_state" = [("clearStateTimer", "")] := by decide

example : fire .completing .run = some .running ∧ fire .running .run = some .running ∧ fire .completed .run = none := by decide

end Yk.C10
