/-
  C10 — Applications follow the documented life cycle (state-machine clauses).
  The transition table and the callback bodies are REGENERATED from application_state.go on every run (T2);
  the theorems below are re-checked against what the source says now.
-/
import YkModel.AppFsm
import YkProofs.Core2LifeEx
namespace Yk.C10
open Yk Yk.Res Yk.Core

/-- tie: the states and events of the source are exactly the ones modelled, every name in the table resolves -/
theorem states_tie :
    Gen.appStates = AppState.all.map AppState.name ∧ Gen.appEvents = [AppEvent.run, .reject, .complete, .fail, .expire, .resume].map AppEvent.name ∧
    (∀ t ∈ Gen.appTransitions, (AppState.ofName t.2.2).isSome = true ∧ (∀ s ∈ t.2.1, (AppState.ofName s).isSome = true) ∧
       AppEvent.all.any (fun e => e.name == t.1) = true) := by decide

/-- The state an application reports only ever changes along the documented life cycle, and every documented
    change is possible: for all states a ≠ b, some event moves a to b iff the life cycle documents a → b. -/
theorem table_eq : ∀ a b : AppState, a ≠ b → ((∃ e : AppEvent, fire a e = some b) ↔ documented a b = true) := by
  have hex : ∀ a b : AppState, (∃ e : AppEvent, fire a e = some b) ↔ (AppEvent.all.any (fun e => fire a e == some b) = true) := by
    intro a b
    constructor
    · rintro ⟨e, he⟩
      rw [List.any_eq_true]
      exact ⟨e, by cases e <;> simp [AppEvent.all], by simp [he]⟩
    · intro h
      rw [List.any_eq_true] at h
      obtain ⟨e, _, he⟩ := h
      exact ⟨e, by simpa using he⟩
  intro a b hab
  rw [hex]
  revert hab
  cases a <;> cases b <;> decide

/-- every single handled event keeps the state or follows a documented edge (whatever the history) -/
theorem handle_documented (a : AppState) (e : AppEvent) : handle a e = a ∨ documented a (handle a e) = true := by
  cases a <;> cases e <;> decide

/-- the state log of a history of events, starting in state `a` -/
def trace (a : AppState) : List AppEvent → List AppState
  | [] => [a]
  | e :: es => a :: trace (handle a e) es

def chainOK : List AppState → Bool
  | [] => true
  | [_] => true
  | x :: y :: t => (x == y || documented x y) && chainOK (y :: t)

/-- so does every sequence of events: consecutive entries of the state log are repeats or documented edges -/
theorem log_follows (a : AppState) (es : List AppEvent) : chainOK (trace a es) = true := by
  induction es generalizing a with
  | nil => rfl
  | cons e es ih =>
    have h := ih (handle a e)
    cases es with
    | nil =>
      simp only [trace, chainOK, Bool.and_true]
      rcases handle_documented a e with h1 | h1
      · simp [h1]
      · simp [h1]
    | cons e' es' =>
      simp only [trace] at h ⊢
      simp only [chainOK] at h ⊢
      rw [Bool.and_eq_true]
      refine ⟨?_, h⟩
      rcases handle_documented a e with h1 | h1
      · simp [h1]
      · simp [h1]

/-- terminal states (Completed, Failed, Rejected) only move to Expired; Expired moves nowhere -/
theorem terminal_only_expires (e : AppEvent) :
    (handle .completed e = .completed ∨ handle .completed e = .expired) ∧
    (handle .failed e = .failed ∨ handle .failed e = .expired) ∧
    (handle .rejected e = .rejected ∨ handle .rejected e = .expired) ∧ handle .expired e = .expired := by
  cases e <;> decide

/-- Callbacks (regenerated): the running counter of the queue is incremented exactly when Running is entered from
    another state and decremented exactly when it is left for another state, by no other callback;
    terminated applications (Completed, Failed) run the terminated callback (leave the queue) and drop their asks;
    Completing arms the timer that completes the application undisturbed. -/
theorem callbacks_tie :
    callbackCalls "enter_Running" = [("incRunningApps", "event.Src != Running")] ∧
    callbackCalls "leave_Running" = [("decRunningApps", "event.Dst != Running")] ∧
    (∀ c ∈ Gen.appCallbacks, c.1 ≠ "enter_Running" → c.1 ≠ "leave_Running" →
        ∀ call ∈ c.2, call.1 ≠ "incRunningApps" ∧ call.1 ≠ "decRunningApps") ∧
    ("executeTerminatedCallback", "") ∈ callbackCalls "enter_Completed" ∧ ("cleanupAsks", "") ∈ callbackCalls "enter_Completed" ∧
    ("clearPlaceholderTimer", "") ∈ callbackCalls "enter_Completed" ∧
    ("executeTerminatedCallback", "") ∈ callbackCalls "enter_Failed" ∧ ("cleanupAsks", "") ∈ callbackCalls "enter_Failed" ∧
    callbackCalls "enter_Completing" = [("setStateTimer(completingTimeout,CompleteApplication)", "")] ∧
    callbackCalls "leave_state" = [("clearStateTimer", "")] := by decide

example : fire .completing .run = some .running ∧ fire .running .run = some .running ∧ fire .completed .run = none := by decide

/-! ### the state follows the ledger (stepped Core model, YkModel/CoreOps*.lean, compared with the real core line by line)

`CoreInv s` = `CoreWF ∧ Books ∧ Linked ∧ LifeInv`, `RunLifeOK`: every step meets `Op.ok2` and `Op.okLife`
(YkProofs/Core2LifeRun.lean). -/

/-- An ask that arrives at a Completing application moves it back to Running (and a New one to Accepted). -/
theorem ask_on_completing_runs (s : Core) (app key : String) (res : Res) (ph : Bool) (tg reqNode : String) (a : CApp)
    (hfind : s.findApp app = some a) (hst : a.state = "Completing")
    (hres : strictlyGreaterThanZero (some res) = true) (hnew : a.items.any (fun i => i.key == key && i.inReq) = false) :
    (s.ask app key res ph tg reqNode).2 = true ∧
    ∃ a', (s.ask app key res ph tg reqNode).1.findApp app = some a' ∧ a'.state = "Running" :=
  ask_completing_runs s app key res ph tg reqNode a hfind hst hres hnew

/-- An application with neither asks nor allocations does not stay Accepted / Running: when its last real allocation,
    its last placeholder (not a confirmed replacement: the real allocation follows) or its last ask goes it becomes
    Completing. -/
theorem idle_becomes_completing (tt : TermType) (key : String) (i x : CItem) (a : CApp)
    (hst : a.state = "Accepted" ∨ a.state = "Running") :
    (i.ph = false → isZero (some a.pending) = true → isZero (some (relAppT tt key i a).allocated) = true →
      (relAppT tt key i a).state = "Completing") ∧
    (i.ph = true → isZero (some (relAppT tt key i a).allocatedPh) = true → isZero (some a.pending) = true →
      isZero (some a.allocated) = true → (tt ≠ .replaced ∨ i.release = none) → (relAppT tt key i a).state = "Completing") ∧
    (isZero (some (askAppT key x a).pending) = true → isZero (some a.allocated) = true →
      (askAppT key x a).items.any (fun y => y.bound && y.ph) = false → (askAppT key x a).state = "Completing") :=
  ⟨fun h1 h2 h3 => (relAppT_idle_real tt key i a h1 h2 h3 hst).1,
   fun h1 h2 h3 h4 h5 => (relAppT_idle_ph tt key i a h1 h2 h3 h4 h5 hst).1,
   fun h1 h2 h3 => (askAppT_idle key x a h1 h2 h3 hst).1⟩

/-- Terminated applications leave the partition, and a Completed application holds no real allocation — along every
    history of the stepped model (also in the step that confirms a placeholder swap: fix 3b9e769). -/
theorem terminated_leave_and_completed_hold_nothing (s : Core) (ops : List Op) (h : CoreInv s) (hok : RunLifeOK s ops) :
    (∀ a ∈ (run s ops).apps, a.live = true → terminated a.state = false) ∧
    (∀ a ∈ (run s ops).apps, a.state = "Completed" → ∀ i ∈ a.items, i.bound = true → i.ph = true) ∧
    (∀ a ∈ (run s ops).apps, a.state = "Completed" → ∀ i ∈ a.items, i.bound = true → i.ph = false) :=
  let r := (reachable_life s ops h hok).life
  ⟨r.termGone, r.completedNoReal, fun a ha hst => r.noPhOrphan a ha (Or.inr (by rw [hst]; decide))⟩

/-- A Completing application holds no real allocation (a real allocation moves it back to Running). -/
theorem completing_holds_no_real_allocation (s : Core) (ops : List Op) (h : CoreInv s) (hok : RunLifeOK s ops) :
    ∀ a ∈ (run s ops).apps, a.live = true → a.state = "Completing" → ∀ i ∈ a.items, i.bound = true → i.ph = true :=
  (reachable_life s ops h hok).life.completingNoReal

/-- `_partial`: an application with outstanding asks is neither Completing nor Completed — along every history in which
    no node removal touches an application with a placeholder swap in flight (`RunNoRollback`: `NoRollback s id order` at
    every `nodeRemove`). -/
theorem outstanding_ask_not_completed_partial (s : Core) (ops : List Op) (h : CoreInv s) (hp : NoPendInv s)
    (hok : RunLifeOK s ops) (hnr : RunNoRollback s ops) :
    (∀ a ∈ (run s ops).apps, a.live = true → a.state = "Completing" → ∀ i ∈ a.items, i.outstanding = false) ∧
    (∀ a ∈ (run s ops).apps, a.state = "Completed" → ∀ i ∈ a.items, i.outstanding = false) :=
  let r := reachable_nopend s ops h hp hok hnr; ⟨r.completingNoPending, r.completedNoAsk⟩

/-- the full statement, without the restriction on node removals: NOT true of the code -/
def outstanding_ask_not_completed_full : Prop :=
  ∀ (s : Core) (ops : List Op), CoreInv s → NoPendInv s → RunLifeOK s ops → NoPendInv (run s ops)

/-- … refuted (KNOWN_FINDINGS C10.completing-with-pending-ask+swap-rolled-back-by-node-removal): a node is removed while a
    swap of the application is in flight on it; its real allocation on the node goes first (the application becomes
    Completing: the real ask of the swap counts as allocated), then the swap is rolled back (the ask is outstanding
    again, the application stays Completing); the state timer asks for the remaining placeholder back and its
    confirmation completes the application with the ask outstanding (`Example.exOpsC10b`). -/
theorem outstanding_ask_not_completed_full_refuted : ¬ outstanding_ask_not_completed_full :=
  fun h => Example.exC10b_not_noPend (h _ _ Example.coreInv_ex0 Example.noPendInv_ex0 Example.exOpsC10b_life)

/-- The state timer completes a Completing application without placeholders whatever its pending total: the step that
    turns the defect above into "Completed with an outstanding ask". -/
theorem state_timer_completes_regardless_of_asks (s : Core) (app : String) (a : CApp) (hw : CoreWF s)
    (hfind : s.findApp app = some a) (hst : a.state = "Completing") (hph : isZero (some a.allocatedPh) = true) :
    (s.stateTimeout app).findApp app = none ∧
    ∃ a' ∈ (s.stateTimeout app).apps, a'.id = app ∧ a'.live = false ∧ a'.state = "Completed" ∧ a'.pending = a.pending :=
  let ⟨h1, a', h2, h3, h4, h5, h6, _⟩ := stateTimeout_completes s app a hw hfind hst hph; ⟨h1, a', h2, h3, h4, h5, h6⟩

/-- non-vacuity: the example history `exOps` (placeholder bound, swapped, released, node removed) meets every side
    condition including `RunNoRollback`; the witness history meets all but that one: right before its node removal the
    application it touches has a swap in flight -/
example : CoreInv Example.ex0 ∧ NoPendInv Example.ex0 ∧ RunLifeOK Example.ex0 Example.exOps ∧
    RunNoRollback Example.ex0 Example.exOps ∧ RunLifeOK Example.ex0 Example.exOpsC10b ∧
    (∃ a, (run Example.ex0 (Example.exOpsC10b.take 11)).findApp "app" = some a ∧ a.state = "Running" ∧ a.pending = [] ∧
      ∃ i ∈ a.items, i.release ≠ none) :=
  ⟨Example.coreInv_ex0, Example.noPendInv_ex0, Example.exOps_life, Example.exOps_noRollback, Example.exOpsC10b_life,
   Example.exC10b_before⟩

end Yk.C10
