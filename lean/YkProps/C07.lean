/-
  C07 — Only eligible allocations are ever chosen as preemption victims.
  Property theorems only. Model: YkModel/Preempt.lean (mirrors findPreemptionFenceRoot, findEligiblePreemptionVictims,
  CheckPreconditions, TryPreemption, the required-node and the quota preemptor of pkg/scheduler/objects path by path);
  lemmas: YkProofs/Preempt.lean. Tie to the code: component `preempt` — harness/preempt.go runs the real functions on
  generated worlds, ykdrv compares every answer with this model and evaluates the clauses `C07.*`
  (`eligViolations`, the filters below) on what the implementation did.
  World hypotheses: `WF` = parents come before children in the queue list; `KeysUnique` = allocation keys identify
  allocations (Application.allocations is a map by key).
-/
import YkProofs.Preempt
namespace Yk.C07
open Yk Yk.Res Yk.Pre

/-- QUEUE PREEMPTION, eligibility. Every potential victim listed in a snapshot returned by
    FindEligiblePreemptionVictims is a bound allocation (`a ∈ w.allocs`, listed under its own leaf queue) that is not
    released, not already preempted and does not require a node; its queue is a leaf other than the asker's, inside
    the asker's preemption fence (a descendant of the fence root), with a preemption policy that is not `disabled`;
    it shares a resource type with the ask; and walking DOWN the tree path from the fence root to that leaf
    (`downPrio`: offsets subtracted, priority fences opening a subtree or blocking it) it does not outrank the ask
    unless a priority fence applies. -/
theorem queue_victims_eligible (w : World) (hw : WF w) (s : Snap) (k : String)
    (hs : s ∈ findEligible w) (hk : k ∈ s.victims) :
    ∃ a, a ∈ w.allocs ∧ a.key = k ∧ s.path = pathOf w a.q ∧
      a.released = false ∧ a.preempted = false ∧ a.req = false ∧
      (∃ q, w.queues[a.q]? = some q ∧ q.leaf = true ∧ q.ppol ≠ 2) ∧ a.q ≠ w.ask.q ∧
      (∃ fr pm, fenceRoot w = some (fr, pm) ∧ inSubtree w fr a.q = true ∧
        ∃ p fenced, downPrio w pm fr a.q = some (p, fenced) ∧ (fenced = true ∨ a.prio ≤ p)) ∧
      matchAny (some w.ask.res) (some a.res) false = true := by
  obtain ⟨a, ha, hak, hp, hv⟩ := findEligible_eligible w hw s k hs hk
  obtain ⟨_, h2, h3, h4, h5, h6, h7, h8⟩ := eligViolations_nil hv
  exact ⟨a, ha, hak, hp, h2, h3, h4, h5, h6, h7, h8⟩

/-- The executable clause list the driver evaluates on the implementation's victims is empty exactly under the
    conditions of `queue_victims_eligible` (so the monitor and the theorem speak about the same thing). -/
theorem clauses_mean (w : World) (a : PAlloc) (h : eligViolations w a = []) :
    a ∈ w.allocs ∧ a.released = false ∧ a.preempted = false ∧ a.req = false ∧
    (∃ q, w.queues[a.q]? = some q ∧ q.leaf = true ∧ q.ppol ≠ 2) ∧ a.q ≠ w.ask.q ∧
    (∃ fr pm, fenceRoot w = some (fr, pm) ∧ inSubtree w fr a.q = true ∧
      ∃ p fenced, downPrio w pm fr a.q = some (p, fenced) ∧ (fenced = true ∨ a.prio ≤ p)) ∧
    matchAny (some w.ask.res) (some a.res) false = true :=
  eligViolations_nil h

/-- INHERITANCE OF THE POLICY. The preemption policy UpdateQueueProperties derives from a queue's merged property
    texts (own texts over the filtered texts of the parent: mergeProperties / filterParentProperty) is `disabled`
    exactly when the NEAREST configured preemption.policy on the queue's path — the queue itself first — reads
    `disabled` in any spelling: `disabled` is handed down, every other value is not. -/
theorem disabled_policy_inherited (qs : List QConf) (i : Nat) (q : QConf) (hq : qs[i]? = some q) :
    (effSettings qs i).preempt = "disabled" ↔ inheritedDisabled qs i = true :=
  derived_disabled_iff qs i q hq

/-- ... hence, in a world whose queues carry the settings their configuration derives (`settingsDerived`, which the
    driver establishes by COMPUTING the settings from the configured texts and comparing them with what the real queues
    report), no potential victim lives below a queue configured `Disabled`/`DISABLED`/`disabled` unless a queue nearer
    to it configures another policy. -/
theorem victims_not_below_disabled (w : World) (hw : WF w) (hs : settingsDerived w = true) (s : Snap) (k : String)
    (hsn : s ∈ findEligible w) (hk : k ∈ s.victims) :
    ∃ a, a ∈ w.allocs ∧ a.key = k ∧ inheritedDisabled (confOf w) a.q = false := by
  obtain ⟨a, ha, hak, _, hv⟩ := findEligible_eligible w hw s k hsn hk
  obtain ⟨_, _, _, _, ⟨q, hq, _, hpol⟩, _⟩ := eligViolations_nil hv
  refine ⟨a, ha, hak, ?_⟩
  cases hd : inheritedDisabled (confOf w) a.q with
  | false => rfl
  | true => exact absurd (inherited_disabled_policy w hs a.q q hq hd) hpol

/-- CheckPreconditions says yes only for an ask that allows preempting others, has not triggered preemption yet,
    does not require a node, is at least as old as the preemption delay of its queue and was not checked within the
    last preemptAttemptFrequency. -/
theorem preconditions (ask : PAsk) (delay freq : Int) (checked : Option Int)
    (h : checkPreconditions ask delay freq checked = true) :
    ask.other = true ∧ ask.triggered = false ∧ ask.req = none ∧ delay ≤ ask.age ∧ (∀ c, checked = some c → freq ≤ c) :=
  checkPreconditions_true h

/-- QUEUE PREEMPTION, commit. Whatever TryPreemption (first-node rule) commits: every victim it marks was a potential
    victim and therefore satisfies every eligibility clause; the marked list is a sub-list of the collected victims
    (order kept — so nothing is marked twice when the collected list has no duplicates); and when the ask does not fit
    the free space of the chosen node all of them sit on that node. -/
theorem commit_only_eligible_victims (w : World) (hw : WF w) (hk : KeysUnique w) (nt : Bool) (r : TryResult)
    (h : tryPreemptionNoPlugin w nt = some r) :
    (∀ v ∈ r.victims, v ∈ potentialVictims w (findEligible w) ∧ eligViolations w v = []) ∧
    r.victims.Sublist r.collected ∧ (r.collected.Nodup → r.victims.Nodup) ∧
    (∀ n, w.nodes[r.ni]? = some n → fitInStd (some n.avail) (some w.ask.res) = false → ∀ v ∈ r.victims, v.node = r.ni) := by
  obtain ⟨hcoll, hsub, _, ⟨n, hn, _, _, hon, _, _⟩, _⟩ := tryPreemption_commits_potential h
  refine ⟨?_, hsub, fun hnd => hnd.sublist hsub, ?_⟩
  · intro v hv
    have := (hcoll v (hsub.subset hv)).1
    exact ⟨this, potentialVictim_eligible w hw hk v this⟩
  · intro n' hn' hfit
    rw [hn] at hn'; cases hn'
    exact hon hfit

/-- TryPreemption that returns no result marks nothing: in the model the marks ARE the result (definitional); on the
    implementation the clause C08.A1 (nothing marked, released or booked on abort) is evaluated on every run. -/
theorem abort_marks_nothing (w : World) (nt : Bool) (h : tryPreemptionNoPlugin w nt = none) :
    ((tryPreemptionNoPlugin w nt).map (fun r => r.victims)).getD [] = [] := by rw [h]; rfl

/-- REQUIRED-NODE PREEMPTION. Every victim is a bound allocation on the required node that does not outrank the ask,
    does not itself require a node, is neither released nor already preempted and shares a resource type with the ask. -/
theorem reqnode_victims (w : World) (ni : Nat) (avail : Res) (v : PAlloc)
    (h : v ∈ reqVictims w.ask.res avail (reqCandidates w ni)) :
    v ∈ w.allocs ∧ v.node = ni ∧ v.prio ≤ w.ask.prio ∧ v.req = false ∧ v.released = false ∧ v.preempted = false ∧
      matchAny (some w.ask.res) (some v.res) false = true := by
  have hm := reqCandidates_mem (reqVictims_subset _ _ _ v h)
  obtain ⟨h1, h2, h3, h4, h5, h6⟩ := reqFilter_true hm.2
  exact ⟨hm.1, h1, h3, h2, h6, h4, h5⟩

/-- QUOTA-CHANGE PREEMPTION, for EVERY order the (float valued) sort may put the candidates in: every selected victim
    is a bound allocation of the leaf queue that does not require a node, is neither released nor already preempted
    and shares a resource type with the amount planned for the leaf. -/
theorem quota_victims (w : World) (plan : Res) (leaf : Nat) (cands : List PAlloc)
    (hc : ∀ a ∈ cands, a ∈ w.allocs.filter (quotaFilter plan leaf)) (v : PAlloc) (h : v ∈ (quotaSelect plan cands).1) :
    v ∈ w.allocs ∧ v.q = leaf ∧ v.req = false ∧ v.released = false ∧ v.preempted = false ∧
      matchAny (some plan) (some v.res) false = true := by
  have hm := List.mem_filter.mp (hc v ((quotaSelect_spec plan cands).2.2 v h).1)
  obtain ⟨h1, h2, h3, h4, h5⟩ := quotaFilter_true hm.2
  exact ⟨hm.1, h1, h3, h4, h5, h2⟩

/-! ### non-vacuity -/

def exAsk : PAsk :=
  { key := "a", app := "x", q := 1, res := [("cpu", 1)], prio := 0, other := true, self := true, req := none, age := 40,
    triggered := false }
example : checkPreconditions exAsk 30 15 none = true := by decide
example : checkPreconditions exAsk 60 15 none = false := by decide

def exQ (path : String) (parent : Option Nat) (leaf : Bool) (g : ORes) (prFence : Bool) (off : Int) : PQ :=
  { path := path, parent := parent, leaf := leaf, max := none, effMax := none, guar := g, ppol := 0, prFence := prFence,
    off := off, delay := 30, managed := true }
def exA (k : String) (q : Nat) (prio : Int) : PAlloc :=
  { key := k, app := "b", q := q, node := 0, res := [("cpu", 2)], prio := prio, released := false, preempted := false,
    req := false, ph := false, self := true, orig := false, ct := 2 }
/-- root → {a (asker, guaranteed), b (offset 2), c (priority fence)}: an ask of priority 3 may take priority ≤ 1 from b
    (3 - 2) and anything from the fenced c -/
def exWorld : World :=
  { queues := [exQ "root" none false none false 0, exQ "root.a" (some 0) true (some [("cpu", 10)]) false 0,
               exQ "root.b" (some 0) true none false 2, exQ "root.c" (some 0) true none true 0],
    nodes := [{ id := "n0", cap := [("cpu", 8)], avail := [("cpu", 0)], sched := true }],
    allocs := [exA "b1" 2 1, exA "b2" 2 2, exA "c9" 3 9],
    ask := { exAsk with res := [("cpu", 2)], prio := 3 } }
example : (findEligible exWorld).map (fun s => (s.path, s.victims)) =
    [("root", []), ("root.a", []), ("root.b", ["b1"]), ("root.c", ["c9"])] := by decide
example : downPrio exWorld [(0, 3), (1, 3)] 0 2 = some (1, false) ∧ downPrio exWorld [(0, 3), (1, 3)] 0 3 = some (3, true) := by decide

/-- a parent configured `Disabled` hands the policy down to a child without own policy, not to one that says `default` -/
example : inheritedDisabled [{ parent := none, leaf := false, own := [] }, { parent := some 0, leaf := false, own := [("preemption.policy", "Disabled")] },
    { parent := some 1, leaf := true, own := [] }, { parent := some 1, leaf := true, own := [("preemption.policy", "default")] }] 2 = true ∧
  (effSettings [{ parent := none, leaf := false, own := [] }, { parent := some 0, leaf := false, own := [("preemption.policy", "Disabled")] },
    { parent := some 1, leaf := true, own := [] }, { parent := some 1, leaf := true, own := [("preemption.policy", "default")] }] 3).preempt = "default" := by decide

end Yk.C07
