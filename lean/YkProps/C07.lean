/-
  C07 — Only eligible allocations are ever chosen as preemption victims.
  Property theorems only. Model: YkModel/Preempt.lean (mirrors findPreemptionFenceRoot, findEligiblePreemptionVictims,
  CheckPreconditions, TryPreemption, the required-node and the quota preemptor of pkg/scheduler/objects path by path);
  lemmas: YkProofs/Preempt.lean. Tie to the code: component `preempt` — harness/preempt.go runs the real functions on
  generated worlds, ykdrv compares every answer with this model and evaluates the clauses `C07.*`
  (`eligViolations`, the filters below) on what the implementation did.
  World hypotheses: `WF` = parents come before children in the queue list; `KeysUnique` = allocation keys identify
  allocations (Application.allocations is a map by key).
-/
import YkProofs.Preempt
namespace Yk.C07
open Yk Yk.Res Yk.Pre

/-- QUEUE PREEMPTION, eligibility. Every potential victim listed in a snapshot returned by
    FindEligiblePreemptionVictims is a bound allocation (`a ∈ w.allocs`, listed under its own leaf queue) that is not
    released, not already preempted and does not require a node; its queue is a leaf other than the asker's, inside
    the asker's preemption fence (a descendant of the fence root), with a preemption policy that is not `disabled`;
    it shares a resource type with the ask; and walking DOWN the tree path from the fence root to that leaf
    (`downPrio`: offsets subtracted, priority fences opening a subtree or blocking it) it does not outrank the ask
    unless a priority fence applies. -/
theorem queue_victims_eligible (w : World) (hw : WF w) (s : Snap) (k : String)
    (hs : s ∈ findEligible w) (hk : k ∈ s.victims) :
    ∃ a, a ∈ w.allocs ∧ a.key = k ∧ s.path = pathOf w a.q ∧
      a.released = false ∧ a.preempted = false ∧ a.req = false ∧
      (∃ q, w.queues[a.q]? = some q ∧ q.leaf = true ∧ q.ppol ≠ 2) ∧ a.q ≠ w.ask.q ∧
      (∃ fr pm, fenceRoot w = some (fr, pm) ∧ inSubtree w fr a.q = true ∧
        ∃ p fenced, downPrio w pm fr a.q = some (p, fenced) ∧ (fenced = true ∨ a.prio ≤ p)) ∧
      matchAny (some w.ask.res) (some a.res) false = true := by
  obtain ⟨a, ha, hak, hp, hv⟩ := findEligible_eligible w hw s k hs hk
  obtain ⟨_, h2, h3, h4, h5, h6, h7, h8⟩ := eligViolations_nil hv
  exact ⟨a, ha, hak, hp, h2, h3, h4, h5, h6, h7, h8⟩

/-- The executable clause list the driver evaluates on the implementation's victims is empty exactly under the
    conditions of `queue_victims_eligible` (so the monitor and the theorem speak about the same thing). -/
theorem clauses_mean (w : World) (a : PAlloc) (h : eligViolations w a = []) :
    a ∈ w.allocs ∧ a.released = false ∧ a.preempted = false ∧ a.req = false ∧
    (∃ q, w.queues[a.q]? = some q ∧ q.leaf = true ∧ q.ppol ≠ 2) ∧ a.q ≠ w.ask.q ∧
    (∃ fr pm, fenceRoot w = some (fr, pm) ∧ inSubtree w fr a.q = true ∧
      ∃ p fenced, downPrio w pm fr a.q = some (p, fenced) ∧ (fenced = true ∨ a.prio ≤ p)) ∧
    matchAny (some w.ask.res) (some a.res) false = true :=
  eligViolations_nil h

/-- INHERITANCE OF THE POLICY. The preemption policy UpdateQueueProperties derives from a queue's merged property
    texts (own texts over the filtered texts of the parent: mergeProperties / filterParentProperty) is `disabled`
    exactly when the NEAREST configured preemption.policy on the queue's path — the queue itself first — reads
    `disabled` in any spelling: `disabled` is handed down, every other value is not. -/
theorem disabled_policy_inherited (qs : List QConf) (i : Nat) (q : QConf) (hq : qs[i]? = some q) :
    (effSettings qs i).preempt = "disabled" ↔ inheritedDisabled qs i = true :=
  derived_disabled_iff qs i q hq

/-- ... hence, in a world whose queues carry the settings their configuration derives (`settingsDerived`, which the
    driver establishes by COMPUTING the settings from the configured texts and comparing them with what the real queues
    report), no potential victim lives below a queue configured `Disabled`/`DISABLED`/`disabled` unless a queue nearer
    to it configures another policy. -/
theorem victims_not_below_disabled (w : World) (hw : WF w) (hs : settingsDerived w = true) (s : Snap) (k : String)
    (hsn : s ∈ findEligible w) (hk : k ∈ s.victims) :
    ∃ a, a ∈ w.allocs ∧ a.key = k ∧ inheritedDisabled (confOf w) a.q = false := by
  obtain ⟨a, ha, hak, _, hv⟩ := findEligible_eligible w hw s k hsn hk
  obtain ⟨_, _, _, _, ⟨q, hq, _, hpol⟩, _⟩ := eligViolations_nil hv
  refine ⟨a, ha, hak, ?_⟩
  cases hd : inheritedDisabled (confOf w) a.q with
  | false => rfl
  | true => exact absurd (inherited_disabled_policy w hs a.q q hq hd) hpol

/-- CheckPreconditions says yes only for an ask that allows preempting others, has not triggered preemption yet,
    does not require a node, is at least as old as the preemption delay of its queue and was not checked within the
    last preemptAttemptFrequency. -/
theorem preconditions (ask : PAsk) (delay freq : Int) (checked : Option Int)
    (h : checkPreconditions ask delay freq checked = true) :
    ask.other = true ∧ ask.triggered = false ∧ ask.req = none ∧ delay ≤ ask.age ∧ (∀ c, checked = some c → freq ≤ c) :=
  checkPreconditions_true h

/-- QUEUE PREEMPTION, commit. Whatever TryPreemption (first-node rule) commits: every victim it marks was a potential
    victim and therefore satisfies every eligibility clause; the marked list is a sub-list of the collected victims
    (order kept — so nothing is marked twice when the collected list has no duplicates); and when the ask does not fit
    the free space of the chosen node all of them sit on that node. -/
theorem commit_only_eligible_victims (w : World) (hw : WF w) (hk : KeysUnique w) (nt : Bool) (r : TryResult)
    (h : tryPreemptionNoPlugin w nt = some r) :
    (∀ v ∈ r.victims, v ∈ potentialVictims w (findEligible w) ∧ eligViolations w v = []) ∧
    r.victims.Sublist r.collected ∧ (r.collected.Nodup → r.victims.Nodup) ∧
    (∀ n, w.nodes[r.ni]? = some n → fitInStd (some n.avail) (some w.ask.res) = false → ∀ v ∈ r.victims, v.node = r.ni) := by
  obtain ⟨hcoll, hsub, _, ⟨n, hn, _, _, hon, _, _⟩, _⟩ := tryPreemption_commits_potential h
  refine ⟨?_, hsub, fun hnd => hnd.sublist hsub, ?_⟩
  · intro v hv
    have := (hcoll v (hsub.subset hv)).1
    exact ⟨this, potentialVictim_eligible w hw hk v this⟩
  · intro n' hn' hfit
    rw [hn] at hn'; cases hn'
    exact hon hfit

/-- TryPreemption that returns no result marks nothing: in the model the marks ARE the result (definitional); on the
    implementation the clause C08.A1 (nothing marked, released or booked on abort) is evaluated on every run. -/
theorem abort_marks_nothing (w : World) (nt : Bool) (h : tryPreemptionNoPlugin w nt = none) :
    ((tryPreemptionNoPlugin w nt).map (fun r => r.victims)).getD [] = [] := by rw [h]; rfl

/-- QUEUE PREEMPTION, a victim released in the meantime (the rollback of the marking loop). `late` names the
    allocations that were released (placeholder replaced / timed out: SetReleased(true)) between the victim collection
    and the moment TryPreemption marks its final victims; `tryPreemptionLate` is the modelled TryPreemption (first-node
    rule) including that loop as written (MarkPreempted in order; on the first released victim MarkUnPreempted on all
    marked so far, failure logged, attempt abandoned). For every world and every `late`:
    (1) if marking fails on some final victim the attempt is abandoned, "victims released" is logged and the ask has
        not triggered preemption;
    (2) however an attempt is abandoned, every allocation that is marked preempted afterwards was marked before the
        attempt already (`a ∈ w.allocs` with `a.preempted`): an abandoned attempt leaves no victim marked;
    (3) when it commits, no final victim was released, the ask has triggered preemption, and the allocations are those
        of the world (with the late releases) with the flag set on exactly the final victims. -/
theorem abandoned_attempt_leaves_no_mark (w : World) (nt : Bool) (late : List String) :
    (∀ r, tryPreemptionNoPlugin w nt = some r →
      (∃ v ∈ r.victims, isReleased (releaseLate late w.allocs) v.key = true) →
      (tryPreemptionLate w nt late).result = none ∧ (tryPreemptionLate w nt late).released = true ∧
      (tryPreemptionLate w nt late).triggered = w.ask.triggered) ∧
    ((tryPreemptionLate w nt late).result = none →
      (tryPreemptionLate w nt late).triggered = w.ask.triggered ∧
      ∀ a ∈ (tryPreemptionLate w nt late).allocs, a.preempted = true → a ∈ w.allocs) ∧
    (∀ r, (tryPreemptionLate w nt late).result = some r →
      tryPreemptionNoPlugin w nt = some r ∧
      (∀ v ∈ r.victims, isReleased (releaseLate late w.allocs) v.key = false) ∧
      (tryPreemptionLate w nt late).released = false ∧ (tryPreemptionLate w nt late).triggered = true ∧
      (tryPreemptionLate w nt late).allocs = markMap (r.victims.map (·.key)) true (releaseLate late w.allocs)) :=
  tryPreemptionLate_spec w nt late

/-- The same for the end of TryPreemption after ANY choice of node and victims (`finishTry`, which the driver also runs
    on the answers of a predicate plugin): a released final victim means abandoned + logged + trigger flag untouched +
    nothing newly marked (the flags cleared belong to a prefix of the final victims); no released final victim means
    committed with exactly the final victims marked. -/
theorem marking_rolls_back_or_marks_final_victims (w : World) (late : List String) (r : TryResult) :
    ((∃ v ∈ r.victims, isReleased (releaseLate late w.allocs) v.key = true) →
      (finishTry w late (some r)).result = none ∧ (finishTry w late (some r)).released = true ∧
      (finishTry w late (some r)).triggered = w.ask.triggered ∧
      (∃ un, un <+: r.victims.map (·.key) ∧
        (finishTry w late (some r)).allocs = markMap un false (releaseLate late w.allocs)) ∧
      ∀ a ∈ (finishTry w late (some r)).allocs, a.preempted = true → a ∈ w.allocs) ∧
    ((∀ v ∈ r.victims, isReleased (releaseLate late w.allocs) v.key = false) →
      (finishTry w late (some r)).result = some r ∧ (finishTry w late (some r)).released = false ∧
      (finishTry w late (some r)).triggered = true ∧
      (finishTry w late (some r)).allocs = markMap (r.victims.map (·.key)) true (releaseLate late w.allocs)) :=
  finishTry_some w late r

/-- ... and in a world with unique allocation keys (final victims are then unmarked allocations of the world) an
    abandoned attempt restores EVERY flag: the allocations are exactly what the late releases left behind, and the
    preempting resource of every queue is what it was. -/
theorem abandoned_attempt_restores_every_flag (w : World) (hw : WF w) (hk : KeysUnique w) (nt : Bool) (late : List String)
    (h : (tryPreemptionLate w nt late).result = none) :
    (tryPreemptionLate w nt late).allocs = releaseLate late w.allocs ∧
    ∀ i, preemptingOf { w with allocs := (tryPreemptionLate w nt late).allocs } i = preemptingOf w i :=
  tryPreemptionLate_abandoned_restores w hw hk nt late h

/-- REQUIRED-NODE PREEMPTION. Every victim is a bound allocation on the required node that does not outrank the ask,
    does not itself require a node, is neither released nor already preempted and shares a resource type with the ask. -/
theorem reqnode_victims (w : World) (ni : Nat) (avail : Res) (v : PAlloc)
    (h : v ∈ reqVictims w.ask.res avail (reqCandidates w ni)) :
    v ∈ w.allocs ∧ v.node = ni ∧ v.prio ≤ w.ask.prio ∧ v.req = false ∧ v.released = false ∧ v.preempted = false ∧
      matchAny (some w.ask.res) (some v.res) false = true := by
  have hm := reqCandidates_mem (reqVictims_subset _ _ _ v h)
  obtain ⟨h1, h2, h3, h4, h5, h6⟩ := reqFilter_true hm.2
  exact ⟨hm.1, h1, h3, h2, h6, h4, h5⟩

/-- QUOTA-CHANGE PREEMPTION, for EVERY order the (float valued) sort may put the candidates in: every selected victim
    is a bound allocation of the leaf queue that does not require a node, is neither released nor already preempted
    and shares a resource type with the amount planned for the leaf. -/
theorem quota_victims (w : World) (plan : Res) (leaf : Nat) (cands : List PAlloc)
    (hc : ∀ a ∈ cands, a ∈ w.allocs.filter (quotaFilter plan leaf)) (v : PAlloc) (h : v ∈ (quotaSelect plan cands).1) :
    v ∈ w.allocs ∧ v.q = leaf ∧ v.req = false ∧ v.released = false ∧ v.preempted = false ∧
      matchAny (some plan) (some v.res) false = true := by
  have hm := List.mem_filter.mp (hc v ((quotaSelect_spec plan cands).2.2 v h).1)
  obtain ⟨h1, h2, h3, h4, h5⟩ := quotaFilter_true hm.2
  exact ⟨hm.1, h1, h3, h4, h5, h2⟩

/-! ### non-vacuity -/

def exAsk : PAsk :=
  { key := "a", app := "x", q := 1, res := [("cpu", 1)], prio := 0, other := true, self := true, req := none, age := 40,
    triggered := false }
example : checkPreconditions exAsk 30 15 none = true := by decide
example : checkPreconditions exAsk 60 15 none = false := by decide

def exQ (path : String) (parent : Option Nat) (leaf : Bool) (g : ORes) (prFence : Bool) (off : Int) : PQ :=
  { path := path, parent := parent, leaf := leaf, max := none, effMax := none, guar := g, ppol := 0, prFence := prFence,
    off := off, delay := 30, managed := true }
def exA (k : String) (q : Nat) (prio : Int) : PAlloc :=
  { key := k, app := "b", q := q, node := 0, res := [("cpu", 2)], prio := prio, released := false, preempted := false,
    req := false, ph := false, self := true, orig := false, ct := 2 }
/-- root → {a (asker, guaranteed), b (offset 2), c (priority fence)}: an ask of priority 3 may take priority ≤ 1 from b
    (3 - 2) and anything from the fenced c -/
def exWorld : World :=
  { queues := [exQ "root" none false none false 0, exQ "root.a" (some 0) true (some [("cpu", 10)]) false 0,
               exQ "root.b" (some 0) true none false 2, exQ "root.c" (some 0) true none true 0],
    nodes := [{ id := "n0", cap := [("cpu", 8)], avail := [("cpu", 0)], sched := true }],
    allocs := [exA "b1" 2 1, exA "b2" 2 2, exA "c9" 3 9],
    ask := { exAsk with res := [("cpu", 2)], prio := 3 } }
example : (findEligible exWorld).map (fun s => (s.path, s.victims)) =
    [("root", []), ("root.a", []), ("root.b", ["b1"]), ("root.c", ["c9"])] := by decide
example : downPrio exWorld [(0, 3), (1, 3)] 0 2 = some (1, false) ∧ downPrio exWorld [(0, 3), (1, 3)] 0 3 = some (3, true) := by decide

/-- a parent configured `Disabled` hands the policy down to a child without own policy, not to one that says `default` -/
example : inheritedDisabled [{ parent := none, leaf := false, own := [] }, { parent := some 0, leaf := false, own := [("preemption.policy", "Disabled")] },
    { parent := some 1, leaf := true, own := [] }, { parent := some 1, leaf := true, own := [("preemption.policy", "default")] }] 2 = true ∧
  (effSettings [{ parent := none, leaf := false, own := [] }, { parent := some 0, leaf := false, own := [("preemption.policy", "Disabled")] },
    { parent := some 1, leaf := true, own := [] }, { parent := some 1, leaf := true, own := [("preemption.policy", "default")] }] 3).preempt = "default" := by decide

/-- rollback world: root → {a (asker, guaranteed cpu 12), b}; b holds v1 (newest), v2, v3 of cpu 4 each on the full node
    n0; an ask of cpu 10 needs all three: the final victims are [v1, v2, v3] in that order -/
def rbA (k : String) (ct : Int) : PAlloc :=
  { key := k, app := "b", q := 2, node := 0, res := [("cpu", 4)], prio := 0, released := false, preempted := false,
    req := false, ph := false, self := true, orig := false, ct := ct }
def rbWorld : World :=
  { queues := [exQ "root" none false none false 0, exQ "root.a" (some 0) true (some [("cpu", 12)]) false 0,
               exQ "root.b" (some 0) true none false 0],
    nodes := [{ id := "n0", cap := [("cpu", 12)], avail := [("cpu", 0)], sched := true }],
    allocs := [rbA "v1" 2, rbA "v2" 4, rbA "v3" 6],
    ask := { exAsk with res := [("cpu", 10)], prio := 3 } }
/-- undisturbed: commits, exactly v1 v2 v3 marked, the ask has triggered preemption -/
example : (tryPreemptionLate rbWorld false []).result.map (fun r => r.victims.map (·.key)) = some ["v1", "v2", "v3"] ∧
    markedKeys (tryPreemptionLate rbWorld false []).allocs = ["v1", "v2", "v3"] ∧
    (tryPreemptionLate rbWorld false []).triggered = true := by decide
/-- v2 (second of the final victims) released after the victims were collected: v1 is marked, marking v2 fails, v1 is
    un-marked again; abandoned, logged, not triggered, nothing marked, preempting of root.b still empty -/
example : (tryPreemptionLate rbWorld false ["v2"]).result.isNone = true ∧
    (tryPreemptionLate rbWorld false ["v2"]).released = true ∧
    (tryPreemptionLate rbWorld false ["v2"]).triggered = false ∧
    markedKeys (tryPreemptionLate rbWorld false ["v2"]).allocs = [] ∧
    ((tryPreemptionLate rbWorld false ["v2"]).allocs.filter (·.released)).map (·.key) = ["v2"] ∧
    preemptingOf { rbWorld with allocs := (tryPreemptionLate rbWorld false ["v2"]).allocs } 2 = [] := by decide
/-- the loop really marks before it un-marks: stopped at v3 it has v1 and v2 to take back -/
example : markedKeys (markLoop (releaseLate ["v3"] rbWorld.allocs) [] ["v1", "v2"]).1 = ["v1", "v2"] := by decide
example : markedKeys (markLoop (releaseLate ["v3"] rbWorld.allocs) [] ["v1", "v2", "v3"]).1 = [] ∧
    (markLoop (releaseLate ["v3"] rbWorld.allocs) [] ["v1", "v2", "v3"]).2 = false := by decide
/-- a late release of an allocation that is already marked preempted is refused (SetReleased fails) -/
example : releaseLate ["x"] [{ rbA "x" 2 with preempted := true }] = [{ rbA "x" 2 with preempted := true }] := by decide

end Yk.C07
