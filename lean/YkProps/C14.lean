/-
  C14 — concurrency: the clause a theorem can carry is "no lock-order inversion, hence no deadlock of the lock
  discipline". (Data races, goroutine leaks and the settled-state clause are properties of the Go runtime / of whole
  executions; they are covered by replays and the thorough tier's stress run as evidence only.)

  What is proved, over the table `Yk.Gen.LockOrder.edges` that translator T4 (extract/lockorder.go) REGENERATES from the
  current source on every run (held ⟶ acquired between lock classes, interprocedural, one witness chain per edge):

    1. `lock_order_ranked`      there is a rank of the lock classes (Queue instances: child before parent) such that
                                every edge of the table outside the documented exclusion list goes strictly upwards
                                (`in_scope_iff`: there is no known finding left, the scope is "not excluded");
    2. `Yk.Lock.deadlock_free`  (YkProofs/Lock.lean) generic: a lock machine with RWMutex semantics incl. writer
                                preference whose threads acquire in strictly increasing rank has no wait-for cycle,
                                no deadlocked set and is never stuck, for any number of threads and locks;
    3. `deadlock_free_of_table` 1 + 2: threads whose (held, acquired) pairs are all covered by in-scope edges of the
                                table never deadlock.
  The hazards the discipline rules out are deadlocks of the machine (`relock_is_a_deadlock`, `recursive_rlock_is_modelled`).
  History: the table of the original tree contained ClusterContext ⟶ ClusterContext (partition removal under cc.Lock),
  which no rank can order; it was replayed on the real code and repaired (d47df11); the replay stays as a regression
  scenario of `harness -c lock`. A new call under a lock that creates an unrankable edge makes `table_ranked` fail; the
  driver then names the edge and its witness chain (class C14.unranked-edge…).
-/
import YkModel.LockPolicy
import YkProofs.Lock
namespace Yk.C14
open Yk.Gen.LockOrder Yk.LockPolicy Yk.Lock

/-! ### the regenerated table against the hand-written policy -/

set_option maxRecDepth 100000 in
/-- every lock class the translator found in the source has a rank -/
theorem classes_ranked : unknownClasses = [] := by decide

/-- the translator's own assumptions hold on the current source: no function returns while holding a lock it took
    (locks are released in the function that takes them), and every Lock/RLock call was attributed to a class -/
theorem translator_assumptions : leaks = [] ∧ unresolved = [] := by decide

set_option maxRecDepth 100000 in
/-- **Rank theorem (table form).** Every edge of the regenerated table that is not a known finding or a documented
    exclusion respects the rank: class rank strictly increasing, or Queue ⟶ ancestor Queue. -/
theorem table_ranked : ∀ e ∈ edges, inScope e = true → rankOK e = true := by decide

/-- the scope of the rank theorem is exactly "not on the exclusion list": no known finding is left out -/
theorem in_scope_iff (e : Edge) : inScope e = true ↔ isExcluded e = false := by
  simp [inScope, isKnownBad, knownBad]

/-- **Rank theorem.** Some rank orders every edge of the regenerated table outside the documented exclusions. -/
theorem lock_order_ranked :
    ∃ r : Cls → Nat, ∀ e ∈ edges, inScope e = true → r e.held < r e.acq ∨ (e.held = e.acq ∧ e.rel = .up) := by
  refine ⟨rank, fun e he hs => ?_⟩
  have h := table_ranked e he hs
  simp only [rankOK, Bool.or_eq_true, Bool.and_eq_true, decide_eq_true_eq, beq_iff_eq] at h
  rcases h with h | ⟨⟨h1, h2⟩, _⟩
  · exact Or.inl h
  · exact Or.inr ⟨h1, h2⟩

/-- what is left out of the rank theorem is exactly what the exclusion patterns match -/
theorem out_of_scope_iff (e : Edge) : inScope e = false ↔ isExcluded e = true := by
  cases h : isExcluded e <;> simp [inScope, isKnownBad, knownBad, h]

/-! ### from the table to lock instances and the lock machine -/

/-- a lock instance: its class, its depth in the tree of its class (queues; 0 elsewhere) and an identity -/
structure Inst where
  cls : Cls
  depth : Nat
  id : Nat
  deriving DecidableEq

/-- rank of an instance for trees of depth ≤ D: class rank first, then deeper = lower -/
def irank (D : Nat) (i : Inst) : Nat := rank i.cls * (D + 1) + (D - i.depth)

/-- what an edge of the table says about a pair (held instance, acquired instance): the classes, and for an `up`
    edge that the acquired queue is a proper ancestor of the held one (the translator emits `up` only when the
    acquired object is reached through `.parent` from the held one) -/
def Sem (e : Edge) (h a : Inst) : Prop :=
  e.held = h.cls ∧ e.acq = a.cls ∧ (e.rel = .up → a.depth < h.depth)

instance (e : Edge) (h a : Inst) : Decidable (Sem e h a) := by unfold Sem; exact inferInstance

/-- a thread follows the table: whenever it asks for a lock, every lock it holds is paired with the new one by an
    in-scope edge of the table -/
def Follows (D : Nat) (H : List (Inst × Mode)) (a : Inst) (_ : Mode) : Prop :=
  a.depth ≤ D ∧ ∀ p ∈ H, p.1.depth ≤ D ∧ ∃ e ∈ edges, inScope e = true ∧ Sem e p.1 a

/-- following the table implies the rank discipline of the generic theorem -/
theorem follows_ordered (D : Nat) : Ordered (irank D) (Follows D) := by
  intro H a m hf p hp
  obtain ⟨haD, hall⟩ := hf
  obtain ⟨hpD, e, he, hs, hh, hacq, hup⟩ := hall p hp
  have h := table_ranked e he hs
  simp only [rankOK, Bool.or_eq_true, Bool.and_eq_true, decide_eq_true_eq, beq_iff_eq] at h
  unfold irank
  rcases h with h | ⟨⟨h1, h2⟩, _⟩
  · rw [hh, hacq] at h
    have h1 : (rank p.1.cls + 1) * (D + 1) ≤ rank a.cls * (D + 1) := Nat.mul_le_mul_right _ h
    rw [Nat.succ_mul] at h1
    generalize rank p.1.cls * (D + 1) = A at *
    generalize rank a.cls * (D + 1) = B at *
    omega
  · have hlt := hup h2
    have hc : p.1.cls = a.cls := by rw [← hh, ← hacq, h1]
    rw [hc]
    omega

/-- **Deadlock freedom of the lock discipline.** In every reachable state of the lock machine whose threads
    follow the in-scope part of the regenerated table (any number of threads, any number of instances per class, trees
    of any bounded depth D): no wait-for cycle, no deadlocked set, and never stuck while somebody waits. -/
theorem deadlock_free_of_table (D : Nat) {s : State Inst} (hr : Reach (Follows D) s) :
    ¬ Cycle s ∧ ¬ Deadlocked s ∧ ((∃ t, s.want t ≠ none) → ∃ t, Grantable s t ∨ RunningHolder s t) :=
  deadlock_free (follows_ordered D) hr

/-- machine fact (generic): a thread that holds a lock for writing and asks for the same instance again waits for
    itself — the shape of the repaired ClusterContext self edge; such an edge can never pass `table_ranked` -/
theorem relock_is_a_deadlock (s : State Inst) (t : Tid) (i : Inst) (m : Mode)
    (hh : (i, Mode.W) ∈ s.held t) (hw : s.want t = some (i, m)) : Cycle s :=
  relock_self_deadlock s t i m hh hw

/-- no rank can order an edge from a class to itself whose instances are not parent/child: should the translator find
    one again (as ClusterContext ⟶ ClusterContext before d47df11) the rank theorem fails whatever the rank table says -/
theorem self_edge_never_ranked (r : Cls → Nat) (e : Edge) (h1 : e.held = e.acq) (h2 : e.rel ≠ .up) :
    ¬ (r e.held < r e.acq ∨ (e.held = e.acq ∧ e.rel = .up)) := by
  rintro (h | ⟨_, h⟩)
  · rw [h1] at h
    exact Nat.lt_irrefl _ h
  · exact h2 h

/-- the hazard of recursive read locks is in the model: without a discipline a reachable state has a wait-for cycle
    made of one thread re-entering RLock and one waiting writer -/
theorem recursive_rlock_is_modelled : ∃ s : State Nat, Reach (fun _ _ _ => True) s ∧ Cycle s :=
  recursive_rlock_reachable

/-! ### non-vacuity -/

set_option maxRecDepth 100000 in
/-- the table is not empty and most of it is in scope -/
example : edges.length > 100 ∧ (edges.filter inScope).length > 100 := by decide

set_option maxRecDepth 100000 in
/-- `Follows` is satisfiable where it should be: holding a queue at depth 2 (write), its parent at depth 1 may be taken -/
example : Follows 3 [(⟨.objects_Queue, 2, 7⟩, .W)] ⟨.objects_Queue, 1, 3⟩ .W := by
  refine ⟨by decide, ?_⟩
  intro p hp
  simp only [List.mem_singleton] at hp
  subst hp
  exact ⟨by decide, by decide⟩

/-- …and refuses the reverse order: holding the parent, the child is not covered by any in-scope edge -/
example : ¬ Follows 3 [(⟨.objects_Queue, 1, 3⟩, .W)] ⟨.objects_Queue, 2, 7⟩ .W := by
  rintro ⟨_, h⟩
  obtain ⟨_, e, he, hs, hh, hacq, hup⟩ := h _ (List.mem_singleton.mpr rfl)
  have hr := table_ranked e he hs
  simp only [rankOK, Bool.or_eq_true, Bool.and_eq_true, decide_eq_true_eq, beq_iff_eq] at hr
  rcases hr with hr | ⟨⟨_, h2⟩, _⟩
  · rw [hh, hacq] at hr
    exact Nat.lt_irrefl _ hr
  · have := hup h2
    simp at this

/-- an application lock may be followed by a node lock, not the other way round -/
example : rank .objects_Application < rank .objects_Node ∧ rank .scheduler_PartitionContext < rank .objects_Application ∧
    rank .objects_Node < rank .objects_Queue := by decide

end Yk.C14
