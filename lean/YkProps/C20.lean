/-
  C20 — Event history returns exactly the requested, gap-free range.
  Property theorems only.  `Ring` is the field-for-field model of eventRingBuffer, `Hist` the abstract
  specification (the list of all events ever added; ids [lowest, length) available).
-/
import YkProofs.Ring
import YkProofs.Stream
namespace Yk.C20
open Yk

/-- every run of adds and resizes (capacity > 0, as getRingBufferCapacity guarantees) -/
def run (cap : Nat) (ops : List RingOp) : Ring × Hist :=
  (ops.foldl Ring.step (Ring.new cap), ops.foldl Hist.step (Hist.new cap))

def validOps (ops : List RingOp) : Prop := ∀ n, RingOp.resize n ∈ ops → 0 < n

/-- Every recorded event gets the next consecutive id; the buffer and the specification agree on the id
    counter, the lowest available id and the capacity after every history. -/
theorem ids_consecutive (cap : Nat) (hc : 0 < cap) (ops : List RingOp) (hv : validOps ops) :
    (run cap ops).1.id = (run cap ops).2.all.length ∧
    (run cap ops).1.lowestId = (run cap ops).2.lowest ∧
    (run cap ops).1.capacity = (run cap ops).2.cap := by
  have h := ring_rel_run cap hc ops hv
  exact ⟨h.id_eq, h.lowest_eq, h.cap_eq⟩

/-- The history always holds the most recent events up to its capacity, also across resizes:
    the available ids are a suffix of all ids, never more than the capacity, and an `add` or `resize`
    drops only what exceeds the capacity in force. -/
theorem holds_most_recent (cap : Nat) (hc : 0 < cap) (ops : List RingOp) (hv : validOps ops) :
    let h := (run cap ops).2
    h.lowest ≤ h.all.length ∧ h.all.length - h.lowest ≤ h.cap ∧
    (∀ ev, (h.add ev).all.length - (h.add ev).lowest = min (h.all.length - h.lowest + 1) h.cap) ∧
    (∀ n, 0 < n → (h.resize n).all.length - (h.resize n).lowest = min (h.all.length - h.lowest) n) :=
  hist_window cap hc ops hv

/-- A query (start, count) on the buffer returns exactly what the specification says: nothing plus the
    available id range when start is outside it, otherwise the events start, start+1, … up to
    min(count, capacity) or the newest, in id order without gaps or repeats. -/
theorem get_refines (cap : Nat) (hc : 0 < cap) (ops : List RingOp) (hv : validOps ops) (start count : Nat) :
    (run cap ops).1.getEventsFromID start count =
      (((run cap ops).2.get start count).1.map some, ((run cap ops).2.get start count).2) :=
  ring_get_refines (ring_rel_run cap hc ops hv) start count

/-- the specification answer is gap-free: element i is the event with id start+i -/
theorem spec_get_gap_free (h : Hist) (start count i : Nat) (hi : i < (h.get start count).1.length) :
    (h.get start count).1[i]? = h.all[start + i]? :=
  hist_get_index h start count i hi

/-- GetRecentEvents returns the last min(count, available) events -/
theorem recent_refines (cap : Nat) (hc : 0 < cap) (ops : List RingOp) (hv : validOps ops) (count : Nat) :
    let h := (run cap ops).2
    (run cap ops).1.getRecentEvents count =
      ((h.all.drop (h.all.length - min count (h.all.length - h.lowest)))).map some :=
  ring_recent_refines (ring_rel_run cap hc ops hv) (ring_rel_run cap hc ops hv).cap_pos count

/-- Event store: a batch never exceeds the size in force when the batch was started, and nothing is dropped
    while fewer than that are stored. -/
theorem store_bound (s : Store) (hs : s.idx ≤ s.events.length) (ev : Ev) :
    (s.store ev).idx ≤ (s.store ev).events.length ∧ (s.store ev).events.length = s.events.length ∧
    (s.idx < s.events.length → (s.store ev).idx = s.idx + 1) ∧
    (s.collect.1.length = s.idx) :=
  store_bound_aux s hs ev

/-- Stream set-up, every interleaving of the event loop (add; publish per event) with CreateEventStream
    (register; read history): the subscriber receives the history followed by every later event once and in
    order — PROVIDED no event published to the new stream is older than the oldest history event that was read
    (always true when no history is requested).  `stream_order_partial` because the unrestricted statement is
    false for the code: see `stream_order_refuted` and KNOWN_FINDINGS (C20 stream-order). -/
theorem stream_order_partial (count cap : Nat) (sch : List SStep) (s : SState)
    (h : srun count cap {} sch = some s)
    (hc : min count cap = 0 ∨ ∀ e ∈ s.localQ, s.histLen < e + min count cap) :
    streamOK s = true :=
  stream_ok_of_covered count cap sch s h hc

/-- The unrestricted statement fails: register; two events added and published; history of 1 read:
    the subscriber gets event 2, then 1, then 2 again (replayed on the real code through the yield hook). -/
theorem stream_order_refuted :
    ∃ sch s, srun 1 10 {} sch = some s ∧ consumerOut s = [2, 1, 2] ∧ streamOK s = false :=
  ⟨[.reg, .add, .pub, .add, .pub, .hist], _, rfl, by decide, by decide⟩

example : validOps [.add 1, .resize 3, .add 2] := by
  intro n h; simp at h; omega
example : ((run 2 [.add 1, .add 2, .add 3]).1.getEventsFromID 1 5).1 = [some 2, some 3] := by decide

end Yk.C20
