/-
  C18 — Resource arithmetic and quantity parsing are exact or saturate, never wrap.
  Property theorems only (helpers live in YkProofs).  The calculators `goAddVal … goMulValRatio` are
  REGENERATED from pkg/common/resources/resources.go on every run (extract T1), so these statements are
  re-checked against what the code says now.
-/
import YkProofs.Res
import YkModel.Quantity
import YkModel.Generated.Consts
namespace Yk.C18
open Yk Yk.Res

/-- addVal: exact or clamped to the int64 range, for all int64 inputs. -/
theorem addVal_exact_or_saturates (a b : Int) (ha : inR a) (hb : inR b) :
    goAddVal a b = clamp (a + b) := goAddVal_spec ha hb

/-- subVal: exact or clamped, including b = MinInt64 (the case the code got wrong before the fix). -/
theorem subVal_exact_or_saturates (a b : Int) (ha : inR a) (hb : inR b) :
    goSubVal a b = clamp (a - b) := goSubVal_spec ha hb

/-- mulVal: exact or clamped, including MinInt64 * -1. -/
theorem mulVal_exact_or_saturates (a b : Int) (ha : inR a) (hb : inR b) :
    goMulVal a b = clamp (a * b) := goMulVal_spec ha hb

/-- mulValRatio: with `p` the truncation of the float64 product (the IEEE product itself is trusted),
    the result is `p` clamped; a zero value or ratio gives 0. -/
theorem mulValRatio_exact_or_saturates (v p : Int) (rz : Bool) :
    goMulValRatio v rz p = if v = 0 ∨ rz = true then 0 else clamp p := by
  by_cases h : v = 0 ∨ rz = true
  · rw [if_pos h]; exact goMulValRatio_zero v p rz h
  · rw [if_neg h]
    have hv : v ≠ 0 := fun e => h (Or.inl e)
    have hr : rz = false := by cases rz <;> simp_all
    subst hr; exact goMulValRatio_spec hv p

/-- the calculators never leave the int64 range (closure: layers compose) -/
theorem calculators_closed (a b : Int) (ha : inR a) (hb : inR b) (p : Int) (rz : Bool) :
    inR (goAddVal a b) ∧ inR (goSubVal a b) ∧ inR (goMulVal a b) ∧ inR (goMulValRatio a rz p) :=
  ⟨goAddVal_inR ha hb, goSubVal_inR ha hb, goMulVal_inR ha hb, goMulValRatio_inR a p rz⟩

/-- Add behaves like the sparse integer vector sum, saturating per type; the result defines exactly
    the union of the types. -/
theorem add_pointwise (l r : Res) (hw : wf r = true) (hl : allInR l) (hr : allInR r) (k : String) :
    (add (some l) (some r)).getD k = clamp (l.getD k + r.getD k) ∧
    (add (some l) (some r)).has k = (l.has k || r.has k) := by
  refine ⟨?_, add_has l r k⟩
  rw [add_getD l r hw k]
  by_cases h : has r k = true
  · rw [if_pos h]; exact goAddVal_spec (getD_inR hl k) (getD_inR hr k)
  · rw [if_neg h]
    have : getD r k = 0 := by
      have h' : has r k = false := by simpa using h
      rw [getD_eq_get?]; rw [has_eq_get?] at h'
      cases hg : get? r k <;> simp_all
    rw [this, Int.add_zero]
    have := getD_inR hl k
    unfold inR at this; unfold clamp
    have h1 : ¬ getD l k < minI := by omega
    have h2 : ¬ getD l k > maxI := by omega
    simp [h1, h2]

theorem sub_pointwise (l r : Res) (hw : wf r = true) (hl : allInR l) (hr : allInR r) (k : String) :
    (sub (some l) (some r)).getD k = clamp (l.getD k - r.getD k) ∧
    (sub (some l) (some r)).has k = (l.has k || r.has k) := by
  refine ⟨?_, sub_has l r k⟩
  rw [sub_getD l r hw k]
  by_cases h : has r k = true
  · rw [if_pos h]; exact goSubVal_spec (getD_inR hl k) (getD_inR hr k)
  · rw [if_neg h]
    have : getD r k = 0 := by
      have h' : has r k = false := by simpa using h
      rw [getD_eq_get?]; rw [has_eq_get?] at h'
      cases hg : get? r k <;> simp_all
    rw [this, Int.sub_zero]
    have := getD_inR hl k
    unfold inR at this; unfold clamp
    have h1 : ¬ getD l k < minI := by omega
    have h2 : ¬ getD l k > maxI := by omega
    simp [h1, h2]

/-- nil operands: Add/Sub treat nil as the empty vector and return a fresh vector -/
theorem add_sub_nil (l : ORes) : add l none = orZero l ∧ sub l none = orZero l ∧
    add none (some []) = [] ∧ sub none (some []) = [] := by
  refine ⟨rfl, rfl, rfl, rfl⟩

/-- The three fit predicates agree with their documented component-wise meaning: every type of `smaller`
    is ≤ the receiver's value (negative receiver values count as 0 unless `actual`); a type the receiver
    does not define is 0 (`FitIn`) or unlimited (`FitInMaxUndef`, `FitInActual`). nil receiver = empty;
    nil `smaller` always fits. -/
theorem fitIn_iff (r s : ORes) (skipUndef actual : Bool) :
    fitIn r s skipUndef actual = specFitIn r s skipUndef actual := by
  unfold fitIn specFitIn
  cases s with
  | none => rfl
  | some s =>
    simp only
    congr 1; funext p
    rw [has_eq_get?, getD_eq_get?]
    cases hg : get? (orZero r) p.1 with
    | none => cases skipUndef <;> cases actual <;> simp
    | some lv => cases skipUndef <;> simp

/-- readable form of the previous theorem for a non-nil `smaller` -/
theorem fitIn_forall (r : ORes) (s : Res) (skipUndef actual : Bool) :
    fitIn r (some s) skipUndef actual = true ↔
      ∀ p ∈ s, (skipUndef = true ∧ (orZero r).has p.1 = false) ∨
        p.2 ≤ (if actual then (orZero r).getD p.1 else max 0 ((orZero r).getD p.1)) := by
  rw [fitIn_iff]; unfold specFitIn
  simp only [List.all_eq_true, Bool.or_eq_true, Bool.and_eq_true, Bool.not_eq_true', decide_eq_true_eq]

/-- Multiply by an integer: pointwise saturating product on exactly the base's types -/
theorem multiply_pointwise (b : Res) (ratio : Int) (hr : inR ratio) (hb : allInR b) (h0 : ratio ≠ 0) :
    multiply (some b) ratio = b.map (fun p => (p.1, clamp (p.2 * ratio))) := by
  unfold multiply
  have : (ratio == 0) = false := by simp [h0]
  simp only [this, Bool.false_eq_true, if_false]
  apply List.map_congr_left
  intro p hp
  rw [goMulVal_spec (hb p hp) hr]

/-- the multiplier in force is the table entry (×1000 for milli-units unless the suffix is `m`), and positive -/
theorem scaleOf_spec (sfx : String) (milli : Bool) (sc : Int) (h : scaleOf sfx milli = some sc) :
    ∃ base, multipliers.lookup sfx = some base ∧ ¬ (sfx = "m" ∧ milli = false) ∧
      sc = base * (if milli = true ∧ sfx ≠ "m" then 1000 else 1) ∧ 0 < sc := by
  unfold scaleOf at h
  cases hl : multipliers.lookup sfx with
  | none => rw [hl] at h; cases h
  | some base =>
    rw [hl] at h; simp only at h
    have hpos : 0 < base := by
      have : ∀ p ∈ multipliers, 0 < p.2 := by decide
      exact this _ (Res.mem_of_get? (r := multipliers) hl)
    by_cases hm : (sfx == "m" && !milli) = true
    · rw [if_pos hm] at h; cases h
    · rw [if_neg hm] at h
      refine ⟨base, rfl, ?_, ?_, ?_⟩
      · intro ⟨h1, h2⟩; apply hm; simp [h1, h2]
      · injection h with h; rw [← h]
        cases milli <;> by_cases hs : sfx = "m" <;> simp [hs]
      · injection h with h; rw [← h]
        split <;> omega

/-- Quantity parsing: a successful parse returns exactly number × multiplier, and that value is a
    non-negative int64: never truncated, never wrapped. -/
theorem parse_exact (s : String) (milli : Bool) (v : Int) (h : parseQ s milli = .ok v) :
    ∃ ds suf sc, matchLegal (trimSpace s.toList) = some (ds, suf) ∧
      scaleOf (String.ofList suf) milli = some sc ∧
      v = (digitsVal ds : Int) * sc ∧ 0 ≤ v ∧ inR v := by
  unfold parseQ at h
  cases hm : matchLegal (trimSpace s.toList) with
  | none => rw [hm] at h; cases h
  | some p =>
    obtain ⟨ds, suf⟩ := p
    rw [hm] at h; simp only at h
    by_cases hn : (digitsVal ds : Int) > maxI
    · rw [if_pos hn] at h; cases h
    · rw [if_neg hn] at h
      cases hs : scaleOf (String.ofList suf) milli with
      | none => rw [hs] at h; cases h
      | some sc =>
        rw [hs] at h; simp only at h
        by_cases ho : (digitsVal ds : Int) * sc > maxI
        · rw [if_pos ho] at h; cases h
        · rw [if_neg ho] at h
          injection h with h
          obtain ⟨_, _, _, _, hpos⟩ := scaleOf_spec _ _ _ hs
          have hd : (0 : Int) ≤ digitsVal ds := Int.natCast_nonneg _
          have hnn : 0 ≤ (digitsVal ds : Int) * sc := Int.mul_nonneg hd (by omega)
          refine ⟨ds, suf, sc, rfl, hs, h.symm, by omega, ?_⟩
          unfold inR minI; unfold maxI at ho; unfold maxI; omega

/-- … and conversely a well-formed string whose exact value fits in an int64 is accepted with that value;
    one whose exact value does not fit is rejected (overflow), never returned wrapped. -/
theorem parse_complete (s : String) (milli : Bool) (ds suf : List Char) (sc : Int)
    (hm : matchLegal (trimSpace s.toList) = some (ds, suf))
    (hs : scaleOf (String.ofList suf) milli = some sc) :
    parseQ s milli = if (digitsVal ds : Int) * sc ≤ maxI then .ok ((digitsVal ds : Int) * sc) else .error .overflow := by
  obtain ⟨_, _, _, _, hpos⟩ := scaleOf_spec _ _ _ hs
  unfold parseQ; rw [hm]; simp only
  have hd : (0 : Int) ≤ digitsVal ds := Int.natCast_nonneg _
  by_cases hn : (digitsVal ds : Int) > maxI
  · rw [if_pos hn]
    have : (digitsVal ds : Int) ≤ (digitsVal ds : Int) * sc := by
      have := Int.mul_le_mul_of_nonneg_left (show (1 : Int) ≤ sc by omega) hd
      simpa using this
    have : ¬ (digitsVal ds : Int) * sc ≤ maxI := by omega
    rw [if_neg this]
  · rw [if_neg hn, hs]; simp only
    by_cases ho : (digitsVal ds : Int) * sc > maxI
    · rw [if_pos ho, if_neg (by omega)]
    · rw [if_neg ho, if_pos (by omega)]

/-- tie (T5, regenerated): the multiplier table and the regular expression of the source are the ones modelled -/
theorem consts_tie :
    (∀ p ∈ Gen.multipliers, p ∈ multipliers) ∧ (∀ p ∈ multipliers, p ∈ Gen.multipliers) ∧
    Gen.multipliers.length = multipliers.length ∧
    Gen.quantityLegalRe = "^(?P<Number>[0-9]+)\\s*(?P<Suffix>([mkKMGTPE]i?)?)$" := by decide

deriving instance DecidableEq for Except

/-- non-vacuity: the hypotheses above are met by concrete inputs (and the extremes are handled) -/
example : parseQ " 8Ei" false = .error .overflow ∧ parseQ "7 Ei " false = .ok 8070450532247928832 ∧
    parseQ "500m" true = .ok 500 ∧ parseQ "10" true = .ok 10000 ∧ parseQ "9223372036854775807" false = .ok maxI ∧
    parseQ "9223372036854775808" false = .error .overflow ∧ parseQ "1m" false = .error .suffix := by decide
example : goSubVal 0 minI = maxI ∧ goMulVal minI (-1) = maxI ∧ goAddVal maxI 1 = maxI ∧
    goMulValRatio maxI false 9223372036854775808 = maxI := by decide
example : wf [("a", 1), ("b", 2)] = true ∧ allInR [("a", 1), ("b", 2)] := by
  refine ⟨by decide, ?_⟩; intro p hp; simp at hp; rcases hp with h | h <;> subst h <;> decide

end Yk.C18
