#!/bin/sh
# MANIFEST.setup_cmd: build the framework from files on disk only (offline).
set -e
cd "$(dirname "$0")"
export GOFLAGS=-mod=mod GOPROXY=off
REPO=${VERIF_REPO:-/repo}
mkdir -p lean/YkModel/Generated replays evidence
(cd extract && go build -o /tmp/ykverif-extract.$$ . && /tmp/ykverif-extract.$$ "$REPO" ../lean/YkModel/Generated; rc=$?; rm -f /tmp/ykverif-extract.$$; exit $rc)
cp "$REPO/go.sum" harness/go.sum
(cd harness && go build -tags verif -o /dev/null .)
(cd lean && lake build)
echo setup done
