#!/bin/bash
# run_seeds.sh [names...]: apply each seeded change to /repo, run the quick check of its property, undo it; result in seeded/<name>/result.txt
cd /verif
names="$@"; [ -z "$names" ] && names=$(ls seeded)
for n in $names; do
  prop=${n%%-*}
  [ -f seeded/$n/patch.diff ] || continue
  if ! python3 -c "import sys; sys.path.insert(0,'lib'); import props; sys.exit(0 if '$prop' in props.PROPS else 1)"; then echo "$n: property $prop has no check yet" | tee seeded/$n/result.txt; continue; fi
  if ! git -C /repo apply --check /verif/seeded/$n/patch.diff 2>/dev/null; then echo "$n: patch does not apply on current /repo" | tee seeded/$n/result.txt; continue; fi
  git -C /repo apply /verif/seeded/$n/patch.diff
  out=$(./check $prop quick 2>&1); rc=$?
  git -C /repo checkout -- .
  v=$(echo "$out" | grep -c "^VIOLATION")
  echo "$n: exit=$rc violations=$v $(echo "$out" | grep -m1 -A1 '^VIOLATION' | tr '\n' ' ' | cut -c1-300)" | tee seeded/$n/result.txt
done
