#!/bin/bash
# run_seeds.sh [names...]: apply each seeded change, run the quick check of its property, undo it; result in /verif/seeded/<name>/result.txt.
# By default works on /verif and /repo themselves (do not edit either while it runs). With SEEDS_COPY=1 it works on a private copy of /verif
# (/tmp/verif_seeds$SEEDS_TAG) and a scratch worktree of /repo at HEAD (/tmp/repo_seeds$SEEDS_TAG; SEEDS_TAG lets several instances run side by side), removed afterwards; only result.txt files are written back.
names="$@"; [ -z "$names" ] && names=$(ls /verif/seeded)
V=/verif; R=/repo
if [ -n "$SEEDS_COPY" ]; then
  V=/tmp/verif_seeds$SEEDS_TAG; R=/tmp/repo_seeds$SEEDS_TAG
  rm -rf $V; mkdir $V; rsync -a --exclude .git --exclude replays --exclude .lock /verif/ $V/
  git -C /repo worktree remove --force $R 2>/dev/null; git -C /repo worktree add -q --detach $R HEAD || exit 1
  sed -i "s#=> /repo#=> $R#" $V/harness/go.mod
  export VERIF_REPO=$R
fi
cd $V
for n in $names; do
  prop=${n%%-*}
  [ -f /verif/seeded/$n/patch.diff ] || continue
  if ! python3 -c "import sys; sys.path.insert(0,'lib'); import props; sys.exit(0 if '$prop' in props.PROPS else 1)"; then echo "$n: property $prop has no check yet" | tee /verif/seeded/$n/result.txt; continue; fi
  if ! git -C $R apply --check /verif/seeded/$n/patch.diff 2>/dev/null; then echo "$n: patch does not apply on current /repo" | tee /verif/seeded/$n/result.txt; continue; fi
  git -C $R apply /verif/seeded/$n/patch.diff
  out=$(./check $prop quick 2>&1); rc=$?
  git -C $R checkout -- .
  v=$(echo "$out" | grep -c "^VIOLATION")
  echo "$n: exit=$rc violations=$v $(echo "$out" | grep -m1 -A1 '^VIOLATION' | tr '\n' ' ' | cut -c1-300)" | tee /verif/seeded/$n/result.txt
done
if [ -n "$SEEDS_COPY" ]; then cd /; rm -rf $V; git -C /repo worktree remove --force $R; fi
