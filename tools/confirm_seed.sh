#!/bin/bash
# confirm_seed.sh <seed-src-dir> <name>: confirm a seeded change in a scratch worktree of /repo:
#   demo passes at HEAD, patch applies and builds, demo fails with the patch, full suite still passes with it.
# Writes <seed-src-dir>/confirm.txt and copies the seed to /verif/seeded/<name>/ when everything is confirmed.
set -u
SRC=$1; NAME=$2
WT=/tmp/wt_confirm_$NAME
export GOFLAGS=-mod=mod GOPROXY=off
ALLOWED='Test_Gzip|Test_HeaderChecks|Test_RouterHandling|Test_RedirectDebugHandler|TestCustomLoggingConfiguration'
out=$SRC/confirm.txt; : > $out
git -C /repo worktree add -q --detach $WT HEAD || exit 1
cleanup() { git -C /repo worktree remove --force $WT; }
trap cleanup EXIT
demo=$(ls $SRC/zz_seed_*_test.go | head -1)
dpath=$(cat $SRC/demo_path.txt | tr -d '[:space:]')
ddir=$(dirname $dpath)
tname=$(grep -o 'func Test[A-Za-z0-9_]*' $demo | head -1 | sed 's/func //')
cp $demo $WT/$dpath
(cd $WT && go test -vet=off -count=1 -run "^$tname\$" ./$ddir/ > /tmp/confirm_$NAME.1 2>&1); r1=$?
echo "demo at HEAD: exit $r1" >> $out
(cd $WT && git apply $SRC/patch.diff) || { echo "patch does not apply" >> $out; exit 1; }
(cd $WT && go build ./... > /tmp/confirm_$NAME.b 2>&1); rb=$?
echo "build with patch: exit $rb" >> $out
(cd $WT && go test -vet=off -count=1 -run "^$tname\$" ./$ddir/ > /tmp/confirm_$NAME.2 2>&1); r2=$?
echo "demo with patch: exit $r2" >> $out
rm -f $WT/$dpath
(cd $WT && go test -vet=off -count=1 ./... 2>&1 | grep -E "^--- FAIL|^FAIL|^ok" > /tmp/confirm_$NAME.3)
bad=$(grep -E "^--- FAIL" /tmp/confirm_$NAME.3 | grep -vE "$ALLOWED" | head -5)
# timing-dependent tests flake under machine load: an unexpected failure counts only if the test also fails when re-run alone (3x) with the patch
if [ -n "$bad" ]; then
  still=""
  for t in $(echo "$bad" | sed -E 's/^--- FAIL: ([A-Za-z0-9_]+).*/\1/' | sort -u); do
    pkgs=$(cd $WT && grep -rl "func $t(" --include=*_test.go pkg | xargs -n1 dirname | sort -u)
    for pk in $pkgs; do
      (cd $WT && go test -vet=off -count=3 -run "^$t\$" ./$pk/ > /tmp/confirm_$NAME.4 2>&1) || still="$still $t"
    done
  done
  echo "unexpected failures in the full run: [$(echo $bad | tr '\n' ' ')]; still failing when re-run alone: [$still]" >> $out
  bad="$still"
fi
echo "full suite with patch: unexpected failures: [${bad}]" >> $out
if [ $r1 -eq 0 ] && [ $rb -eq 0 ] && [ $r2 -ne 0 ] && [ -z "$bad" ]; then
  echo "CONFIRMED" >> $out
  mkdir -p /verif/seeded/$NAME
  cp $SRC/patch.diff $SRC/meta.json $SRC/demo_path.txt $demo $out /verif/seeded/$NAME/
else
  echo "NOT CONFIRMED" >> $out
fi
rm -f /tmp/confirm_$NAME.*
cat $out
