#!/usr/bin/env python3
"""seed_table.py: rewrite the table between <!-- SEEDS:BEGIN --> and <!-- SEEDS:END --> in DESIGN.md from seeded/*/meta.json and result.txt"""
import json, os, re
V = os.path.dirname(os.path.dirname(os.path.abspath(__file__)))
rows = []
for n in sorted(os.listdir(os.path.join(V, "seeded"))):
    d = os.path.join(V, "seeded", n)
    try:
        meta = json.load(open(os.path.join(d, "meta.json")))
    except Exception:
        meta = {}
    summ = (meta.get("summary") or meta.get("description") or "").replace("\n", " ").replace("|", "/")
    summ = summ[:230] + ("…" if len(summ) > 230 else "")
    res = ""
    if os.path.exists(os.path.join(d, "result.txt")):
        res = open(os.path.join(d, "result.txt"), errors="replace").read().strip().replace("\n", " ").replace("|", "/")
    m = re.search(r"exit=(\d+) violations=(\d+)", res)
    if m:
        caught = "**caught**" if m.group(1) == "1" and int(m.group(2)) > 0 else "missed"
        cls = re.search(r"class=(\S+)", res)
        how = cls.group(1) if cls else ("no-failing-input-found" if "no-failing-input-found" in res else "")
    else:
        caught, how = ("n/a", res[len(n) + 2:][:80])
    if os.path.exists(os.path.join(d, "note.txt")):
        note = open(os.path.join(d, "note.txt")).read().strip().replace("\n", " ").replace("|", "/")
        if note.startswith("caught-by:"):
            caught = "missed by its own check, **caught by " + note[len("caught-by:"):].split("—")[0].strip() + "**"
            how = note.split("—", 1)[1].strip() if "—" in note else note
        else:
            caught = "n/a"
            how = note
    rows.append("| %s | %s | %s | %s |" % (n, summ, caught, how))
table = "| seed | change (compiles, passes the existing tests) | quick check of its property | first reported class |\n|---|---|---|---|\n" + "\n".join(rows)
p = os.path.join(V, "DESIGN.md")
s = open(p).read()
a, b = "<!-- SEEDS:BEGIN -->", "<!-- SEEDS:END -->"
if a not in s:
    s += "\n\n## 10. Seeded changes and the checks that catch them\n\n" + a + "\n" + b + "\n"
i, j = s.index(a) + len(a), s.index(b)
s = s[:i] + "\n" + table + "\n" + s[j:]
open(p, "w").write(s)
print(len(rows), "rows")
