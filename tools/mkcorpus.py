#!/usr/bin/env python3
"""mkcorpus.py <trace.jsonl> <verdicts> <pattern> <out> [comment]: write the history (inputs only) that leads to the first
line whose verdict contains <pattern> as a corpus/replay file."""
import json, sys
trace, verd, pat, out = sys.argv[1:5]
comment = sys.argv[5] if len(sys.argv) > 5 else ""
lines = [l for l in open(trace).read().split("\n") if l]
vs = open(verd).read().split("\n")
idx = next(i for i, v in enumerate(vs) if pat in v)
start = max(i for i in range(idx + 1) if '"op":"reset"' in lines[i] or '"op":"sreset"' in lines[i])
with open(out, "w") as f:
    f.write("# %s | verdict at capture: %s\n" % (comment, vs[idx][:200]))
    for l in lines[start:idx + 1]:
        d = json.loads(l)
        for k in ("st", "msgs", "out", "panic", "hang", "error"):
            d.pop(k, None)
        f.write(json.dumps(d) + "\n")
print("wrote", out, idx - start + 1, "ops")
