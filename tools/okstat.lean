/- tools/okstat.lean: for every line of a full-stack trace (harness `-c core`), which operations of the stepped model the
   line corresponds to (YkDrv/CoreStep.stepOps) and whether the side condition of `books_reachable` (`Op.ok`, checked by
   the executable sufficient test `Op.okb` of YkProofs/Core2Check.lean) holds in the implementation's own state; also
   whether that state is `Linked` (`linkedb`) and meets the reduced condition `Op.ok2` (`Op.okb2`, Core2Check2.lean).
   Usage (from lean/):  lake env lean --run ../tools/okstat.lean < trace.jsonl | sort | uniq -c -/
import YkDrv.CoreDrv
import YkProofs.Core2Check
import YkProofs.Core2Check2
open Lean Yk Yk.Core YkDrv

def opName : Op → String
  | .nodeCreate .. => "nodeCreate" | .nodeUpdate .. => "nodeUpdate" | .nodeSchedulable .. => "nodeSchedulable"
  | .nodeRemove .. => "nodeRemove" | .foreignAdd .. => "foreignAdd" | .foreignRemove .. => "foreignRemove"
  | .appAdd .. => "appAdd" | .appRemove .. => "appRemove" | .ask .. => "ask" | .schedAlloc .. => "schedAlloc"
  | .swapStart .. => "swapStart" | .swapConfirm .. => "swapConfirm" | .releaseKey .. => "releaseKey"
  | .release .. => "release" | .releaseApp .. => "releaseApp" | .markReleased .. => "markReleased"
  | .phTimeout .. => "phTimeout" | .stateTimeout .. => "stateTimeout" | .cleanup => "cleanup"
  | .reserve .. => "reserve" | .unreserve .. => "unreserve"

partial def loop (h : IO.FS.Stream) (out : IO.FS.Stream) (prev : Option Core) : IO Unit := do
  let line ← h.getLine
  if line.isEmpty then return ()
  match Json.parse line with
  | .error _ => loop h out prev
  | .ok j =>
    let op := (jStr (fldD j "op" (.str ""))).toOption.getD ""
    let post := ((fld j "st") >>= jCore).toOption
    if op == "reset" then loop h out post else
    match prev, post with
    | some pre, some pst =>
      let msgs := ((jArr (fldD j "msgs" (.arr #[]))).toOption.getD #[]).toList
      match stepOps pre pst op j msgs with
      | none => out.putStrLn "unmodelled"
      | some ops =>
        -- the side condition of every operation of the line, in the state it is applied to
        let (_, bad, bad2) := ops.foldl (fun (acc : Core × List String × List String) o =>
          (o.apply acc.1, (if o.okb acc.1 then acc.2.1 else acc.2.1 ++ [opName o]),
                          (if o.okb2 acc.1 then acc.2.2 else acc.2.2 ++ [opName o]))) (pre, [], [])
        let lk := if linkedb pre then "linked" else "NOT-linked"
        out.putStrLn ((if bad.isEmpty then "ok-holds" else "ok-fails(" ++ " ".intercalate bad ++ ")") ++ " " ++
                      (if bad2.isEmpty then "ok2-holds" else "ok2-fails(" ++ " ".intercalate bad2 ++ ")") ++ " " ++ lk)
      loop h out post
    | _, _ => loop h out post

def main : IO Unit := do
  loop (← IO.getStdin) (← IO.getStdout) none
