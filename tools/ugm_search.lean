/-
  Small-scope search of the Ugm model (C05, "limits follow the configuration"): every limit layout over <= 3 queue
  paths (root, root.a, root.a.b) and principals {a, b, *}, <= 3 reloads, with and without trackers / running
  applications created between the reloads.  For every history the limit in force is compared with the limit
  configured by the last configuration, for every principal and queue; violations are classified with the driver's
  clause ids and, for one reload c1 -> c2, tested against the conditions of the two confirmed mechanisms:
    F17 (stale wildcard): the wildcard limit of the queue was dropped while both configurations name users on it;
    F18 (lost limit):     the principal lost a limit on a strict ancestor of the queue (unlinkQT removes the subtree).
  Run:  cd lean && lake env lean --run ../tools/ugm_search.lean users2 users3 reloads3 groups
-/
import YkDrv.UgmDrv
open Yk Yk.Ugm YkDrv

def paths3 : List Path := [["root"], ["root","a"], ["root","a","b"]]
def bits (n k : Nat) : List Bool := (List.range k).map (fun i => (n >>> i) % 2 == 1)

/-- user layout number `n` over `np` paths for reload `i` (limit values depend on the reload, so stale values show) -/
def mkCfg (np : Nat) (n : Nat) (i : Nat) : Cfg :=
  (paths3.take np).zipIdx.map (fun (p, pi) =>
    let b := bits (n >>> (3 * pi)) 3
    let named (u : String) (v : Int) : List LimitEntry := [{ users := [u], groups := [], maxRes := some [("mem", v)], maxApps := 0 }]
    (p, (if b[0]! then named "a" (10 + i) else []) ++ (if b[1]! then named "b" (20 + i) else []) ++
        (if b[2]! then named "*" (30 + i) else [])))

/-- group layout: groups g, h and the wildcard group (which needs a named group on the same queue) -/
def mkGCfg (np : Nat) (n : Nat) (i : Nat) : Option Cfg :=
  let qs := (paths3.take np).zipIdx.map (fun (p, pi) =>
    let b := bits (n >>> (3 * pi)) 3
    let named (g : String) (v : Int) : List LimitEntry := [{ users := [], groups := [g], maxRes := some [("mem", v)], maxApps := 0 }]
    ((p, (if b[0]! then named "g" (10 + i) else []) ++ (if b[1]! then named "h" (20 + i) else []) ++
         (if b[2]! then named "*" (30 + i) else [])), b[2]! && !b[0]! && !b[1]!))
  if qs.any (·.2) then none else some (qs.map (·.1))

def between (np : Nat) : List (String × List Op) :=
  let deep := (paths3.take np).getLast!
  [("none", []), ("headroom-b", [.headroom deep "app1" "b" []]), ("inc-a", [.inc deep "app2" [("mem", 1)] "a" []]),
   ("headroom-c", [.headroom deep "app3" "c" []])]

def betweenG (np : Nat) : List (String × List Op) :=
  let deep := (paths3.take np).getLast!
  [("none", []), ("headroom-g", [.headroom deep "app1" "u" ["g"]]), ("inc-g", [.inc deep "app2" [("mem", 1)] "u" ["g"]]),
   ("inc-hg-root", [.inc ["root"] "app3" [("mem", 1)] "v" ["h", "g"]])]

def namedAt (c : Cfg) (p : Path) (u : String) : Bool := ((c.filter (·.1 == p)).flatMap (·.2)).any (fun l => l.users.contains u)
def anyNamedAt (c : Cfg) (p : Path) : Bool := ((c.filter (·.1 == p)).flatMap (·.2)).any (fun l => l.users.any (· != "*"))
def gNamedAt (c : Cfg) (p : Path) (g : String) : Bool := ((c.filter (·.1 == p)).flatMap (·.2)).any (fun l => l.groups.contains g)

def explained (c1 c2 : Cfg) (u : String) (p : Path) (cls : String) : Bool :=
  if cls == "C05.limits.stale-wildcard" then
    namedAt c1 p "*" && !namedAt c2 p "*" && anyNamedAt c1 p && anyNamedAt c2 p
  else if cls == "C05.limits.named-lost" then
    (prefixes p).any (fun p0 => p0 != p && namedAt c1 p0 u && !namedAt c2 p0 u)
  else if cls == "C05.limits.group-lost" then
    (prefixes p).any (fun p0 => p0 != p && gNamedAt c1 p0 u && !gNamedAt c2 p0 u)
  else false

def userViol (m : Mgr) (c : Cfg) (paths : List Path) : List (String × String × Path) :=
  ["a","b","c","d"].flatMap (fun u => paths.filterMap (fun p =>
    let want := configuredUser c u p
    let have_ := inForceUser m u p
    if ugLimEq want have_ then none else
    let node := (aget m.users u).bind (fun ut => aget ut.qt p)
    let named := namedAt c p u
    let cls := match node with
      | some n => if named then (if n.wild || ugLimEq have_ (none, 0) then "C05.limits.named-lost" else "C05.limits.named-differs")
                  else if n.wild then "C05.limits.stale-wildcard" else if ugLimEq have_ (none, 0) then "C05.limits.wildcard-not-applied" else "C05.limits.stale-named"
      | none => if named then "C05.limits.named-lost" else "C05.limits.wildcard-not-applied"
    some (cls, u, p)))

def groupViol (m : Mgr) (c : Cfg) (paths : List Path) : List (String × String × Path) :=
  ["g","h","*"].flatMap (fun g => paths.filterMap (fun p =>
    let want := configuredGroup c g p
    let have_ := inForceGroup m g p
    if ugLimEq want have_ then none else
    some (if ugLimEq have_ (none, 0) then "C05.limits.group-lost" else "C05.limits.group-stale", g, p)))

def bump (classes : List (String × Nat × String)) (cls w : String) : List (String × Nat × String) :=
  match classes.find? (·.1 == cls) with
  | some _ => classes.map (fun e => if e.1 == cls then (e.1, e.2.1 + 1, e.2.2) else e)
  | none => classes ++ [(cls, 1, w)]

def report (title : String) (total nviol nun : Nat) (classes : List (String × Nat × String)) (unexpl : List String) : IO Unit := do
  IO.println s!"{title}: histories={total} violations={nviol} not-explained-by-F17/F18={nun}"
  for (c, n, w) in classes do IO.println s!"  {c} x{n}  first: {w}"
  for w in unexpl do IO.println s!"  UNEXPLAINED {w}"

def searchUsers2 (np : Nat) : IO Unit := do
  let ncfg := 1 <<< (3 * np)
  let mut classes : List (String × Nat × String) := []
  let mut unexpl : List String := []
  let mut nun := 0
  let mut nviol := 0
  let mut total := 0
  for n1 in List.range ncfg do
    for n2 in List.range ncfg do
      for (bn, ops) in between np do
        let c1 := mkCfg np n1 1
        let c2 := mkCfg np n2 2
        let m := run {} ([.conf c1] ++ ops ++ [.conf c2])
        total := total + 1
        for (cls, u, p) in userViol m c2 (paths3.take np) do
          nviol := nviol + 1
          classes := bump classes cls s!"c1={n1} between={bn} c2={n2} user={u} queue={ugShowPath p}"
          if !explained c1 c2 u p cls then
            nun := nun + 1
            if unexpl.length < 12 then unexpl := unexpl ++ [s!"c1={n1} between={bn} c2={n2}: {cls} user={u} queue={ugShowPath p}"]
  report s!"users paths={np} reloads=2" total nviol nun classes unexpl

def searchUsers3 (np : Nat) : IO Unit := do
  let ncfg := 1 <<< (3 * np)
  let mut classes : List (String × Nat × String) := []
  let mut total := 0
  let mut nviol := 0
  for n1 in List.range ncfg do
    for n2 in List.range ncfg do
      for n3 in List.range ncfg do
        for (bn, ops) in between np do
          let c3 := mkCfg np n3 3
          let m := run {} ([.conf (mkCfg np n1 1)] ++ ops ++ [.conf (mkCfg np n2 2), .conf c3])
          total := total + 1
          for (cls, u, p) in userViol m c3 (paths3.take np) do
            nviol := nviol + 1
            classes := bump classes cls s!"c1={n1} between={bn} c2={n2} c3={n3} user={u} queue={ugShowPath p}"
  report s!"users paths={np} reloads=3" total nviol 0 classes []

def searchGroups2 (np : Nat) : IO Unit := do
  let ncfg := 1 <<< (3 * np)
  let mut classes : List (String × Nat × String) := []
  let mut unexpl : List String := []
  let mut nun := 0
  let mut nviol := 0
  let mut total := 0
  for n1 in List.range ncfg do
    for n2 in List.range ncfg do
      match mkGCfg np n1 1, mkGCfg np n2 2 with
      | some c1, some c2 =>
        for (bn, ops) in betweenG np do
          let m := run {} ([.conf c1] ++ ops ++ [.conf c2])
          total := total + 1
          for (cls, g, p) in groupViol m c2 (paths3.take np) do
            nviol := nviol + 1
            classes := bump classes cls s!"c1={n1} between={bn} c2={n2} group={g} queue={ugShowPath p}"
            if !explained c1 c2 g p cls then
              nun := nun + 1
              if unexpl.length < 12 then unexpl := unexpl ++ [s!"c1={n1} between={bn} c2={n2}: {cls} group={g} queue={ugShowPath p}"]
      | _, _ => pure ()
  report s!"groups paths={np} reloads=2" total nviol nun classes unexpl

def main (args : List String) : IO Unit := do
  if args.contains "users2" then searchUsers2 2
  if args.contains "users3" then searchUsers2 3
  if args.contains "reloads3" then searchUsers3 2
  if args.contains "groups" then searchGroups2 2
  if args.contains "groups3" then searchGroups2 3
