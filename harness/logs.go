package main

import (
	"go.uber.org/zap"

	"github.com/apache/yunikorn-core/pkg/log"
)

// silenceLogs installs a no-op logger: the resource calculators log on every saturation and the
// scheduler logs every decision. (A no-op logger also never panics on DPanic.)
func silenceLogs() {
	cfg := zap.NewProductionConfig()
	log.InitializeLogger(zap.NewNop(), &cfg)
}
