package main

import (
	"os"

	"go.uber.org/zap"

	"github.com/apache/yunikorn-core/pkg/log"
)

// silenceLogs installs a no-op logger: the resource calculators log on every saturation and the
// scheduler logs every decision. (A no-op logger also never panics on DPanic.)
func silenceLogs() {
	cfg := zap.NewProductionConfig()
	if os.Getenv("YK_LOG") != "" {
		dcfg := zap.NewDevelopmentConfig()
		l, _ := dcfg.Build()
		log.InitializeLogger(l, &dcfg)
		log.UpdateLoggingConfig(map[string]string{"log.level": "DEBUG"})
		return
	}
	log.InitializeLogger(zap.NewNop(), &cfg)
}
