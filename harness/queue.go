package main

import (
	"fmt"
	"strconv"

	"github.com/apache/yunikorn-core/pkg/common/configs"
	"github.com/apache/yunikorn-core/pkg/common/resources"
	"github.com/apache/yunikorn-core/pkg/scheduler/objects"
)

func init() { components["queue"] = runQueue }

type qSpec struct {
	Path       string
	Parent     int // -1 root
	Max        *resources.Resource
	Guaranteed *resources.Resource
	MaxApps    uint64
}

type queueDrv struct {
	c      *Ctx
	specs  []qSpec
	queues []*objects.Queue
}

func confMap(r *resources.Resource) map[string]string {
	if r == nil {
		return nil
	}
	m := map[string]string{}
	for k, v := range r.Resources {
		m[k] = strconv.FormatInt(int64(v), 10)
	}
	return m
}

func (d *queueDrv) dump() []map[string]interface{} {
	out := []map[string]interface{}{}
	for i, q := range d.queues {
		var parent interface{}
		if d.specs[i].Parent >= 0 {
			parent = d.specs[i].Parent
		}
		out = append(out, map[string]interface{}{
			"path": q.GetQueuePath(), "parent": parent, "max": encRes(q.VerifMaxResourceRaw()), "guaranteed": encRes(q.GetGuaranteedResource()),
			"allocated": encRes(q.GetAllocatedResource()), "maxApps": q.GetMaxApps(), "running": q.VerifRunningApps(), "allocating": q.VerifAllocatingAccepted(),
			"headRoom": encRes(q.VerifGetHeadRoom()), "maxHeadRoom": encRes(q.VerifGetMaxHeadRoom()), "effMax": encRes(q.GetMaxResource()),
		})
	}
	return out
}

func (d *queueDrv) apply(op map[string]interface{}) {
	op = norm(op)
	c := d.c
	line := map[string]interface{}{"c": "queue"}
	for k, v := range op {
		line[k] = v
	}
	name := op["op"].(string)
	c.stat("op:" + name)
	out := true
	defer func() {
		if r := recover(); r != nil {
			line["panic"] = fmt.Sprint(r)
			line["out"] = false
			line["st"] = d.dump()
			c.stat("panic")
			c.emit(line)
		}
	}()
	idx := 0
	if v, ok := op["i"]; ok {
		idx = int(jsonInt(v))
	}
	switch name {
	case "reset":
		d.queues = nil
		d.specs = nil
		for _, e := range op["queues"].([]interface{}) {
			m := e.(map[string]interface{})
			s := qSpec{Path: jsonStr(m["path"]), Parent: -1, Max: decRes(m["max"]), Guaranteed: decRes(m["guaranteed"]), MaxApps: uint64(jsonInt(m["maxApps"]))}
			if m["parent"] != nil {
				s.Parent = int(jsonInt(m["parent"]))
			}
			d.specs = append(d.specs, s)
		}
		hasChild := make([]bool, len(d.specs))
		for _, s := range d.specs {
			if s.Parent >= 0 {
				hasChild[s.Parent] = true
			}
		}
		for i, s := range d.specs {
			var parent *objects.Queue
			nm := "root"
			if s.Parent >= 0 {
				parent = d.queues[s.Parent]
				nm = fmt.Sprintf("q%d", i)
			}
			conf := configs.QueueConfig{Name: nm, Parent: hasChild[i] || s.Parent < 0, MaxApplications: s.MaxApps,
				Resources: configs.Resources{Max: confMap(s.Max), Guaranteed: confMap(s.Guaranteed)}}
			q, err := objects.NewConfiguredQueue(conf, parent, false, nil)
			if err != nil {
				panic(err)
			}
			d.queues = append(d.queues, q)
		}
		// report the paths the implementation built
		qs := op["queues"].([]interface{})
		for i := range qs {
			qs[i].(map[string]interface{})["path"] = d.queues[i].GetQueuePath()
		}
		line["queues"] = qs
	case "tryInc":
		err := d.queues[idx].TryIncAllocatedResource(decRes(op["res"]))
		out = err == nil
		if out {
			c.stat("tryInc-ok")
		} else {
			c.stat("tryInc-refused")
		}
	case "inc":
		d.queues[idx].IncAllocatedResource(decRes(op["res"]), false)
	case "dec":
		out = d.queues[idx].DecAllocatedResource(decRes(op["res"])) == nil
		if !out {
			c.stat("dec-refused")
		}
	case "setRes":
		d.queues[idx].SetResources(decRes(op["guaranteed"]), decRes(op["max"]))
	case "setRootMax":
		d.queues[0].SetMaxResource(decRes(op["max"]))
	case "canRun":
		out = d.queues[idx].VerifCanRunApp(jsonStr(op["app"]))
		if out {
			c.stat("canRun-yes")
		} else {
			c.stat("canRun-no")
		}
	case "incRun":
		d.queues[idx].VerifIncRunningApps(jsonStr(op["app"]))
	case "decRun":
		d.queues[idx].VerifDecRunningApps()
	case "setAllocating":
		d.queues[idx].VerifSetAllocatingAccepted(jsonStr(op["app"]))
	case "setMaxApps":
		d.queues[idx].SetMaxRunningApps(uint64(jsonInt(op["n"])))
	}
	line["out"] = out
	line["st"] = d.dump()
	c.emit(line)
}

// sparse limit: each type undefined / 0 / positive
func (c *Ctx) limitRes(maxv int) *resources.Resource {
	if c.chance(0.25) {
		return nil
	}
	r := resources.NewResource()
	for _, k := range nodeKeys {
		switch p := c.pick(10); {
		case p < 3:
		case p < 4:
			r.Resources[k] = 0
		default:
			r.Resources[k] = resources.Quantity(1 + c.pick(maxv))
		}
	}
	return r
}

func runQueue(c *Ctx) {
	d := &queueDrv{c: c}
	if replayFile != "" {
		for _, in := range readReplay(replayFile) {
			op := map[string]interface{}{}
			for _, k := range []string{"op", "queues", "i", "res", "max", "guaranteed", "app", "n"} {
				if v, ok := in[k]; ok {
					op[k] = v
				}
			}
			d.apply(op)
		}
		return
	}
	for it := 0; it < c.n; it++ {
		nq := 2 + c.pick(7)
		qs := []map[string]interface{}{}
		for i := 0; i < nq; i++ {
			m := map[string]interface{}{"path": "", "parent": nil, "max": nil, "guaranteed": nil, "maxApps": 0}
			if i > 0 {
				m["parent"] = c.pick(i)
				if c.chance(0.5) {
					m["parent"] = i - 1 // deep chains
				}
				m["max"] = encRes(c.limitRes(40))
				if c.chance(0.3) {
					m["guaranteed"] = encRes(c.limitRes(10))
				}
			}
			if c.chance(0.5) {
				m["maxApps"] = c.pick(4)
			}
			qs = append(qs, m)
		}
		d.apply(map[string]interface{}{"op": "reset", "queues": qs})
		// the root max is the sum of node capacities
		rootMax := c.smallRes(60, false)
		if c.chance(0.8) {
			rootMax.Resources["cpu"] = resources.Quantity(20 + c.pick(60))
			rootMax.Resources["mem"] = resources.Quantity(20 + c.pick(60))
		}
		d.apply(map[string]interface{}{"op": "setRootMax", "max": encRes(rootMax)})
		nops := 8 + c.pick(40)
		var history []struct {
			i   int
			res *resources.Resource
		}
		apps := []string{"app-1", "app-2", "app-3", "app-4"}
		for j := 0; j < nops; j++ {
			i := c.pick(nq)
			switch p := c.pick(100); {
			case p < 30:
				r := c.smallRes(12, false)
				d.apply(map[string]interface{}{"op": "tryInc", "i": i, "res": encRes(r)})
				history = append(history, struct {
					i   int
					res *resources.Resource
				}{i, r})
			case p < 38:
				r := c.smallRes(20, false)
				d.apply(map[string]interface{}{"op": "inc", "i": i, "res": encRes(r)})
				history = append(history, struct {
					i   int
					res *resources.Resource
				}{i, r})
			case p < 55:
				// release something that was (maybe) added before, or an arbitrary amount
				if len(history) > 0 && c.chance(0.8) {
					h := history[c.pick(len(history))]
					d.apply(map[string]interface{}{"op": "dec", "i": h.i, "res": encRes(h.res)})
				} else {
					d.apply(map[string]interface{}{"op": "dec", "i": i, "res": encRes(c.smallRes(8, false))})
				}
			case p < 62:
				if i > 0 {
					d.apply(map[string]interface{}{"op": "setRes", "i": i, "max": encRes(c.limitRes(40)), "guaranteed": encRes(c.limitRes(10))})
				}
			case p < 66:
				d.apply(map[string]interface{}{"op": "setRootMax", "max": encRes(c.smallRes(80, false))})
			case p < 76:
				d.apply(map[string]interface{}{"op": "canRun", "i": i, "app": apps[c.pick(len(apps))]})
			case p < 84:
				d.apply(map[string]interface{}{"op": "incRun", "i": i, "app": apps[c.pick(len(apps))]})
			case p < 90:
				d.apply(map[string]interface{}{"op": "decRun", "i": i})
			case p < 96:
				d.apply(map[string]interface{}{"op": "setAllocating", "i": i, "app": apps[c.pick(len(apps))]})
			default:
				d.apply(map[string]interface{}{"op": "setMaxApps", "i": i, "n": c.pick(4)})
			}
		}
	}
}
