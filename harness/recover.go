package main

// C12 — restart recovery, a TWO-EXECUTION component on the full stack.
//
// A generated history (the generators of coregen.go / coregang.go) runs on core A and is stopped at a random point
// (also in the middle: placeholder replacement in flight, releases announced but not confirmed, reservations, drained
// nodes, Failing / Completing applications).  A recorder keeps what the SHIM knows at that point - built from the
// requests the shim sent and the messages the core sent, never from core internals: registered nodes with their latest
// capacity, submitted and not removed applications with their submission, allocations the core announced (or the shim
// placed) and the shim has not released, foreign allocations, outstanding asks.  That snapshot is replayed in a random
// order on a FRESH ClusterContext B (same configuration, or one with tighter quotas / fewer queues / no queue creation)
// and one line carries both dumps, B's queue tree before the replay and the answer of B to every replayed item.
// A few scheduling cycles, asks and releases on B follow as ordinary full-stack lines.

import (
	"fmt"
	"math/rand"
	"sort"
	"strings"

	"github.com/apache/yunikorn-core/pkg/common/configs"
	"github.com/apache/yunikorn-core/pkg/common/resources"
	siCommon "github.com/apache/yunikorn-scheduler-interface/lib/go/common"
	"go.yaml.in/yaml/v3"
)

func init() {
	components["recover"] = runRecover
}

// ---------------------------------------------------------------- what the shim knows

type bookNode struct {
	res   interface{} // latest capacity reported
	sched bool
}

type bookAlloc struct {
	op        map[string]interface{} // the request as sent (latest resource)
	app       string
	node      string // "" = outstanding ask
	releasing string // termination type the core announced and the shim has not confirmed ("" = none)
}

type bookForeign struct {
	node string
	res  interface{}
}

type shimBook struct {
	nodes   map[string]*bookNode
	apps    map[string]map[string]interface{} // accepted and not removed: the submission
	allocs  map[string]*bookAlloc
	foreign map[string]*bookForeign
	seq     int
	order   map[string]int // first time an id / key was seen (stable tie-break when sorting)
}

func newShimBook() *shimBook {
	return &shimBook{nodes: map[string]*bookNode{}, apps: map[string]map[string]interface{}{},
		allocs: map[string]*bookAlloc{}, foreign: map[string]*bookForeign{}, order: map[string]int{}}
}

func (b *shimBook) seen(k string) {
	if _, ok := b.order[k]; !ok {
		b.seq++
		b.order[k] = b.seq
	}
}

func cloneOp(op map[string]interface{}) map[string]interface{} {
	out := map[string]interface{}{}
	for k, v := range op {
		out[k] = v
	}
	return out
}

func msgHas(msgs []map[string]interface{}, t, field, val string) bool {
	for _, m := range msgs {
		if m["t"] == t && jsonStr(m[field]) == val {
			return true
		}
	}
	return false
}

// observe one request of the shim and the messages the core sent while handling it
func (b *shimBook) observe(op map[string]interface{}, msgs []map[string]interface{}) {
	switch jsonStr(op["op"]) {
	case "node":
		id := jsonStr(op["id"])
		switch jsonStr(op["action"]) {
		case "create", "create-drain":
			if msgHas(msgs, "node-accepted", "node", id) {
				b.nodes[id] = &bookNode{res: op["res"], sched: jsonStr(op["action"]) == "create"}
				b.seen("n:" + id)
			}
		case "update":
			if n := b.nodes[id]; n != nil && op["res"] != nil {
				n.res = op["res"]
			}
		case "drain":
			if n := b.nodes[id]; n != nil {
				n.sched = false
			}
		case "undrain":
			if n := b.nodes[id]; n != nil {
				n.sched = true
			}
		case "decommission":
			if b.nodes[id] != nil {
				delete(b.nodes, id)
				for k, f := range b.foreign {
					if f.node == id {
						delete(b.foreign, k)
					}
				}
			}
		}
	case "app-add":
		id := jsonStr(op["id"])
		if msgHas(msgs, "app-accepted", "app", id) {
			b.apps[id] = cloneOp(op)
			b.seen("a:" + id)
		}
	case "app-remove":
		id := jsonStr(op["id"])
		delete(b.apps, id)
		for k, a := range b.allocs {
			if a.app == id {
				delete(b.allocs, k)
			}
		}
	case "alloc":
		key := jsonStr(op["key"])
		if msgHas(msgs, "alloc-rejected", "key", key) {
			break
		}
		if jsonBool(op["foreign"]) {
			if f := b.foreign[key]; f != nil {
				f.res = op["res"]
			} else {
				b.foreign[key] = &bookForeign{node: jsonStr(op["node"]), res: op["res"]}
				b.seen("k:" + key)
			}
			break
		}
		if a := b.allocs[key]; a != nil {
			// update of a known key: new size; a placement reported by the shim binds an outstanding ask
			a.op["res"] = op["res"]
			if a.node == "" && jsonStr(op["node"]) != "" {
				a.node = jsonStr(op["node"])
			}
		} else {
			b.allocs[key] = &bookAlloc{op: cloneOp(op), app: jsonStr(op["app"]), node: jsonStr(op["node"])}
			b.seen("k:" + key)
		}
	case "release":
		app, key := jsonStr(op["app"]), jsonStr(op["key"])
		switch {
		case app == "":
			delete(b.foreign, key)
		case key == "":
			for k, a := range b.allocs {
				if a.app == app {
					delete(b.allocs, k)
				}
			}
		default:
			delete(b.allocs, key)
		}
	}
	// what the core told the shim
	for _, m := range msgs {
		switch m["t"] {
		case "alloc":
			if a := b.allocs[jsonStr(m["key"])]; a != nil {
				a.node = jsonStr(m["node"])
			}
		case "release":
			key := jsonStr(m["key"])
			switch jsonStr(m["type"]) {
			case "PLACEHOLDER_REPLACED", "TIMEOUT", "PREEMPTED_BY_SCHEDULER":
				if a := b.allocs[key]; a != nil {
					a.releasing = jsonStr(m["type"]) // the pod is being deleted; the shim confirms when it is gone
				}
			default:
				delete(b.allocs, key)
			}
		}
	}
}

// ---------------------------------------------------------------- configuration of the restarted core

func tightenQueues(qs []configs.QueueConfig, isRoot bool) {
	setMaxQueues(qs, isRoot, "1")
}

// setMaxQueues gives every queue below the root the maximum {cpu: v, mem: v}, no guarantee, one application, no limits
func setMaxQueues(qs []configs.QueueConfig, isRoot bool, v string) {
	for i := range qs {
		q := &qs[i]
		if !isRoot {
			q.Resources.Guaranteed = nil
			q.Resources.Max = map[string]string{"cpu": v, "mem": v}
			q.MaxApplications = 1
		}
		q.Limits = nil
		setMaxQueues(q.Queues, false, v)
	}
}

// quotaPreemption switches quota preemption on for the partition and gives the queues below the root a quota preemption
// delay: on the first-level queues (inherited by their children), or on the leaves only
func quotaPreemption(rng *rand.Rand, part *configs.PartitionConfig) {
	yes := true
	part.Preemption.QuotaPreemptionEnabled = &yes
	onLeaves := rng.Intn(3) == 0
	var set func(qs []configs.QueueConfig, depth int)
	set = func(qs []configs.QueueConfig, depth int) {
		for i := range qs {
			leaf := len(qs[i].Queues) == 0 && !qs[i].Parent
			if (depth == 1 && !onLeaves) || (leaf && onLeaves && depth >= 1) {
				if qs[i].Properties == nil {
					qs[i].Properties = map[string]string{}
				}
				qs[i].Properties[configs.QuotaPreemptionDelay] = "1h"
			}
			set(qs[i].Queues, depth+1)
		}
	}
	set(part.Queues, 0)
}

// configB derives the configuration the restarted core runs with. Returns the variant label and the text.
func configB(rng *rand.Rand, confA string) (string, string) {
	p := rng.Intn(100)
	if p < 35 {
		return "same", confA
	}
	sc := &configs.SchedulerConfig{}
	if err := yaml.Unmarshal([]byte(confA), sc); err != nil || len(sc.Partitions) != 1 || len(sc.Partitions[0].Queues) != 1 {
		return "same", confA
	}
	part := &sc.Partitions[0]
	root := &part.Queues[0]
	label := ""
	switch {
	case p < 47:
		// tighter quotas everywhere: queue maxima, application counts, a wildcard user limit
		label = "tight"
		tightenQueues(part.Queues, true)
		root.Limits = []configs.Limit{{Limit: "tight", Users: []string{"*"}, MaxResources: map[string]string{"cpu": "1"}, MaxApplications: 1}}
	case p < 57:
		// quota preemption enabled with a delay on managed queues whose maximum the first replayed allocation exceeds:
		// the unchecked increment (Queue.IncAllocatedResource) arms the quota preemption timer during the replay
		label = "quota-tight"
		tightenQueues(part.Queues, true)
		quotaPreemption(rng, part)
	case p < 66:
		// … with maxima that are exceeded later: by a later replayed allocation, an RM placement or a resize afterwards
		label = "quota-mid"
		setMaxQueues(part.Queues, true, fmt.Sprint(3+rng.Intn(8)))
		quotaPreemption(rng, part)
	case p < 80:
		// a queue (subtree) is gone; queues can still be created by the rule
		label = "dropq"
		if len(root.Queues) > 0 {
			i := rng.Intn(len(root.Queues))
			root.Queues = append(root.Queues[:i:i], root.Queues[i+1:]...)
		}
	case p < 92:
		// a queue is gone and the rules may not create queues any more
		label = "dropq-nocreate"
		if len(root.Queues) > 0 {
			i := rng.Intn(len(root.Queues))
			root.Queues = append(root.Queues[:i:i], root.Queues[i+1:]...)
		}
		for i := range part.PlacementRules {
			part.PlacementRules[i].Create = false
		}
	default:
		// leaf queues sort fair (no task groups), tighter quota on top
		label = "fair-tight"
		tightenQueues(part.Queues, true)
		var setFair func(qs []configs.QueueConfig)
		setFair = func(qs []configs.QueueConfig) {
			for i := range qs {
				if len(qs[i].Queues) == 0 && !qs[i].Parent {
					if qs[i].Properties == nil {
						qs[i].Properties = map[string]string{}
					}
					qs[i].Properties["application.sort.policy"] = "fair"
				}
				setFair(qs[i].Queues)
			}
		}
		setFair(root.Queues)
	}
	out, err := yaml.Marshal(sc)
	if err != nil {
		return "same", confA
	}
	if _, err := configs.LoadSchedulerConfigFromByteArray(out); err != nil {
		return "same", confA
	}
	return label, string(out)
}

// ---------------------------------------------------------------- the replay derived from the shim's book

type replayPlan struct {
	order string // k8shim | perapp | legal | any
	force string // all | bound
	drain bool   // nodes are registered draining and enabled after the replay (what the k8shim does)
	gone  bool   // pods whose release the core announced are already gone (not replayed)
	// askFirst: some bound pods are first replayed as outstanding asks and reported as bound later in the replay (a shim
	// that learns about the binding while it replays): the "ask -> allocation" transition branch of UpdateAllocation
	askFirst bool
}

func (b *shimBook) sortedBy(prefix string, keys []string) []string {
	sort.Slice(keys, func(i, j int) bool { return b.order[prefix+keys[i]] < b.order[prefix+keys[j]] })
	return keys
}

// items builds the replay in the order of the plan. Every item is an operation of the full-stack protocol plus
// "kind" (node | app | alloc | foreign | ask | undrain).
func (b *shimBook) items(rng *rand.Rand, plan replayPlan) (items []map[string]interface{}, omitted []string) {
	items, omitted = []map[string]interface{}{}, []string{}
	var nodes, apps, allocs, foreign, asks []map[string]interface{}
	nodeIDs := []string{}
	for id := range b.nodes {
		nodeIDs = append(nodeIDs, id)
	}
	for _, id := range b.sortedBy("n:", nodeIDs) {
		n := b.nodes[id]
		act := "create"
		if !n.sched || plan.drain {
			act = "create-drain"
		}
		nodes = append(nodes, map[string]interface{}{"kind": "node", "op": "node", "id": id, "action": act, "res": n.res})
	}
	keys := []string{}
	for k := range b.allocs {
		keys = append(keys, k)
	}
	hasBound := map[string]bool{}
	for _, k := range b.sortedBy("k:", keys) {
		a := b.allocs[k]
		if a.releasing != "" && (plan.gone || a.node == "") {
			// the core asked for this pod to be deleted: an outstanding ask is gone for the core already; a bound pod may
			// still be terminating (replayed) or be gone already
			omitted = append(omitted, k)
			continue
		}
		op := cloneOp(a.op)
		op["op"] = "alloc"
		op["node"] = a.node
		if a.node != "" {
			op["kind"] = "alloc"
			hasBound[a.app] = true
			if plan.askFirst && rng.Intn(2) == 0 {
				early := cloneOp(a.op)
				early["op"] = "alloc"
				early["node"] = ""
				early["kind"] = "ask"
				early["early"] = true
				// in a share of the cases the pod had another size when the shim sent the ask: the bind that follows
				// carries the size the shim holds now (resource change of a pending ask + transition in one update)
				if rng.Intn(100) < 45 {
					early["res"] = encRes(otherSize(rng, decRes(norm(map[string]interface{}{"r": a.op["res"]})["r"])))
					early["resized"] = true
				}
				asks = append(asks, early)
				op["kind"] = "bind"
			}
			allocs = append(allocs, op)
		} else {
			op["kind"] = "ask"
			asks = append(asks, op)
		}
	}
	appIDs := []string{}
	for id := range b.apps {
		appIDs = append(appIDs, id)
	}
	for _, id := range b.sortedBy("a:", appIDs) {
		op := cloneOp(b.apps[id])
		op["kind"] = "app"
		tags := map[string]interface{}{}
		if t, ok := op["tags"].(map[string]interface{}); ok {
			for k, v := range t {
				tags[k] = v
			}
		}
		forced := plan.force == "all" || hasBound[id]
		if forced {
			tags[siCommon.AppTagCreateForce] = "true"
		}
		op["tags"] = tags
		op["forced"] = forced
		apps = append(apps, op)
	}
	fkeys := []string{}
	for k := range b.foreign {
		fkeys = append(fkeys, k)
	}
	for _, k := range b.sortedBy("k:", fkeys) {
		f := b.foreign[k]
		foreign = append(foreign, map[string]interface{}{"kind": "foreign", "op": "alloc", "app": "", "key": k, "node": f.node, "res": f.res, "foreign": true, "ctime": 1})
	}
	shuffle := func(l []map[string]interface{}) {
		rng.Shuffle(len(l), func(i, j int) { l[i], l[j] = l[j], l[i] })
	}
	switch plan.order {
	case "k8shim":
		// nodes, applications, allocations, foreign pods, asks (each group in the order the shim first saw them)
		items = append(append(items, nodes...), apps...)
		late := []map[string]interface{}{}
		for _, x := range asks {
			if jsonBool(x["early"]) {
				items = append(items, x)
			} else {
				late = append(late, x)
			}
		}
		items = append(append(append(items, allocs...), foreign...), late...)
	case "perapp":
		// nodes first; then application by application with its allocations and asks, foreign pods in between
		shuffle(nodes)
		shuffle(apps)
		items = append(items, nodes...)
		rest := append([]map[string]interface{}{}, foreign...)
		for _, a := range apps {
			mine := []map[string]interface{}{}
			for _, x := range append(append([]map[string]interface{}{}, allocs...), asks...) {
				if jsonStr(x["app"]) == jsonStr(a["id"]) {
					mine = append(mine, x)
				}
			}
			shuffle(mine)
			askBeforeBind(mine)
			items = append(items, a)
			items = append(items, mine...)
			if len(rest) > 0 && rng.Intn(2) == 0 {
				items = append(items, rest[0])
				rest = rest[1:]
			}
		}
		items = append(items, rest...)
		// allocations / asks of applications the shim does not hold any more never reach here (removed with the app)
	default:
		// a random order; "legal": every allocation / ask / foreign pod after its node and its application
		all := append(append(append(append(append([]map[string]interface{}{}, nodes...), apps...), allocs...), foreign...), asks...)
		shuffle(all)
		if plan.order == "any" {
			askBeforeBind(all)
			items = all
			break
		}
		doneN, doneA, doneK := map[string]bool{}, map[string]bool{}, map[string]bool{}
		for len(all) > 0 {
			progress := false
			rest := all[:0:0]
			for _, x := range all {
				ok := true
				switch x["kind"] {
				case "bind":
					ok = doneN[jsonStr(x["node"])] && doneA[jsonStr(x["app"])] && doneK[jsonStr(x["key"])]
				case "alloc", "foreign":
					ok = doneN[jsonStr(x["node"])] && (x["kind"] == "foreign" || doneA[jsonStr(x["app"])])
				case "ask":
					ok = doneA[jsonStr(x["app"])]
				}
				// take a ready item with probability 1/2 so that independent items interleave
				if ok && (rng.Intn(2) == 0 || !progress) {
					items = append(items, x)
					progress = true
					switch x["kind"] {
					case "node":
						doneN[jsonStr(x["id"])] = true
					case "app":
						doneA[jsonStr(x["id"])] = true
					case "ask":
						doneK[jsonStr(x["key"])] = true
					}
				} else {
					rest = append(rest, x)
				}
			}
			if !progress {
				// an allocation whose node or application the shim does not hold (never replayable in a legal order)
				items = append(items, rest...)
				break
			}
			all = rest
		}
	}
	if plan.drain {
		for _, id := range b.sortedBy("n:", nodeIDs) {
			if b.nodes[id].sched {
				items = append(items, map[string]interface{}{"kind": "undrain", "op": "node", "id": id, "action": "undrain"})
			}
		}
	}
	return items, omitted
}

// otherSize: a size different from r: larger, smaller (never below 1 on cpu), or with another set of types
func otherSize(rng *rand.Rand, r *resources.Resource) *resources.Resource {
	nr := r.Clone()
	switch rng.Intn(4) {
	case 0:
		nr.Resources["cpu"] += resources.Quantity(1 + rng.Intn(3))
	case 1:
		changed := false
		for _, t := range []string{"cpu", "mem"} {
			if nr.Resources[t] > 1 {
				nr.Resources[t]--
				changed = true
			}
		}
		if !changed {
			nr.Resources["cpu"] += 2
		}
	case 2:
		// another type set: mem appears or disappears
		if _, ok := nr.Resources["mem"]; ok && nr.Resources["cpu"] > 0 {
			delete(nr.Resources, "mem")
		} else {
			nr.Resources["mem"] = resources.Quantity(1 + rng.Intn(4))
		}
	default:
		nr.Resources["cpu"] += resources.Quantity(1 + rng.Intn(2))
		if nr.Resources["mem"] > 1 {
			nr.Resources["mem"]--
		} else {
			nr.Resources["mem"] = 2
		}
	}
	return nr
}

// askBeforeBind swaps a "bind" item with the ask of the same key when the shuffle put it first
func askBeforeBind(l []map[string]interface{}) {
	pos := map[string]int{}
	for i, x := range l {
		if x["kind"] == "bind" {
			pos[jsonStr(x["key"])] = i
		}
	}
	for i, x := range l {
		if x["kind"] == "ask" && jsonBool(x["early"]) {
			if j, ok := pos[jsonStr(x["key"])]; ok && j < i {
				l[i], l[j] = l[j], l[i]
			}
		}
	}
}

// ---------------------------------------------------------------- one history

type crashNow struct{}

type recoverCase struct {
	confA, confB, cfgLabel, deny string
	hist                         []map[string]interface{}
	plan                         replayPlan
	rseed                        int64
	gen                          string
}

// runA executes the history on core A; `next` delivers the operations (generator or recorded list). Returns the book,
// the dump of A at the crash point and whether the history is usable.
func recoverRunA(c *Ctx, d *coreDrv, rc *recoverCase, book *shimBook, drive func()) (dumpA interface{}, ok bool) {
	bad := false
	d.obs = func(op, line map[string]interface{}) bool {
		if jsonStr(op["op"]) == "reset" {
			rc.confA = jsonStr(op["config"])
			rc.deny = jsonStr(op["deny"])
			return true
		}
		if line["panic"] != nil {
			bad = true
			panic(crashNow{})
		}
		rc.hist = append(rc.hist, op)
		msgs, _ := line["msgs"].([]map[string]interface{})
		book.observe(op, msgs)
		dumpA = line["st"]
		return true
	}
	func() {
		defer func() {
			if r := recover(); r != nil {
				if _, isCrash := r.(crashNow); !isCrash {
					panic(r)
				}
			}
		}()
		drive()
	}()
	d.obs = nil
	return dumpA, !bad && d.s != nil && dumpA != nil
}

func planOf(rng *rand.Rand) replayPlan {
	p := replayPlan{}
	switch x := rng.Intn(100); {
	case x < 30:
		p.order = "k8shim"
	case x < 55:
		p.order = "perapp"
	case x < 94:
		p.order = "legal"
	default:
		p.order = "any"
	}
	p.force = "all"
	if rng.Intn(100) < 35 {
		p.force = "bound"
	}
	p.drain = rng.Intn(100) < 40
	p.gone = rng.Intn(100) < 25
	p.askFirst = rng.Intn(100) < 40
	return p
}

// recoverB replays the book on a fresh core and emits the two-execution line.
func recoverB(c *Ctx, d *coreDrv, rc *recoverCase, book *shimBook, dumpA interface{}) bool {
	rng := rand.New(rand.NewSource(rc.rseed))
	items, omitted := book.items(rng, rc.plan)
	// core A is gone
	d.s.cc.Stop()
	line := map[string]interface{}{"c": d.id, "op": "reset", "config": rc.confA, "configB": rc.confB, "cfg": rc.cfgLabel, "deny": rc.deny, "hist": rc.hist,
		"rseed": rc.rseed, "gen": rc.gen, "order": rc.plan.order, "force": rc.plan.force, "drain": rc.plan.drain, "gone": rc.plan.gone, "askFirst": rc.plan.askFirst}
	s, err := newCoreStack(rc.confB)
	if err != nil {
		d.s = nil
		line["error"] = err.Error()
		c.emit(line)
		return false
	}
	d.s = s
	for _, k := range strings.Fields(rc.deny) {
		s.pred.deny[k] = true
	}
	b0 := s.dump()
	for _, it := range items {
		op := norm(it)
		delete(op, "kind")
		delete(op, "forced")
		delete(op, "early")
		delete(op, "resized")
		scratch := map[string]interface{}{}
		func() {
			defer func() {
				if r := recover(); r != nil {
					it["panic"] = fmt.Sprint(r)
					line["panic"] = fmt.Sprint(r)
				}
			}()
			d.exec(jsonStr(op["op"]), op, scratch)
		}()
		d.settle()
		it["msgs"] = s.h.take()
		if it["kind"] == "app" {
			// the placement decision of the implementation (the queue PlaceApplication chose, also when AddApplication
			// refused the application afterwards) and whether that queue supports task groups (FIFO leaf)
			placed, fifo := "", true
			if msgHas(it["msgs"].([]map[string]interface{}), "app-accepted", "app", jsonStr(it["id"])) {
				if app := s.part.GetApplication(jsonStr(it["id"])); app != nil {
					placed = app.GetQueuePath()
				}
			} else {
				for _, ra := range s.part.GetRejectedApplications() {
					if ra.ApplicationID == jsonStr(it["id"]) {
						placed = ra.GetQueuePath()
					}
				}
			}
			if q := s.part.GetQueue(placed); q != nil {
				fifo = q.SupportTaskGroup()
			}
			it["placed"] = placed
			it["fifo"] = fifo
		}
		c.stat("replay:" + jsonStr(it["kind"]))
	}
	line["st"] = map[string]interface{}{"a": dumpA, "b0": b0, "items": items, "omitted": omitted, "b": s.dump()}
	recoverStats(c, dumpA, book, items)
	c.stat("cfg:" + rc.cfgLabel)
	c.stat("order:" + rc.plan.order)
	c.emit(line)
	return true
}

// recoverStats counts the situations the old core was stopped in (generator distribution of the evidence).
func recoverStats(c *Ctx, dumpA interface{}, book *shimBook, items []map[string]interface{}) {
	a, _ := dumpA.(map[string]interface{})
	apps, _ := a["apps"].([]map[string]interface{})
	seen := map[string]bool{}
	for _, ap := range apps {
		if ap["where"] != "live" {
			continue
		}
		seen["app-"+jsonStr(ap["state"])] = true
		if r, ok := ap["reservations"].([][]string); ok && len(r) > 0 {
			seen["reservation"] = true
		}
		its, _ := ap["items"].([]map[string]interface{})
		for _, i := range its {
			if jsonBool(i["allocated"]) && !jsonBool(i["bound"]) && !jsonBool(i["ph"]) && i["release"] != nil {
				seen["swap-in-flight"] = true
				for _, p := range its {
					if p["key"] == i["release"] && p["node"] != i["node"] {
						seen["swap-in-flight-cross-node"] = true
					}
				}
			}
			if jsonBool(i["bound"]) && jsonBool(i["preempted"]) {
				seen["preempted-unconfirmed"] = true
			}
			if jsonBool(i["bound"]) && jsonBool(i["released"]) && jsonBool(i["ph"]) && i["release"] == nil {
				seen["placeholder-timeout-unconfirmed"] = true
			}
		}
	}
	nodes, _ := a["nodes"].([]map[string]interface{})
	for _, n := range nodes {
		if !jsonBool(n["schedulable"]) {
			seen["drained-node"] = true
		}
		if al, ok := n["allocs"].([]map[string]interface{}); ok {
			for _, x := range al {
				if jsonBool(x["foreign"]) {
					seen["foreign-pod"] = true
				}
			}
		}
	}
	for _, al := range book.allocs {
		if al.releasing != "" {
			seen["release-unconfirmed"] = true
		}
	}
	nb := 0
	for _, it := range items {
		if it["kind"] == "alloc" || it["kind"] == "bind" {
			nb++
		}
		if it["kind"] == "bind" {
			seen["ask-then-bound"] = true
		}
		if jsonBool(it["resized"]) {
			seen["ask-then-bound-resized"] = true
			c.stat("replay:bind-resized")
		}
	}
	if nb > 0 {
		seen["bound-allocations"] = true
	}
	if len(items) == 0 {
		seen["nothing-to-replay"] = true
	}
	for k := range seen {
		c.stat("crash:" + k)
	}
}

// recoverPost: the restarted core keeps scheduling: cycles, new asks, releases, confirmations delivered at once.
func recoverPost(c *Ctx, d *coreDrv, book *shimBook, n int) {
	s := &shimSim{c: c, d: d, nodes: map[string]bool{}, apps: map[string]bool{}, asks: map[string]*shimAsk{}, bound: map[string]string{}, foreign: map[string]string{}, gang: map[string]bool{}}
	for id := range book.nodes {
		if d.s.part.GetNode(id) != nil {
			s.nodes[id] = true
		}
	}
	for id := range book.apps {
		if d.s.part.GetApplication(id) != nil {
			s.apps[id] = true
			s.appList = append(s.appList, id)
		}
	}
	sort.Strings(s.appList)
	for k, a := range book.allocs {
		if app := d.s.part.GetApplication(a.app); app != nil && app.GetAllocationAsk(k) != nil {
			s.asks[k] = &shimAsk{app: a.app, key: k, res: decRes(a.op["res"]), ph: jsonBool(a.op["ph"]), tg: jsonStr(a.op["tg"])}
			if a.node != "" {
				s.bound[k] = a.node
			}
		}
	}
	emit := func(op map[string]interface{}) { d.applyWithTap(op, s.absorb) }
	confirmAll := func() {
		for len(s.pendConf) > 0 {
			conf := s.pendConf[0]
			s.pendConf = s.pendConf[1:]
			delete(s.asks, conf["key"].(string))
			delete(s.bound, conf["key"].(string))
			emit(conf)
		}
	}
	s.seq = 9000
	boundKeys := func(realOnly bool) []string {
		keys := []string{}
		for k := range s.bound {
			if a := s.asks[k]; a != nil && (!realOnly || !a.ph) {
				keys = append(keys, k)
			}
		}
		return sortStrings(keys)
	}
	// outstanding asks from the shim's point of view. The real half of a placeholder replacement in flight is left alone:
	// resizing / placing it is a full-stack situation of its own (C03 / C06), not a recovery matter
	openKeys := func() []string {
		keys := []string{}
		for k, a := range s.asks {
			if s.bound[k] != "" || a == nil {
				continue
			}
			if app := d.s.part.GetApplication(a.app); app != nil {
				if ask := app.GetAllocationAsk(k); ask != nil && !ask.IsAllocated() {
					keys = append(keys, k)
				}
			}
		}
		return sortStrings(keys)
	}
	for j := 0; j < n; j++ {
		apps := sortedKeys(s.apps)
		nodes := sortedKeys(s.nodes)
		p := c.pick(100)
		switch {
		case p < 34 || len(apps) == 0:
			emit(map[string]interface{}{"op": "schedule"})
		case p < 46:
			app := s.pickFrom(apps)
			key := s.newKey("z")
			ask := &shimAsk{app: app, key: key, res: s.askRes()}
			emit(map[string]interface{}{"op": "alloc", "app": app, "key": key, "res": encRes(ask.res), "ctime": s.seq, "prio": c.pick(3), "preemptOther": c.chance(0.5)})
			s.asks[key] = ask
		case p < 60:
			// the shim reports an outstanding ask as bound (it placed the pod itself / learned about the binding late):
			// the "ask -> allocation" transition of UpdateAllocation, no quota and no capacity check
			if keys := openKeys(); len(keys) > 0 && len(nodes) > 0 {
				k := s.pickFrom(keys)
				a := s.asks[k]
				node := s.pickFrom(nodes)
				c.stat("post:rm-placement")
				if c.chance(0.4) {
					// … with another size than the ask the core holds: resource change of the pending ask and transition
					c.stat("post:rm-placement-resized")
					a.res = otherSize(c.rng, a.res)
				}
				emit(map[string]interface{}{"op": "alloc", "app": a.app, "key": k, "node": node, "res": encRes(a.res), "ph": a.ph, "tg": a.tg, "ctime": 1})
				if d.s.part.GetApplication(a.app) != nil && d.s.part.GetApplication(a.app).GetAllocationAsk(k) != nil &&
					d.s.part.GetApplication(a.app).GetAllocationAsk(k).IsAllocated() {
					s.bound[k] = node
				}
			}
		case p < 76:
			// in-place resize of a bound allocation (up or down), sometimes of an outstanding ask
			keys := boundKeys(false)
			if c.chance(0.15) {
				keys = openKeys()
			}
			if len(keys) > 0 {
				k := s.pickFrom(keys)
				a := s.asks[k]
				nr := a.res.Clone()
				if c.chance(0.5) {
					c.stat("post:resize-up")
					nr.Resources["cpu"] += resources.Quantity(1 + c.pick(3))
					if c.chance(0.3) {
						nr.Resources["mem"] += resources.Quantity(1 + c.pick(3))
					}
				} else {
					c.stat("post:resize-down")
					for t, v := range nr.Resources {
						if v > 1 {
							nr.Resources[t] = v - 1
						}
					}
				}
				emit(map[string]interface{}{"op": "alloc", "app": a.app, "key": k, "node": s.bound[k], "res": encRes(nr), "ph": a.ph, "tg": a.tg, "ctime": 1})
				a.res = nr
			}
		case p < 90:
			if keys := boundKeys(true); len(keys) > 0 {
				k := s.pickFrom(keys)
				c.stat("post:release")
				emit(map[string]interface{}{"op": "release", "app": s.asks[k].app, "key": k, "type": "STOPPED_BY_RM"})
				delete(s.asks, k)
				delete(s.bound, k)
			}
		case p < 96:
			// a node leaves: everything on it is released through the objects the node holds
			if len(nodes) > 0 {
				id := s.pickFrom(nodes)
				c.stat("post:decommission")
				emit(map[string]interface{}{"op": "node", "id": id, "action": "decommission"})
				delete(s.nodes, id)
				for k, nd := range s.foreign {
					if nd == id {
						delete(s.foreign, k)
					}
				}
			}
		default:
			if len(nodes) > 0 {
				emit(map[string]interface{}{"op": "node", "id": s.pickFrom(nodes), "action": []string{"drain", "undrain"}[c.pick(2)]})
			}
		}
		confirmAll()
	}
}

func runRecover(c *Ctx) {
	d := &coreDrv{c: c, id: "recover"}
	if replayFile != "" {
		recoverReplayFile(c, d)
		return
	}
	for it := 0; it < c.n; it++ {
		rc := &recoverCase{rseed: int64(c.rng.Int63n(1 << 40))}
		book := newShimBook()
		// the crash point: after that many operations (or at the end of the history), earlier when something is in flight
		crashAt := 4 + c.pick(110)
		inflightP := 0.0
		if c.chance(0.6) {
			inflightP = 0.35
		}
		count := 0
		gen := coreHistory
		rc.gen = "core"
		switch it % 5 {
		case 2, 3:
			gen, rc.gen = gangHistory, "gang"
			// replacements start late in a gang history: stop later, and more often right when one is in flight
			if c.chance(0.7) {
				crashAt = 25 + c.pick(90)
				inflightP = 0.45
			}
		case 4:
			gen, rc.gen = preemptHistory, "preempt"
		}
		var dumpA interface{}
		var ok bool
		dumpA, ok = recoverRunA(c, d, rc, book, func() {
			// wrap the observer installed by recoverRunA with the crash decision
			base := d.obs
			d.obs = func(op, line map[string]interface{}) bool {
				r := base(op, line)
				if jsonStr(op["op"]) == "reset" {
					return r
				}
				count++
				crash := count >= crashAt
				if !crash && inflightP > 0 {
					if msgs, _ := line["msgs"].([]map[string]interface{}); len(msgs) > 0 {
						for _, m := range msgs {
							if m["t"] != "release" {
								continue
							}
							switch jsonStr(m["type"]) {
							case "PLACEHOLDER_REPLACED":
								// a placeholder replacement is in flight now
								c.stat("seen:placeholder-replaced")
								if c.chance(inflightP * 1.6) {
									crash = true
								}
							case "TIMEOUT", "PREEMPTED_BY_SCHEDULER":
								if c.chance(inflightP * 0.6) {
									crash = true
								}
							}
						}
					}
				}
				if crash {
					panic(crashNow{})
				}
				return r
			}
			gen(c, d)
		})
		if !ok {
			c.stat("history-unusable")
			continue
		}
		rc.plan = planOf(c.rng)
		rc.cfgLabel, rc.confB = configB(c.rng, rc.confA)
		if recoverB(c, d, rc, book, dumpA) {
			recoverPost(c, d, book, 8+c.pick(14))
		}
	}
}

// recoverReplayFile re-executes the inputs of a replay / corpus file: the history on a fresh core A, the replay (order
// re-derived from the recorded seed and plan) on a fresh core B, then the recorded operations on B.
func recoverReplayFile(c *Ctx, d *coreDrv) {
	for _, in := range readReplay(replayFile) {
		if jsonStr(in["op"]) == "reset" {
			rc := &recoverCase{confA: jsonStr(in["config"]), confB: jsonStr(in["configB"]), cfgLabel: jsonStr(in["cfg"]), rseed: jsonInt(in["rseed"]), gen: jsonStr(in["gen"]),
				plan: replayPlan{order: jsonStr(in["order"]), force: jsonStr(in["force"]), drain: jsonBool(in["drain"]), gone: jsonBool(in["gone"]), askFirst: jsonBool(in["askFirst"])}}
			deny := jsonStr(in["deny"])
			hist, _ := in["hist"].([]interface{})
			book := newShimBook()
			dumpA, ok := recoverRunA(c, d, rc, book, func() {
				d.apply(map[string]interface{}{"op": "reset", "config": rc.confA, "deny": deny})
				if d.s == nil {
					return
				}
				for _, h := range hist {
					if op, isMap := h.(map[string]interface{}); isMap {
						d.apply(op)
					}
				}
			})
			if !ok {
				c.stat("history-unusable")
				d.s = nil
				continue
			}
			recoverB(c, d, rc, book, dumpA)
			continue
		}
		if d.s == nil {
			continue
		}
		op := map[string]interface{}{}
		for k, v := range in {
			if k != "st" && k != "msgs" && k != "c" && k != "out" && k != "panic" && k != "error" && k != "hang" {
				op[k] = v
			}
		}
		d.apply(op)
	}
}
