package main

// Full-stack harness: a real ClusterContext driven synchronously (hooks, build tag verif) with SI requests,
// scheduling cycles, timer firings and shim confirmations. After every operation the complete observable state
// (nodes, queues, applications, partition counters, user/group trackers) and the messages sent to the shim are dumped.

import (
	"fmt"
	"os"
	"runtime"
	"sort"
	"strings"
	"sync"
	"time"

	"github.com/apache/yunikorn-core/pkg/common/resources"
	"github.com/apache/yunikorn-core/pkg/plugins"
	"github.com/apache/yunikorn-core/pkg/rmproxy/rmevent"
	"github.com/apache/yunikorn-core/pkg/scheduler"
	"github.com/apache/yunikorn-core/pkg/scheduler/objects"
	"github.com/apache/yunikorn-core/pkg/scheduler/ugm"
	"github.com/apache/yunikorn-core/pkg/webservice/dao"
	siCommon "github.com/apache/yunikorn-scheduler-interface/lib/go/common"
	"github.com/apache/yunikorn-scheduler-interface/lib/go/si"
)

const (
	coreRM   = "rm-verif"
	corePart = "[rm-verif]default"
)

// ---------------------------------------------------------------- shim side: event recorder + predicate plugin

type shimHandler struct {
	sync.Mutex
	msgs []map[string]interface{}
}

func (h *shimHandler) add(m map[string]interface{}) {
	h.Lock()
	h.msgs = append(h.msgs, m)
	h.Unlock()
}

func (h *shimHandler) take() []map[string]interface{} {
	h.Lock()
	defer h.Unlock()
	out := h.msgs
	h.msgs = nil
	if out == nil {
		out = []map[string]interface{}{}
	}
	return out
}

func reply(ch chan *rmevent.Result) {
	if ch != nil {
		go func() { ch <- &rmevent.Result{Succeeded: true} }()
	}
}

// HandleEvent is what RMProxy.HandleEvent would receive.
func (h *shimHandler) HandleEvent(ev interface{}) {
	switch v := ev.(type) {
	case *rmevent.RMNewAllocationsEvent:
		for _, a := range v.Allocations {
			h.add(map[string]interface{}{"t": "alloc", "key": a.AllocationKey, "app": a.ApplicationID, "node": a.NodeID, "ph": a.Placeholder})
		}
		reply(v.Channel)
	case *rmevent.RMReleaseAllocationEvent:
		for _, r := range v.ReleasedAllocations {
			h.add(map[string]interface{}{"t": "release", "key": r.AllocationKey, "app": r.ApplicationID, "type": r.TerminationType.String()})
		}
		reply(v.Channel)
	case *rmevent.RMApplicationUpdateEvent:
		for _, a := range v.AcceptedApplications {
			h.add(map[string]interface{}{"t": "app-accepted", "app": a.ApplicationID})
		}
		for _, a := range v.RejectedApplications {
			h.add(map[string]interface{}{"t": "app-rejected", "app": a.ApplicationID, "reason": a.Reason})
		}
		for _, a := range v.UpdatedApplications {
			h.add(map[string]interface{}{"t": "app-state", "app": a.ApplicationID, "state": a.State})
		}
	case *rmevent.RMRejectedAllocationEvent:
		for _, a := range v.RejectedAllocations {
			h.add(map[string]interface{}{"t": "alloc-rejected", "key": a.AllocationKey, "app": a.ApplicationID})
		}
	case *rmevent.RMNodeUpdateEvent:
		for _, n := range v.AcceptedNodes {
			h.add(map[string]interface{}{"t": "node-accepted", "node": n.NodeID})
		}
		for _, n := range v.RejectedNodes {
			h.add(map[string]interface{}{"t": "node-rejected", "node": n.NodeID})
		}
	default:
		h.add(map[string]interface{}{"t": "other", "type": fmt.Sprintf("%T", ev)})
	}
}

// predicate plugin: refuses the (allocation, node) pairs listed in `deny`; records what it was asked.
type predPlugin struct {
	sync.Mutex
	deny  map[string]bool
	asked map[string]bool // key|node with allocate=true that passed
}

func (p *predPlugin) UpdateAllocation(*si.AllocationResponse) error   { return nil }
func (p *predPlugin) UpdateApplication(*si.ApplicationResponse) error { return nil }
func (p *predPlugin) UpdateNode(*si.NodeResponse) error               { return nil }
func (p *predPlugin) Predicates(args *si.PredicatesArgs) error {
	p.Lock()
	defer p.Unlock()
	k := args.AllocationKey + "|" + args.NodeID
	// "key|node" denies in both modes, "key|node|a" only when asked in allocate mode (a reservation would be fine)
	if p.deny[k] || (args.Allocate && p.deny[k+"|a"]) {
		return fmt.Errorf("predicate denied %s", k)
	}
	if args.Allocate {
		p.asked[k] = true
	}
	return nil
}

// takeAsked returns (and forgets) the (key|node) pairs the plugin accepted in allocate mode since the last call
func (p *predPlugin) takeAsked() []string {
	p.Lock()
	defer p.Unlock()
	out := make([]string, 0, len(p.asked))
	for k := range p.asked {
		out = append(out, k)
	}
	sort.Strings(out)
	p.asked = map[string]bool{}
	return out
}
func (p *predPlugin) PreemptionPredicates(args *si.PreemptionPredicatesArgs) *si.PreemptionPredicatesResponse {
	p.Lock()
	defer p.Unlock()
	if p.deny[args.AllocationKey+"|"+args.NodeID] {
		return &si.PreemptionPredicatesResponse{Success: false, Index: -1}
	}
	// succeeds once all offered victims are removed
	return &si.PreemptionPredicatesResponse{Success: true, Index: int32(len(args.PreemptAllocationKeys)) - 1}
}
func (p *predPlugin) SendEvent([]*si.EventRecord)                                              {}
func (p *predPlugin) UpdateContainerSchedulingState(*si.UpdateContainerSchedulingStateRequest) {}

// ---------------------------------------------------------------- the stack

type coreStack struct {
	conf string // the configuration the stack was started with
	cc   *scheduler.ClusterContext
	part *scheduler.PartitionContext
	h    *shimHandler
	pred *predPlugin
}

func newCoreStack(conf string) (*coreStack, error) {
	um := ugm.GetUserManager()
	um.ClearUserTrackers()
	um.ClearGroupTrackers()
	um.ClearConfigLimits()
	objects.SetReservationDelay(0) // reservations happen on the first failed attempt
	cc, err := scheduler.NewClusterContext(coreRM, "policygroup", []byte(conf))
	if err != nil {
		return nil, err
	}
	s := &coreStack{conf: conf, cc: cc, h: &shimHandler{}, pred: &predPlugin{deny: map[string]bool{}, asked: map[string]bool{}}}
	cc.VerifSetEventHandler(s.h)
	plugins.RegisterSchedulerPlugin(s.pred)
	s.part = cc.GetPartition(corePart)
	if s.part == nil {
		return nil, fmt.Errorf("partition %s not found", corePart)
	}
	return s, nil
}

// ---------------------------------------------------------------- dump

func resOrEmpty(r *resources.Resource) interface{} {
	if r == nil {
		return [][]interface{}{}
	}
	return encRes(r)
}

func dumpAllocItem(a *objects.Allocation, bound bool) map[string]interface{} {
	m := map[string]interface{}{
		"key": a.GetAllocationKey(), "res": resOrEmpty(a.GetAllocatedResource()), "ph": a.IsPlaceholder(), "tg": a.GetTaskGroup(),
		"allocated": a.IsAllocated(), "node": a.GetNodeID(), "bound": bound, "released": a.IsReleased(), "preempted": a.IsPreempted(),
		"reqNode": a.GetRequiredNode(), "prio": a.GetPriority(),
	}
	if r := a.GetRelease(); r != nil {
		m["release"] = r.GetAllocationKey()
	}
	return m
}

func (s *coreStack) dumpApp(app *objects.Application, where string) map[string]interface{} {
	items := []map[string]interface{}{}
	seen := map[string]bool{}
	for _, a := range app.GetAllAllocations() {
		items = append(items, dumpAllocItem(a, true))
		seen[a.GetAllocationKey()] = true
	}
	inReq := map[string]bool{}
	for _, a := range app.GetAllRequests() {
		inReq[a.GetAllocationKey()] = true
		if !seen[a.GetAllocationKey()] {
			items = append(items, dumpAllocItem(a, false))
		}
	}
	for _, it := range items {
		it["inReq"] = inReq[it["key"].(string)]
	}
	sort.Slice(items, func(i, j int) bool { return items[i]["key"].(string) < items[j]["key"].(string) })
	resv := [][]string{}
	for _, k := range app.GetReservations() {
		resv = append(resv, []string{k, app.NodeReservedForAsk(k)})
	}
	sort.Slice(resv, func(i, j int) bool { return resv[i][0] < resv[j][0] })
	phd := []map[string]interface{}{}
	for _, d := range app.GetAllPlaceholderData() {
		phd = append(phd, map[string]interface{}{"tg": d.TaskGroupName, "count": d.Count, "replaced": d.Replaced, "timedout": d.TimedOut})
	}
	sort.Slice(phd, func(i, j int) bool { return phd[i]["tg"].(string) < phd[j]["tg"].(string) })
	log := []string{}
	for _, e := range app.GetStateLog() {
		log = append(log, e.ApplicationState)
	}
	phT, stT := app.VerifTimers()
	return map[string]interface{}{
		"id": app.ApplicationID, "where": where, "queue": app.GetQueuePath(), "state": app.CurrentState(), "user": app.GetUser().User,
		"pending": resOrEmpty(app.GetPendingResource()), "allocated": resOrEmpty(app.GetAllocatedResource()), "allocatedPh": resOrEmpty(app.GetPlaceholderResource()),
		"phAsk": resOrEmpty(app.GetPlaceholderAsk()), "items": items, "reservations": resv, "phData": phd, "log": log, "phTimer": phT, "stateTimer": stT, "forced": app.IsCreateForced(),
	}
}

func (s *coreStack) dumpQueues(q *objects.Queue, parent string, out *[]map[string]interface{}) {
	apps := []string{}
	for id := range q.GetCopyOfApps() {
		apps = append(apps, id)
	}
	sort.Strings(apps)
	resv := [][]interface{}{}
	for a, n := range q.GetReservedApps() {
		resv = append(resv, []interface{}{a, n})
	}
	sort.Slice(resv, func(i, j int) bool { return resv[i][0].(string) < resv[j][0].(string) })
	var par interface{}
	if parent != "" {
		par = parent
	}
	*out = append(*out, map[string]interface{}{
		"path": q.GetQueuePath(), "parent": par, "leaf": q.IsLeafQueue(), "managed": q.IsManaged(), "state": q.CurrentState(),
		"max": encRes(q.VerifMaxResourceRaw()), "guaranteed": encRes(q.GetGuaranteedResource()), "allocated": resOrEmpty(q.GetAllocatedResource()),
		"pending": resOrEmpty(q.GetPendingResource()), "preempting": resOrEmpty(q.GetPreemptingResource()),
		"maxApps": q.GetMaxApps(), "running": q.VerifRunningApps(), "allocating": q.VerifAllocatingAccepted(), "apps": apps, "reserved": resv,
	})
	children := q.GetCopyOfChildren()
	names := make([]string, 0, len(children))
	for n := range children {
		names = append(names, n)
	}
	sort.Strings(names)
	for _, n := range names {
		s.dumpQueues(children[n], q.GetQueuePath(), out)
	}
}

func flattenUsage(d *dao.ResourceUsageDAOInfo, out *[]map[string]interface{}) {
	if d == nil {
		return
	}
	apps := append([]string{}, d.RunningApplications...)
	sort.Strings(apps)
	m := map[string]interface{}{"path": d.QueuePath, "usage": mapRes(d.ResourceUsage), "apps": apps, "maxApps": d.MaxApplications}
	if d.MaxResources != nil {
		m["max"] = mapRes(d.MaxResources)
	} else {
		m["max"] = nil
	}
	*out = append(*out, m)
	for _, c := range d.Children {
		flattenUsage(c, out)
	}
}

func mapRes(m map[string]int64) interface{} {
	keys := make([]string, 0, len(m))
	for k := range m {
		keys = append(keys, k)
	}
	sort.Strings(keys)
	out := make([][]interface{}, 0, len(keys))
	for _, k := range keys {
		out = append(out, []interface{}{k, m[k]})
	}
	return out
}

func (s *coreStack) dump() map[string]interface{} {
	nodes := []map[string]interface{}{}
	ns := s.part.GetNodes()
	sort.Slice(ns, func(i, j int) bool { return ns[i].NodeID < ns[j].NodeID })
	for _, n := range ns {
		d := dumpNode(n)
		d["id"] = n.NodeID
		keys := n.GetReservationKeys()
		sort.Strings(keys)
		d["reservations"] = keys
		// allocations with their application
		allocs := []map[string]interface{}{}
		all := append(n.GetYunikornAllocations(), n.GetForeignAllocations()...)
		sort.Slice(all, func(i, j int) bool { return all[i].GetAllocationKey() < all[j].GetAllocationKey() })
		for _, a := range all {
			m := encNAlloc(a)
			m["app"] = a.GetApplicationID()
			m["ph"] = a.IsPlaceholder()
			allocs = append(allocs, m)
		}
		d["allocs"] = allocs
		nodes = append(nodes, d)
	}
	queues := []map[string]interface{}{}
	s.dumpQueues(s.part.GetQueue("root"), "", &queues)
	apps := []map[string]interface{}{}
	for _, a := range s.part.GetApplications() {
		apps = append(apps, s.dumpApp(a, "live"))
	}
	for _, a := range s.part.GetCompletedApplications() {
		apps = append(apps, s.dumpApp(a, "completed"))
	}
	for _, a := range s.part.GetRejectedApplications() {
		apps = append(apps, s.dumpApp(a, "rejected"))
	}
	sort.Slice(apps, func(i, j int) bool {
		return apps[i]["id"].(string)+apps[i]["where"].(string) < apps[j]["id"].(string)+apps[j]["where"].(string)
	})
	al, ph, rs := s.part.VerifCounters()
	users := []map[string]interface{}{}
	for _, ut := range ugm.GetUserManager().GetUserTrackers() {
		d := ut.GetResourceUsageDAOInfo()
		qs := []map[string]interface{}{}
		flattenUsage(d.Queues, &qs)
		sort.Slice(qs, func(i, j int) bool { return qs[i]["path"].(string) < qs[j]["path"].(string) })
		groups := [][]string{}
		for a, g := range d.Groups {
			groups = append(groups, []string{a, g})
		}
		sort.Slice(groups, func(i, j int) bool { return groups[i][0] < groups[j][0] })
		users = append(users, map[string]interface{}{"name": d.UserName, "queues": qs, "groups": groups})
	}
	sort.Slice(users, func(i, j int) bool { return users[i]["name"].(string) < users[j]["name"].(string) })
	groups := []map[string]interface{}{}
	for _, gt := range ugm.GetUserManager().GetGroupTrackers() {
		d := gt.GetResourceUsageDAOInfo()
		qs := []map[string]interface{}{}
		flattenUsage(d.Queues, &qs)
		sort.Slice(qs, func(i, j int) bool { return qs[i]["path"].(string) < qs[j]["path"].(string) })
		apps := append([]string{}, d.Applications...)
		sort.Strings(apps)
		groups = append(groups, map[string]interface{}{"name": d.GroupName, "queues": qs, "apps": apps})
	}
	sort.Slice(groups, func(i, j int) bool { return groups[i]["name"].(string) < groups[j]["name"].(string) })
	return map[string]interface{}{
		"nodes": nodes, "queues": queues, "apps": apps, "total": resOrEmpty(s.part.GetTotalPartitionResource()),
		"counters": []int{al, ph, rs}, "foreign": s.part.VerifForeignAllocs(), "users": users, "groups": groups,
	}
}

// ---------------------------------------------------------------- operations

type coreDrv struct {
	// obs (optional) sees every finished operation (request, messages, dump); returning true swallows the line
	obs  func(op, line map[string]interface{}) bool
	c    *Ctx
	s    *coreStack
	id   string            // component name in the protocol
	hook func(name string) // called after every emitted operation (malformed.go injects raw SI requests here)
	lite bool              // lines carry the operation only (malformed.go dumps the state around its own requests)
}

func nodeInfo(id string, action si.NodeInfo_ActionFromRM, capacity *resources.Resource) *si.NodeInfo {
	ni := &si.NodeInfo{NodeID: id, Action: action, Attributes: map[string]string{siCommon.NodePartition: corePart}}
	if capacity != nil {
		ni.SchedulableResource = capacity.ToProto()
	}
	return ni
}

var nodeActions = map[string]si.NodeInfo_ActionFromRM{
	"create": si.NodeInfo_CREATE, "create-drain": si.NodeInfo_CREATE_DRAIN, "update": si.NodeInfo_UPDATE,
	"drain": si.NodeInfo_DRAIN_NODE, "undrain": si.NodeInfo_DRAIN_TO_SCHEDULABLE, "decommission": si.NodeInfo_DECOMISSION,
}

var termTypes = map[string]si.TerminationType{
	"UNKNOWN": si.TerminationType_UNKNOWN_TERMINATION_TYPE, "STOPPED_BY_RM": si.TerminationType_STOPPED_BY_RM, "TIMEOUT": si.TerminationType_TIMEOUT,
	"PREEMPTED_BY_SCHEDULER": si.TerminationType_PREEMPTED_BY_SCHEDULER, "PLACEHOLDER_REPLACED": si.TerminationType_PLACEHOLDER_REPLACED,
}

func strMap(v interface{}) map[string]string {
	out := map[string]string{}
	if m, ok := v.(map[string]interface{}); ok {
		for k, x := range m {
			out[k] = fmt.Sprint(x)
		}
	}
	return out
}

// apply executes one op on the implementation; the line carries the op, the messages the shim received and the dump.
func (d *coreDrv) apply(op map[string]interface{}) { d.applyWithTap(op, nil) }

// applyWithTap additionally hands the messages the shim received to the simulated shim.
func (d *coreDrv) applyWithTap(op map[string]interface{}, tap func([]map[string]interface{})) {
	op = norm(op)
	c := d.c
	line := map[string]interface{}{"c": d.id}
	for k, v := range op {
		line[k] = v
	}
	name := op["op"].(string)
	c.stat("op:" + name)
	done := make(chan interface{}, 1)
	go func() {
		defer func() { done <- recover() }()
		d.exec(name, op, line)
	}()
	select {
	case r := <-done:
		if r != nil {
			line["panic"] = fmt.Sprint(r)
			c.stat("panic")
		}
	case <-time.After(10 * time.Second):
		line["hang"] = true
		c.stat("hang")
		c.emit(line)
		c.out.Flush()
		buf := make([]byte, 1<<20)
		n := runtime.Stack(buf, true)
		os.Stderr.Write(buf[:n])
		panic("core harness: operation did not return within 10s: " + name)
	}
	if d.s != nil {
		d.settle()
		msgs := d.s.h.take()
		if !d.lite {
			line["msgs"] = msgs
			line["preds"] = d.s.pred.takeAsked()
			line["st"] = d.s.dump()
		}
		if tap != nil {
			tap(msgs)
		}
	}
	if d.obs != nil && d.obs(op, line) {
		return
	}
	c.emit(line)
	if d.hook != nil {
		d.hook(name)
	}
}

// settle waits for the asynchronous terminated-application callback (a goroutine started by the state machine):
// a Completed / Failed application leaves partition.applications shortly after the transition.
func (d *coreDrv) settle() {
	for i := 0; i < 500; i++ {
		busy := false
		for _, a := range d.s.part.GetApplications() {
			if st := a.CurrentState(); st == "Completed" || st == "Failed" {
				busy = true
			}
		}
		if !busy {
			return
		}
		time.Sleep(time.Millisecond)
	}
	d.c.stat("settle-timeout")
}

func (d *coreDrv) exec(name string, op map[string]interface{}, line map[string]interface{}) {
	switch name {
	case "reset":
		if d.s != nil {
			d.s.cc.Stop() // background services of the previous history
		}
		s, err := newCoreStack(jsonStr(op["config"]))
		if err != nil {
			line["error"] = err.Error()
			d.s = nil
			return
		}
		d.s = s
		for _, k := range strings.Fields(jsonStr(op["deny"])) {
			s.pred.deny[k] = true
		}
	case "node":
		var capacity *resources.Resource
		if op["res"] != nil {
			capacity = decRes(op["res"])
		}
		d.s.cc.VerifHandleNodes(&si.NodeRequest{RmID: coreRM, Nodes: []*si.NodeInfo{nodeInfo(jsonStr(op["id"]), nodeActions[jsonStr(op["action"])], capacity)}})
	case "app-add":
		tags := strMap(op["tags"])
		req := &si.AddApplicationRequest{ApplicationID: jsonStr(op["id"]), QueueName: jsonStr(op["queue"]), PartitionName: corePart,
			Ugi: &si.UserGroupInformation{User: jsonStr(op["user"]), Groups: strings.Fields(jsonStr(op["groups"]))}, Tags: tags,
			GangSchedulingStyle: jsonStr(op["style"])}
		if op["phAsk"] != nil {
			req.PlaceholderAsk = decRes(op["phAsk"]).ToProto()
		}
		if op["timeout"] != nil {
			req.ExecutionTimeoutMilliSeconds = jsonInt(op["timeout"])
		}
		d.s.cc.VerifHandleApps(&si.ApplicationRequest{RmID: coreRM, New: []*si.AddApplicationRequest{req}})
	case "app-remove":
		d.s.cc.VerifHandleApps(&si.ApplicationRequest{RmID: coreRM, Remove: []*si.RemoveApplicationRequest{{ApplicationID: jsonStr(op["id"]), PartitionName: corePart}}})
	case "alloc":
		// ask (no node), RM-placed allocation (node set), foreign allocation (tag), update of an existing key
		tags := map[string]string{siCommon.CreationTime: fmt.Sprint(1000 + jsonInt(op["ctime"]))}
		if jsonBool(op["foreign"]) {
			tags[siCommon.Foreign] = siCommon.AllocTypeDefault
		}
		if rn := jsonStr(op["reqNode"]); rn != "" {
			tags[siCommon.DomainYuniKorn+siCommon.KeyRequiredNode] = rn
		}
		a := &si.Allocation{AllocationKey: jsonStr(op["key"]), ApplicationID: jsonStr(op["app"]), NodeID: jsonStr(op["node"]), PartitionName: corePart,
			ResourcePerAlloc: decRes(op["res"]).ToProto(), AllocationTags: tags, Placeholder: jsonBool(op["ph"]), TaskGroupName: jsonStr(op["tg"]),
			Priority: int32(jsonInt(op["prio"])), PreemptionPolicy: &si.PreemptionPolicy{AllowPreemptSelf: true, AllowPreemptOther: jsonBool(op["preemptOther"])}}
		d.s.cc.VerifHandleAllocations(&si.AllocationRequest{RmID: coreRM, Allocations: []*si.Allocation{a}})
	case "release":
		r := &si.AllocationRelease{PartitionName: corePart, ApplicationID: jsonStr(op["app"]), AllocationKey: jsonStr(op["key"]), TerminationType: termTypes[jsonStr(op["type"])]}
		d.s.cc.VerifHandleAllocations(&si.AllocationRequest{RmID: coreRM, Releases: &si.AllocationReleasesRequest{AllocationsToRelease: []*si.AllocationRelease{r}}})
	case "schedule":
		// "interrupt": an RM request (release by key, release of all allocations, application removal, node decommission)
		// that the RM event goroutine would handle between the scheduling decision and its confirmation
		// (PartitionContext.allocate): run at the yield point, once
		// "waitExpired": this cycle sees every reservation as older than the reservation wait timeout
		if jsonBool(op["waitExpired"]) {
			old := objects.VerifSetReservationWaitTimeout(0)
			defer objects.VerifSetReservationWaitTimeout(old)
		}
		if in, ok := op["interrupt"].(map[string]interface{}); ok {
			done := false
			scheduler.VerifYieldHook = func(point string) {
				if point == "allocate" && !done {
					done = true
					d.exec(jsonStr(in["op"]), in, map[string]interface{}{})
				}
			}
			line["out"] = d.s.cc.VerifSchedule()
			scheduler.VerifYieldHook = nil
			line["interrupted"] = done
		} else {
			line["out"] = d.s.cc.VerifSchedule()
		}
	case "ph-timeout":
		fired := false
		if app := d.s.part.GetApplication(jsonStr(op["app"])); app != nil {
			fired = app.VerifFirePlaceholderTimer()
		}
		line["out"] = fired
	case "state-timeout":
		fired := false
		app := d.s.part.GetApplication(jsonStr(op["app"]))
		if app == nil {
			for _, a := range append(d.s.part.GetCompletedApplications(), d.s.part.GetRejectedApplications()...) {
				if a.ApplicationID == jsonStr(op["app"]) {
					app = a
				}
			}
		}
		if app != nil {
			fired = app.VerifFireStateTimer()
		}
		line["out"] = fired
	case "cleanup":
		d.s.part.VerifCleanupExpiredApps()
	case "drained":
		// marker: the history has released and removed everything it submitted
	case "reload":
		err := d.s.cc.UpdateRMSchedulerConfig(coreRM, []byte(jsonStr(op["config"])))
		line["out"] = err == nil
		if err != nil {
			line["error"] = err.Error()
		}
	default:
		panic("unknown core op " + name)
	}
}
