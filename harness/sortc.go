package main

import (
	"fmt"
	"sort"
	"strconv"
	"time"

	"github.com/apache/yunikorn-core/pkg/common/configs"
	"github.com/apache/yunikorn-core/pkg/common/resources"
	"github.com/apache/yunikorn-core/pkg/common/security"
	"github.com/apache/yunikorn-core/pkg/scheduler/objects"
	"github.com/apache/yunikorn-core/pkg/scheduler/policies"
	siCommon "github.com/apache/yunikorn-scheduler-interface/lib/go/common"
	"github.com/apache/yunikorn-scheduler-interface/lib/go/si"
)

func init() { components["sort"] = runSort }

func permute(c *Ctx, ids []string) []string {
	out := append([]string{}, ids...)
	c.rng.Shuffle(len(out), func(i, j int) { out[i], out[j] = out[j], out[i] })
	return out
}

func queueIDs(qs []*objects.Queue) []string {
	out := make([]string, len(qs))
	for i, q := range qs {
		out[i] = q.Name
	}
	return out
}

type qCand struct {
	id                         string
	prio                       int32
	pending, alloc, guaranteed *resources.Resource
	max                        *resources.Resource
}

func sortQueuesCase(c *Ctx, cands []qCand, in1, in2 []string, policy string, prio bool) {
	root, err := objects.NewConfiguredQueue(configs.QueueConfig{Name: "root", Parent: true}, nil, true, nil)
	if err != nil {
		panic(err)
	}
	rm := resources.NewResourceFromMap(map[string]resources.Quantity{"cpu": 1000, "mem": 1000})
	root.SetMaxResource(rm)
	qs := map[string]*objects.Queue{}
	for _, cd := range cands {
		conf := configs.QueueConfig{Name: cd.id, Resources: configs.Resources{Max: confMap(cd.max), Guaranteed: confMap(cd.guaranteed)}}
		q, err := objects.NewConfiguredQueue(conf, root, true, nil)
		if err != nil {
			panic(err)
		}
		q.VerifSetSortKeys(cd.prio, cd.pending, cd.alloc)
		qs[cd.id] = q
	}
	fair := func(q *objects.Queue) *resources.Resource { return q.GetFairMaxResource() }
	run := func(in []string) []string {
		list := make([]*objects.Queue, len(in))
		fm := make([]*resources.Resource, len(in))
		for i, id := range in {
			list[i] = qs[id]
			fm[i] = fair(qs[id])
		}
		st := policies.FifoSortPolicy
		if policy == "fair" {
			st = policies.FairSortPolicy
		}
		objects.VerifSortQueues(list, fm, st, prio)
		return queueIDs(list)
	}
	out1, out2 := run(in1), run(in2)
	// share ranks through the exported comparison
	enc := []map[string]interface{}{}
	for _, x := range cands {
		rank := 0
		for _, y := range cands {
			if resources.CompUsageRatioSeparately(qs[y.id].GetAllocatedResource(), qs[y.id].GetGuaranteedResource(), fair(qs[y.id]),
				qs[x.id].GetAllocatedResource(), qs[x.id].GetGuaranteedResource(), fair(qs[x.id])) < 0 {
				rank++
			}
		}
		enc = append(enc, map[string]interface{}{"id": x.id, "prio": x.prio, "share": rank, "pending": encRes(x.pending)})
	}
	c.emit(map[string]interface{}{"c": "sort", "kind": "queues", "policy": policy, "prio": prio, "cands": enc, "in1": in1, "in2": in2, "out1": out1, "out2": out2,
		"raw": encQCands(cands)})
}

func encQCands(cands []qCand) []map[string]interface{} {
	out := []map[string]interface{}{}
	for _, x := range cands {
		out = append(out, map[string]interface{}{"id": x.id, "prio": x.prio, "pending": encRes(x.pending), "alloc": encRes(x.alloc), "guaranteed": encRes(x.guaranteed), "max": encRes(x.max)})
	}
	return out
}

func (c *Ctx) posRes(maxv int, sparse bool) *resources.Resource {
	r := resources.NewResource()
	for _, k := range []string{"cpu", "mem"} {
		if !sparse || c.chance(0.7) {
			r.Resources[k] = resources.Quantity(c.pick(maxv + 1))
		}
	}
	return r
}

func genQueuesCase(c *Ctx) {
	n := 2 + c.pick(5)
	var cands []qCand
	ids := []string{}
	for i := 0; i < n; i++ {
		id := fmt.Sprintf("q%d", i)
		ids = append(ids, id)
		cd := qCand{id: id, prio: int32(c.pick(3)), pending: c.posRes(4, true), alloc: c.posRes(6, false)}
		if c.chance(0.6) {
			cd.guaranteed = c.posRes(8, true)
		}
		if c.chance(0.6) {
			cd.max = resources.NewResourceFromMap(map[string]resources.Quantity{"cpu": resources.Quantity(5 + c.pick(20)), "mem": resources.Quantity(5 + c.pick(20))})
		}
		if c.chance(0.3) && i > 0 {
			// many ties: copy the share-relevant fields of the previous candidate
			p := cands[i-1]
			cd.alloc, cd.guaranteed, cd.max = p.alloc.Clone(), p.guaranteed.Clone(), p.max.Clone()
		}
		cands = append(cands, cd)
	}
	policy := []string{"fair", "fifo"}[c.pick(2)]
	if c.chance(0.7) {
		policy = "fair"
	}
	sortQueuesCase(c, cands, permute(c, ids), permute(c, ids), policy, c.chance(0.5))
}

func genAppsCase(c *Ctx) {
	n := 2 + c.pick(5)
	apps := map[string]*objects.Application{}
	type ak struct {
		id     string
		prio   int32
		submit int64
		alloc  *resources.Resource
	}
	var keys []ak
	global := resources.NewResourceFromMap(map[string]resources.Quantity{"cpu": 100, "mem": 100})
	for i := 0; i < n; i++ {
		id := fmt.Sprintf("app-%d", i)
		app := objects.NewApplication(&si.AddApplicationRequest{ApplicationID: id, QueueName: "root.a", PartitionName: "default"}, security.UserGroup{User: "u"}, nil, "rm")
		k := ak{id: id, prio: int32(c.pick(3)), submit: int64(1000 + c.pick(4)), alloc: c.posRes(6, false)}
		if c.chance(0.3) && i > 0 {
			k.alloc = keys[i-1].alloc.Clone()
		}
		app.VerifSetSortKeys(time.Unix(k.submit, 0), k.prio, resources.NewResourceFromMap(map[string]resources.Quantity{"cpu": 1}), k.alloc)
		if c.chance(0.3) {
			// an allocation that arrives already bound to a node (RecoverAllocationAsk, see partition.UpdateAllocation) with a
			// priority above the outstanding asks: it is not outstanding, the sort key stays k.prio
			app.RecoverAllocationAsk(objects.NewAllocationFromSI(&si.Allocation{AllocationKey: id + "-rec", ApplicationID: id, Priority: k.prio + 1 + int32(c.pick(3)),
				NodeID: "node-1", ResourcePerAlloc: &si.Resource{Resources: map[string]*si.Quantity{"cpu": {Value: 1}}}}))
		}
		apps[id] = app
		keys = append(keys, k)
	}
	policy := []string{"fair", "fifo"}[c.pick(2)]
	prio := c.chance(0.5)
	st := policies.FifoSortPolicy
	if policy == "fair" {
		st = policies.FairSortPolicy
	}
	ids := func(l []*objects.Application) []string {
		out := make([]string, len(l))
		for i, a := range l {
			out[i] = a.ApplicationID
		}
		return out
	}
	out1 := ids(objects.VerifSortApplications(apps, st, prio, global))
	out2 := ids(objects.VerifSortApplications(apps, st, prio, global))
	enc := []map[string]interface{}{}
	for _, x := range keys {
		rank := 0
		for _, y := range keys {
			if resources.CompUsageRatio(y.alloc, x.alloc, global) < 0 {
				rank++
			}
		}
		enc = append(enc, map[string]interface{}{"id": x.id, "prio": x.prio, "submit": x.submit, "share": rank})
	}
	// the candidates come out of a Go map: the presentation order is not observable; a sorted result must be a
	// fix point of the stable sort, so the outputs themselves are used as presentations
	c.emit(map[string]interface{}{"c": "sort", "kind": "apps", "policy": policy, "prio": prio, "cands": enc, "in1": out1, "in2": out2, "out1": out1, "out2": out2})
}

func genAsksCase(c *Ctx) {
	v := &objects.VerifSortedAsks{}
	live := map[string]*objects.Allocation{}
	ops := []map[string]interface{}{}
	n := 3 + c.pick(12)
	seq := 0
	prios := []int32{0, 1, 2, 5, -3, 2000001000, -200000000, 2147483647, -2147483648}
	for i := 0; i < n; i++ {
		if len(live) > 0 && c.chance(0.25) {
			ks := []string{}
			for k := range live {
				ks = append(ks, k)
			}
			sort.Strings(ks)
			k := ks[c.pick(len(ks))]
			v.Remove(live[k])
			delete(live, k)
			ops = append(ops, map[string]interface{}{"op": "remove", "key": k})
			continue
		}
		seq++
		key := fmt.Sprintf("k%d", seq)
		prio := prios[c.pick(len(prios))]
		if c.chance(0.5) {
			prio = int32(c.pick(3))
		}
		ctime := int64(1000 + c.pick(5))
		a := objects.NewAllocationFromSI(&si.Allocation{AllocationKey: key, ApplicationID: "app", Priority: prio,
			ResourcePerAlloc: &si.Resource{Resources: map[string]*si.Quantity{"cpu": {Value: 1}}},
			AllocationTags:   map[string]string{siCommon.CreationTime: strconv.FormatInt(ctime, 10)}})
		v.Insert(a)
		live[key] = a
		ops = append(ops, map[string]interface{}{"op": "insert", "key": key, "prio": prio, "ctime": ctime})
	}
	c.emit(map[string]interface{}{"c": "sort", "kind": "asks", "ops": ops, "out": v.Keys()})
}

func iterIDs(it objects.NodeIterator) []string {
	out := []string{}
	it.ForEachNode(func(n *objects.Node) bool {
		out = append(out, n.NodeID)
		return true
	})
	return out
}

func genNodesCase(c *Ctx) {
	nc := objects.NewNodeCollection("part")
	nodes := map[string]*objects.Node{}
	allocs := map[string]map[string]*objects.Allocation{}
	app := objects.NewApplication(&si.AddApplicationRequest{ApplicationID: "app-1", QueueName: "root.a", PartitionName: "default"}, security.UserGroup{User: "u"}, nil, "rm")
	reserved := map[string]bool{}
	// nodes whose available resources changed through an operation that (by design, the unit tests assert it) does not
	// notify the collection: foreign allocation add/remove and in-place resource updates. Their cached score may be stale
	// until the next notifying operation on the node.
	tainted := map[string]bool{}
	seq := 0
	emit := func(op string) {
		reg := []string{}
		for id := range nodes {
			reg = append(reg, id)
		}
		sort.Strings(reg)
		// fresh scores through the policy in force
		type sc struct {
			id string
			s  float64
		}
		var scs []sc
		for _, id := range reg {
			scs = append(scs, sc{id, nc.GetNodeSortingPolicy().ScoreNode(nodes[id])})
		}
		ranks := [][]interface{}{}
		for _, x := range scs {
			r := 0
			for _, y := range scs {
				if y.s < x.s {
					r++
				}
			}
			ranks = append(ranks, []interface{}{x.id, r})
		}
		res := []string{}
		for id := range reserved {
			if nodes[id] != nil && nodes[id].IsReserved() {
				res = append(res, id)
			}
		}
		sort.Strings(res)
		tl := []string{}
		for id := range tainted {
			if nodes[id] != nil {
				tl = append(tl, id)
			}
		}
		sort.Strings(tl)
		// what the model computes the score from: capacity, allocated, occupied (and the real available for comparison),
		// the policy in force and its resource weights (integral)
		keys := []map[string]interface{}{}
		for _, id := range reg {
			n := nodes[id]
			keys = append(keys, map[string]interface{}{"id": id, "cap": resOrEmpty(n.GetCapacity()), "allocated": resOrEmpty(n.GetAllocatedResource()),
				"occupied": resOrEmpty(n.GetOccupiedResource()), "avail": resOrEmpty(n.GetAvailableResource())})
		}
		nsp := nc.GetNodeSortingPolicy()
		wm := nsp.ResourceWeights()
		wk := []string{}
		for k := range wm {
			wk = append(wk, k)
		}
		sort.Strings(wk)
		weights := [][]interface{}{}
		for _, k := range wk {
			if wm[k] != float64(int64(wm[k])) {
				panic("non integral weight")
			}
			weights = append(weights, []interface{}{k, int64(wm[k])})
		}
		c.emit(map[string]interface{}{"c": "sort", "kind": "nodes", "op": op, "registered": reg, "full": iterIDs(nc.GetFullNodeIterator()),
			"unreserved": iterIDs(nc.GetNodeIterator()), "reserved": res, "ranks": ranks, "tainted": tl,
			"nodes": keys, "policy": nsp.PolicyType().String(), "weights": weights})
	}
	nops := 5 + c.pick(30)
	for i := 0; i < nops; i++ {
		ids := []string{}
		for id := range nodes {
			ids = append(ids, id)
		}
		sort.Strings(ids)
		p := c.pick(100)
		switch {
		case p < 20 || len(ids) == 0:
			if len(ids) < 6 {
				id := fmt.Sprintf("n%d", len(ids)+1+c.pick(3))
				if nodes[id] == nil {
					capacity := resources.NewResourceFromMap(map[string]resources.Quantity{"vcore": resources.Quantity(10 + c.pick(20)), "memory": resources.Quantity(10 + c.pick(20))})
					if c.chance(0.3) {
						capacity.Resources["gpu"] = resources.Quantity(2 + c.pick(7))
					}
					n := objects.NewNode(&si.NodeInfo{NodeID: id, SchedulableResource: capacity.ToProto()})
					if nc.AddNode(n) == nil {
						nodes[id] = n
						allocs[id] = map[string]*objects.Allocation{}
					}
					emit("add")
				}
			}
		case p < 28:
			id := ids[c.pick(len(ids))]
			nc.RemoveNode(id)
			delete(nodes, id)
			delete(reserved, id)
			delete(tainted, id)
			emit("remove")
		case p < 40:
			// exhaust one resource type exactly (the available entry is pruned away), take a part of the others
			id := ids[c.pick(len(ids))]
			avail := nodes[id].GetAvailableResource()
			types := []string{}
			for k, v := range avail.Resources {
				if v > 0 {
					types = append(types, k)
				}
			}
			sort.Strings(types)
			if len(types) == 0 {
				continue
			}
			full := types[c.pick(len(types))]
			r := resources.NewResource()
			for _, k := range types {
				if k == full {
					r.Resources[k] = avail.Resources[k]
				} else if c.chance(0.5) {
					r.Resources[k] = resources.Quantity(c.pick(int(avail.Resources[k]) + 1))
				}
			}
			seq++
			foreign := c.chance(0.2)
			if foreign {
				a := newAlloc(fmt.Sprintf("f%d", seq), "", id, r, true, false, "")
				nodes[id].AddAllocation(a)
				allocs[id][a.GetAllocationKey()] = a
				tainted[id] = true
				emit("foreign-exhaust")
			} else {
				a := newAlloc(fmt.Sprintf("a%d", seq), "app-1", id, r, false, false, "")
				if nodes[id].TryAddAllocation(a) {
					allocs[id][a.GetAllocationKey()] = a
					delete(tainted, id)
				}
				emit("exhaust")
			}
		case p < 55:
			id := ids[c.pick(len(ids))]
			seq++
			a := newAlloc(fmt.Sprintf("a%d", seq), "app-1", id, resources.NewResourceFromMap(map[string]resources.Quantity{"vcore": resources.Quantity(1 + c.pick(5)), "memory": resources.Quantity(1 + c.pick(5))}), false, false, "")
			if nodes[id].TryAddAllocation(a) {
				allocs[id][a.GetAllocationKey()] = a
				delete(tainted, id)
			}
			emit("allocate")
		case p < 68:
			id := ids[c.pick(len(ids))]
			for k, a := range allocs[id] {
				nodes[id].RemoveAllocation(k)
				delete(allocs[id], k)
				if a.IsForeign() {
					tainted[id] = true
				} else {
					delete(tainted, id)
				}
				break
			}
			emit("release")
		case p < 74:
			id := ids[c.pick(len(ids))]
			if nodes[id].SetCapacity(resources.NewResourceFromMap(map[string]resources.Quantity{"vcore": resources.Quantity(10 + c.pick(30)), "memory": resources.Quantity(10 + c.pick(30))})) != nil {
				delete(tainted, id)
			}
			emit("capacity")
		case p < 80:
			id := ids[c.pick(len(ids))]
			nodes[id].SetOccupiedResource(resources.NewResourceFromMap(map[string]resources.Quantity{"vcore": resources.Quantity(c.pick(5)), "memory": resources.Quantity(c.pick(5))}))
			delete(tainted, id)
			emit("occupied")
		case p < 85:
			// foreign allocation
			id := ids[c.pick(len(ids))]
			seq++
			a := newAlloc(fmt.Sprintf("f%d", seq), "", id, resources.NewResourceFromMap(map[string]resources.Quantity{"vcore": resources.Quantity(1 + c.pick(4))}), true, false, "")
			nodes[id].AddAllocation(a)
			allocs[id][a.GetAllocationKey()] = a
			tainted[id] = true
			emit("foreign-add")
		case p < 90:
			// in place resource update of a bound allocation (partition.UpdateAllocation)
			id := ids[c.pick(len(ids))]
			for _, a := range allocs[id] {
				if !a.IsForeign() {
					nr := resources.NewResourceFromMap(map[string]resources.Quantity{"vcore": resources.Quantity(1 + c.pick(8)), "memory": resources.Quantity(1 + c.pick(8))})
					delta := resources.Sub(nr, a.GetAllocatedResource())
					delta.Prune()
					a.SetAllocatedResource(nr)
					nodes[id].UpdateAllocatedResource(delta)
					tainted[id] = true
					emit("resize")
					break
				}
			}
		case p < 95:
			id := ids[c.pick(len(ids))]
			seq++
			ask := objects.NewAllocationFromSI(&si.Allocation{AllocationKey: fmt.Sprintf("r%d", seq), ApplicationID: "app-1",
				ResourcePerAlloc: &si.Resource{Resources: map[string]*si.Quantity{"vcore": {Value: 1}}}})
			if nodes[id].Reserve(app, ask) == nil {
				reserved[id] = true
			}
			emit("reserve")
		default:
			pol := []string{"fair", "binpacking"}[c.pick(2)]
			// integral weights, at most two types with a weight other than zero (a two-term float sum does not depend on the map order)
			var w map[string]float64
			switch c.pick(6) {
			case 0:
				w = map[string]float64{"vcore": 2, "memory": 1}
			case 1:
				w = map[string]float64{"vcore": 1, "memory": 3}
			case 2:
				w = map[string]float64{"vcore": 1, "memory": 0, "gpu": 2}
			case 3:
				w = map[string]float64{"gpu": 1, "memory": 1}
			}
			nc.SetNodeSortingPolicy(objects.NewNodeSortingPolicy(pol, w))
			tainted = map[string]bool{}
			emit("policy-" + pol)
		}
	}
}

func runSort(c *Ctx) {
	if replayFile != "" {
		for _, in := range readReplay(replayFile) {
			if jsonStr(in["kind"]) == "children" {
				replayChildrenCase(c, in)
			}
			if jsonStr(in["kind"]) == "queues" {
				var cands []qCand
				for _, e := range in["raw"].([]interface{}) {
					m := e.(map[string]interface{})
					cands = append(cands, qCand{id: jsonStr(m["id"]), prio: int32(jsonInt(m["prio"])), pending: decRes(m["pending"]), alloc: decRes(m["alloc"]),
						guaranteed: decRes(m["guaranteed"]), max: decRes(m["max"])})
				}
				strs := func(v interface{}) []string {
					out := []string{}
					for _, x := range v.([]interface{}) {
						out = append(out, x.(string))
					}
					return out
				}
				sortQueuesCase(c, cands, strs(in["in1"]), strs(in["in2"]), jsonStr(in["policy"]), jsonBool(in["prio"]))
			}
		}
		return
	}
	for i := 0; i < c.n; i++ {
		switch c.pick(5) {
		case 4:
			genChildrenCase(c)
		case 0:
			genQueuesCase(c)
		case 1:
			genAppsCase(c)
		case 2:
			genAsksCase(c)
		default:
			genNodesCase(c)
		}
	}
}
