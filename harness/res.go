package main

import (
	"encoding/json"
	"math"
	"math/big"
	"sort"
	"strconv"

	"github.com/apache/yunikorn-core/pkg/common/resources"
)

func init() { components["res"] = runRes }

var corner = []int64{0, 1, -1, 2, -2, 3, 5, 7, 10, 100, 1000, math.MinInt64, math.MinInt64 + 1, math.MaxInt64, math.MaxInt64 - 1,
	1 << 31, -(1 << 31), 1 << 32, -(1 << 32), 1 << 62, -(1 << 62), (1 << 62) + 1, 3037000499, 3037000500, -3037000500, 4611686018427387903, 4611686018427387904}

func (c *Ctx) qty() int64 {
	switch c.pick(10) {
	case 0, 1, 2:
		return corner[c.pick(len(corner))]
	case 3, 4, 5, 6:
		return int64(c.pick(41) - 20)
	case 7:
		return int64(c.rng.Uint64())
	case 8:
		return int64(c.rng.Uint64() >> uint(1+c.pick(62)))
	default:
		return -int64(c.rng.Uint64() >> uint(1+c.pick(62)))
	}
}

var resKeys = []string{"a", "b", "c", "d", "e"}

// genRes: nil (10%), empty (10%), else random subset of the key alphabet
func (c *Ctx) genRes() *resources.Resource {
	switch p := c.pick(10); {
	case p == 0:
		return nil
	case p == 1:
		return resources.NewResource()
	case p == 2:
		// mostly explicit zeros on a small subset: "missing type = zero" cases with disjoint key sets
		r := resources.NewResource()
		for _, k := range resKeys {
			if c.chance(0.35) {
				if c.chance(0.75) {
					r.Resources[k] = 0
				} else {
					r.Resources[k] = resources.Quantity(c.qty())
				}
			}
		}
		return r
	}
	r := resources.NewResource()
	for _, k := range resKeys {
		if c.chance(0.5) {
			r.Resources[k] = resources.Quantity(c.qty())
		}
	}
	return r
}

func encRes(r *resources.Resource) interface{} {
	if r == nil {
		return nil
	}
	keys := make([]string, 0, len(r.Resources))
	for k := range r.Resources {
		keys = append(keys, k)
	}
	sort.Strings(keys)
	out := make([][]interface{}, 0, len(keys))
	for _, k := range keys {
		out = append(out, []interface{}{k, int64(r.Resources[k])})
	}
	return out
}

func sameRes(a, b *resources.Resource) bool {
	if a == nil || b == nil {
		return a == nil && b == nil
	}
	if len(a.Resources) != len(b.Resources) {
		return false
	}
	for k, v := range a.Resources {
		if w, ok := b.Resources[k]; !ok || w != v {
			return false
		}
	}
	return true
}

var resOps = []string{"addVal", "subVal", "mulVal", "mulValRatio", "Add", "Sub", "AddTo", "SubFrom", "SubOnlyExisting", "AddOnlyExisting",
	"SubEliminateNegative", "SubErrorNegative", "Multiply", "FitIn", "FitInMaxUndef", "FitInActual", "Equals", "DeepEquals", "MatchAny",
	"EqualsOrEmpty", "IsZero", "IsEmpty", "HasNegativeValue", "StrictlyGreaterThanZero", "StrictlyGreaterThan", "StrictlyGreaterThanOrEquals",
	"StrictlyGreaterThanOnlyExisting", "StrictlyGreaterThanOrEqualsOnlyExisting", "ComponentWiseMin", "ComponentWiseMinOnlyExisting",
	"MergeIfNotPresent", "ComponentWiseMax", "Prune", "Clone", "parse", "parse"}

func truncBig(f float64) *big.Int {
	bf := new(big.Float).SetFloat64(f)
	i, _ := bf.Int(nil) // truncation toward zero
	return i
}

func runRes(c *Ctx) {
	if replayFile != "" {
		for _, in := range readReplay(replayFile) {
			op, _ := in["op"].(string)
			resCase(c, op, in)
		}
		return
	}
	for i := 0; i < c.n; i++ {
		op := resOps[c.pick(len(resOps))]
		resCase(c, op, nil)
	}
}

// resCase runs one operation on the implementation and emits the protocol line.
func resCase(c *Ctx, op string, fixed map[string]interface{}) {
	line := map[string]interface{}{"c": "res", "op": op}
	c.stat("op:" + op)
	defer func() {
		if r := recover(); r != nil {
			line["panic"] = true
			line["out"] = "panic"
			c.stat("panic")
			c.emit(line)
		}
	}()
	switch op {
	case "addVal", "subVal", "mulVal":
		a, b := c.qty(), c.qty()
		if fixed != nil {
			a, b = jsonInt(fixed["a"]), jsonInt(fixed["b"])
		} else if op == "mulVal" && c.chance(0.3) {
			// products near the int64 boundary
			a = corner[c.pick(len(corner))]
			if a != 0 {
				b = math.MaxInt64/a + int64(c.pick(5)-2)
			}
		}
		var o resources.Quantity
		switch op {
		case "addVal":
			o = resources.VerifAddVal(resources.Quantity(a), resources.Quantity(b))
		case "subVal":
			o = resources.VerifSubVal(resources.Quantity(a), resources.Quantity(b))
		default:
			o = resources.VerifMulVal(resources.Quantity(a), resources.Quantity(b))
		}
		line["a"], line["b"], line["out"] = a, b, int64(o)
		big1 := new(big.Int).Add(big.NewInt(a), big.NewInt(b))
		if !big1.IsInt64() {
			c.stat("sat:" + op)
		}
	case "mulValRatio":
		a := c.qty()
		ratios := []float64{0, 1, -1, 2, 0.5, 1.5, -2, 3, 0.1, 1e-3, 1e3, 4, 1.0000000000000002, 0.9999999999999999, 8, 1e19, -1e19}
		ratio := ratios[c.pick(len(ratios))]
		if c.chance(0.3) {
			ratio = c.rng.NormFloat64() * 4
		}
		if fixed != nil {
			a = jsonInt(fixed["a"])
			ratio, _ = fixed["ratio"].(json.Number).Float64()
		}
		o := resources.VerifMulValRatio(resources.Quantity(a), ratio)
		prod := truncBig(float64(a) * ratio)
		line["a"], line["rz"], line["prod"], line["ratio"], line["out"] = a, ratio == 0, jsonBig{prod}, ratio, int64(o)
		if !prod.IsInt64() {
			c.stat("sat:mulValRatio")
		}
	case "parse":
		s := c.genQuantityString()
		milli := c.chance(0.5)
		if fixed != nil {
			s, _ = fixed["s"].(string)
			milli, _ = fixed["milli"].(bool)
		}
		var q resources.Quantity
		var err error
		if milli {
			q, err = resources.ParseVCore(s)
		} else {
			q, err = resources.ParseQuantity(s)
		}
		line["s"], line["milli"] = s, milli
		if err != nil {
			line["err"] = err.Error()
			line["out"] = nil
			c.stat("parse-err:" + err.Error())
		} else {
			line["out"] = int64(q)
			c.stat("parse-ok")
		}
	default:
		l := c.genRes()
		r := c.genRes()
		same := false
		if c.chance(0.08) {
			r = l
			same = true
		} else if c.chance(0.15) && l != nil {
			// related vectors: same keys, values nearby (so that comparisons are not trivially false)
			r = l.Clone()
			for k := range r.Resources {
				if c.chance(0.4) {
					r.Resources[k] = resources.Quantity(int64(r.Resources[k]) + int64(c.pick(3)-1))
				}
			}
			if c.chance(0.3) && len(r.Resources) > 0 {
				delete(r.Resources, resKeys[c.pick(len(resKeys))])
			}
		}
		if fixed != nil {
			l, r = decRes(fixed["l"]), decRes(fixed["r"])
			same, _ = fixed["same"].(bool)
			if same {
				r = l
			}
		}
		l0, r0 := l.Clone(), r.Clone()
		line["l"], line["r"], line["same"] = encRes(l), encRes(r), same
		mutOK := false
		switch op {
		case "Add":
			line["out"] = encRes(resources.Add(l, r))
		case "Sub":
			line["out"] = encRes(resources.Sub(l, r))
		case "AddTo":
			if same {
				r = r.Clone()
				line["same"] = false
			}
			l.AddTo(r)
			line["out"] = encRes(l)
			mutOK = true
		case "SubFrom":
			if same {
				r = r.Clone()
				line["same"] = false
			}
			l.SubFrom(r)
			line["out"] = encRes(l)
			mutOK = true
		case "SubOnlyExisting":
			line["out"] = encRes(resources.SubOnlyExisting(l, r))
		case "AddOnlyExisting":
			line["out"] = encRes(resources.AddOnlyExisting(l, r))
		case "SubEliminateNegative":
			line["out"] = encRes(resources.SubEliminateNegative(l, r))
		case "SubErrorNegative":
			o, err := resources.SubErrorNegative(l, r)
			line["out"], line["err"] = encRes(o), err != nil
		case "Multiply":
			k := c.qty()
			if c.chance(0.5) {
				k = int64(c.pick(9) - 4)
			}
			if fixed != nil {
				k = jsonInt(fixed["ratio"])
			}
			line["ratio"] = k
			line["out"] = encRes(resources.Multiply(l, k))
		case "FitIn":
			line["out"] = l.FitIn(r)
		case "FitInMaxUndef":
			line["out"] = l.FitInMaxUndef(r)
		case "FitInActual":
			line["out"] = l.FitInActual(r)
		case "Equals":
			line["out"] = resources.Equals(l, r)
		case "DeepEquals":
			line["out"] = resources.DeepEquals(l, r)
		case "MatchAny":
			line["out"] = l.MatchAny(r)
		case "EqualsOrEmpty":
			line["out"] = resources.EqualsOrEmpty(l, r)
		case "IsZero":
			line["out"] = resources.IsZero(l)
		case "IsEmpty":
			line["out"] = l.IsEmpty()
		case "HasNegativeValue":
			line["out"] = l.HasNegativeValue()
		case "StrictlyGreaterThanZero":
			line["out"] = resources.StrictlyGreaterThanZero(l)
		case "StrictlyGreaterThan":
			line["out"] = resources.StrictlyGreaterThan(l, r)
		case "StrictlyGreaterThanOrEquals":
			line["out"] = resources.StrictlyGreaterThanOrEquals(l, r)
		case "StrictlyGreaterThanOnlyExisting":
			line["out"] = l.StrictlyGreaterThanOnlyExisting(r)
		case "StrictlyGreaterThanOrEqualsOnlyExisting":
			line["out"] = l.StrictlyGreaterThanOrEqualsOnlyExisting(r)
		case "ComponentWiseMin":
			line["out"] = encRes(resources.ComponentWiseMin(l, r))
		case "ComponentWiseMinOnlyExisting":
			line["out"] = encRes(resources.ComponentWiseMinOnlyExisting(l, r))
		case "MergeIfNotPresent":
			line["out"] = encRes(resources.MergeIfNotPresent(l, r))
		case "ComponentWiseMax":
			line["out"] = encRes(resources.ComponentWiseMax(l, r))
		case "Prune":
			l.Prune()
			line["out"] = encRes(l)
			mutOK = true
		case "Clone":
			cl := l.Clone()
			if cl != nil {
				// the clone must not alias the original
				cl.Resources["zz"] = 1
				delete(cl.Resources, "zz")
			}
			line["out"] = encRes(cl)
		}
		if b, ok := line["out"].(bool); ok {
			if b {
				c.stat("true:" + op)
			} else {
				c.stat("false:" + op)
			}
		}
		if l == nil || r == nil {
			c.stat("nil-arg")
		}
		// arguments must be left unchanged
		if (!mutOK && !sameRes(l, l0)) || (!same && !sameRes(r, r0)) {
			line["out"] = "args-modified"
			c.stat("args-modified")
		}
	}
	c.emit(line)
}

type jsonBig struct{ *big.Int }

func (j jsonBig) MarshalJSON() ([]byte, error) { return []byte(j.String()), nil }

func (c *Ctx) genQuantityString() string {
	suffixes := []string{"", "m", "k", "M", "G", "T", "P", "E", "Ki", "Mi", "Gi", "Ti", "Pi", "Ei", "K", "ki", "mi", "i", "Zi", "e", "KI", "mm", "ii"}
	nums := []string{"0", "1", "7", "10", "007", "123", "1000", "9223372036854775807", "9223372036854775808", "9223372036854775", "9223372036854776",
		"9223372036854", "8", "9", "8191", "8192", "18446744073709551616", "99999999999999999999", "9007199254740993", "", "-1", "+1", "1.5", "1e3", "0x10", "１２"}
	spaces := []string{"", "", "", " ", "  ", "\t", "\n", " ", " ", "\v", "\f", "\r", "\u0085"}
	var num string
	if c.chance(0.3) {
		// small numbers with large suffixes: products around the int64 boundary (also after the x1000 for milli-units)
		big := []string{"P", "E", "Pi", "Ei", "T", "Ti", "G"}
		return spaces[c.pick(len(spaces))] + strconv.Itoa(c.pick(12000)>>uint(c.pick(12))) + spaces[c.pick(4)] + big[c.pick(len(big))]
	}
	if c.chance(0.4) {
		// random digits of random length
		n := 1 + c.pick(20)
		b := make([]byte, n)
		for i := range b {
			b[i] = byte('0' + c.pick(10))
		}
		num = string(b)
	} else {
		num = nums[c.pick(len(nums))]
	}
	s := spaces[c.pick(len(spaces))] + num + spaces[c.pick(len(spaces))] + suffixes[c.pick(len(suffixes))] + spaces[c.pick(len(spaces))]
	if c.chance(0.05) {
		s += "x"
	}
	if c.chance(0.03) {
		s = "1 2" + s
	}
	return s
}

func decRes(v interface{}) *resources.Resource {
	if v == nil {
		return nil
	}
	r := resources.NewResource()
	for _, e := range v.([]interface{}) {
		p := e.([]interface{})
		r.Resources[p[0].(string)] = resources.Quantity(jsonInt(p[1]))
	}
	return r
}
