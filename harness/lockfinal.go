package main

// Component `lock` (C14), family CONCURRENT FINAL-STATE scenarios (quick tier): the last clause of the property — "once
// the input stops and the system settles, the capacity, quota, accounting, user-limit and reservation properties hold
// for the final state" — for defects that are neither a data race nor a lock-order edge: check-then-act slips,
// get-or-create without re-check, updates booked on an object that is no longer reachable.
//
// Every scenario starts from a clean state, lets a few goroutines drive the REAL objects simultaneously (a spin barrier
// releases them at the same instant, thousands of rounds), waits until everything has settled and compares the final
// state with the sum of what the goroutines did. One child process per scenario (`ykh -c lockchild -mode fs:<name>`),
// one protocol line per scenario: {"c":"lock","op":"final","scenario":..,"seed":..,"checks":n,"nmismatch":k,"mismatches":[..]}.
// The number of goroutines follows the threading of the scheduler (scheduling loop + RM event handler(s) + readers)
// unless the scenario says otherwise.

import (
	"fmt"
	"os"
	"runtime"
	"sort"
	"strings"
	"sync"
	"sync/atomic"
	"time"

	"github.com/apache/yunikorn-core/pkg/common/configs"
	"github.com/apache/yunikorn-core/pkg/common/resources"
	"github.com/apache/yunikorn-core/pkg/common/security"
	"github.com/apache/yunikorn-core/pkg/scheduler/objects"
	"github.com/apache/yunikorn-core/pkg/scheduler/ugm"
	"github.com/apache/yunikorn-core/pkg/webservice/dao"
	siCommon "github.com/apache/yunikorn-scheduler-interface/lib/go/common"
	"github.com/apache/yunikorn-scheduler-interface/lib/go/si"
)

type finalScenario struct {
	name string
	run  func(seed int64) *finalResult
}

var finalScenarios = []finalScenario{
	{"ugm-user-first-touch", fsUgmUserFirstTouch},
	{"ugm-group-first-touch", fsUgmGroupFirstTouch},
	{"ugm-queue-path-first-touch", fsUgmQueuePathFirstTouch},
	{"ugm-last-app-removed-vs-new-app", fsUgmRemoveVsAdd},
	{"queue-allocated", fsQueueAllocated},
	{"node-allocations", fsNodeAllocations},
	{"dynamic-queue-get-or-create", fsDynamicQueue},
	{"recovery-queue-get-or-create", fsRecoveryQueue},
	{"partition-asks-allocations", fsPartitionStorm},
	{"node-collection-concurrent-updates", fsNodeCollection},
}

type finalResult struct {
	checks     int
	mismatches []string
	nmismatch  int
	detail     string
}

func (r *finalResult) check(ok bool, format string, args ...interface{}) {
	r.checks++
	if ok {
		return
	}
	r.nmismatch++
	if len(r.mismatches) < 6 {
		r.mismatches = append(r.mismatches, fmt.Sprintf(format, args...))
	}
}

// ---------------------------------------------------------------------------------------------------- plumbing

func runFinalScenario(c *Ctx, name string, seed int64) map[string]interface{} {
	line := map[string]interface{}{"c": "lock", "op": "final", "scenario": name, "seed": seed}
	res, stderr, err := childRun(os.Args[0], "fs:"+name, seed, nil, 90*time.Second)
	if err != nil {
		line["crash"] = true
		line["checks"], line["nmismatch"] = 0, 0
		detail := err.Error()
		for _, mark := range []string{"fatal error: ", "\npanic: "} {
			if i := strings.Index(stderr, mark); i >= 0 {
				blocks := strings.SplitN(strings.TrimLeft(stderr[i:], "\n"), "\n\n", 3)
				var frames []string
				if len(blocks) >= 2 {
					for _, m := range lockFrame.FindAllStringSubmatch(blocks[1], -1) {
						frames = append(frames, strings.TrimPrefix(m[1], "github.com/apache/yunikorn-core/pkg/"))
						if len(frames) == 5 {
							break
						}
					}
				}
				detail = strings.SplitN(blocks[0], "\n", 2)[0] + " in " + strings.Join(frames, " <- ")
				break
			}
		}
		line["detail"] = detail
		return line
	}
	for _, k := range []string{"checks", "nmismatch", "mismatches", "detail", "hang"} {
		if v, ok := res[k]; ok {
			line[k] = v
		}
	}
	return line
}

func childFinal(name string, seed int64) map[string]interface{} {
	for _, sc := range finalScenarios {
		if sc.name != name {
			continue
		}
		done := make(chan *finalResult, 1)
		go func() { done <- sc.run(seed) }()
		select {
		case r := <-done:
			ms := r.mismatches
			if ms == nil {
				ms = []string{}
			}
			return map[string]interface{}{"checks": r.checks, "nmismatch": r.nmismatch, "mismatches": ms, "detail": r.detail}
		case <-time.After(60 * time.Second):
			return map[string]interface{}{"checks": 0, "nmismatch": 1, "hang": true, "mismatches": []string{"the scenario did not finish within 60s; goroutines blocked on a lock: " + strings.Join(blockedOnLocks(), " | ")},
				"detail": "hang"}
		}
	}
	return map[string]interface{}{"checks": 0, "nmismatch": 1, "mismatches": []string{"unknown scenario " + name}, "detail": ""}
}

// stormBudget: wall-clock budget of one storm; on a loaded machine fewer rounds are run (the scenarios compare only
// the rounds that were run)
const stormBudget = 2500 * time.Millisecond

// storm runs f(g, round) on G goroutines for at most the given number of rounds (and at most stormBudget); in every
// round all goroutines are released at the same instant by a barrier that spins briefly, then yields, then sleeps (so
// that an oversubscribed machine only costs rounds). Returns the number of rounds run by every goroutine.
func storm(G, rounds int, f func(g, round int)) int {
	if runtime.GOMAXPROCS(0) < G+1 {
		runtime.GOMAXPROCS(G + 1)
	}
	var arrived, generation, stopped int64
	var done int64
	deadline := time.Now().Add(stormBudget)
	var wg sync.WaitGroup
	for g := 0; g < G; g++ {
		wg.Add(1)
		go func(g int) {
			defer wg.Done()
			for r := 0; r < rounds; r++ {
				gen := atomic.LoadInt64(&generation)
				if atomic.AddInt64(&arrived, 1) == int64(G) {
					// last one in: decide whether this round still runs, then release everybody
					atomic.StoreInt64(&arrived, 0)
					if r > 0 && r%64 == 0 && time.Now().After(deadline) {
						atomic.StoreInt64(&stopped, 1)
					} else {
						atomic.StoreInt64(&done, int64(r+1))
					}
					atomic.AddInt64(&generation, 1)
				} else {
					for spins := 0; atomic.LoadInt64(&generation) == gen; spins++ {
						switch {
						case spins < 300:
						case spins < 400:
							runtime.Gosched()
						default:
							time.Sleep(20 * time.Microsecond)
						}
					}
				}
				if atomic.LoadInt64(&stopped) == 1 {
					return
				}
				f(g, r)
			}
		}(g)
	}
	wg.Wait()
	return int(atomic.LoadInt64(&done))
}

func cpu(n int64) *resources.Resource {
	return resources.NewResourceFromMap(map[string]resources.Quantity{"cpu": resources.Quantity(n)})
}

func fsResetUgm() *ugm.Manager {
	m := ugm.GetUserManager()
	m.ClearUserTrackers()
	m.ClearGroupTrackers()
	m.ClearConfigLimits()
	return m
}

// usage of a tracker at a queue path, and the applications it counts as running there
func daoAt(d *dao.ResourceUsageDAOInfo, path string) (int64, []string, bool) {
	if d == nil {
		return 0, nil, false
	}
	if d.QueuePath == path {
		apps := append([]string{}, d.RunningApplications...)
		sort.Strings(apps)
		return d.ResourceUsage["cpu"], apps, true
	}
	for _, c := range d.Children {
		if u, a, ok := daoAt(c, path); ok {
			return u, a, true
		}
	}
	return 0, nil, false
}

// ---------------------------------------------------------------------------------------------------- (a) / (c) ugm

// fsUgmUserFirstTouch: two goroutines first-touch the same FRESH user at the same instant: one as the scheduling loop
// does (Headroom, CanRunApp, then IncreaseTrackedResource for its application), one as the RM allocation handler does
// (IncreaseTrackedResource for an allocation the RM placed itself). Afterwards the user's tracker must hold the usage
// and the applications of both; after the matching decreases it must be gone.
func fsUgmUserFirstTouch(seed int64) *finalResult {
	return ugmFirstTouch(seed, false)
}

// fsUgmGroupFirstTouch: the same with a group limit configured, so that both goroutines also first-touch the GROUP
// tracker: every round uses a fresh group (limits for all of them are configured up front).
func fsUgmGroupFirstTouch(seed int64) *finalResult {
	return ugmFirstTouch(seed, true)
}

func ugmFirstTouch(seed int64, groups bool) *finalResult {
	res := &finalResult{}
	m := fsResetUgm()
	rounds := 3000
	const G = 2
	const q = "root.q"
	if groups {
		var gs []string
		for r := 0; r < rounds; r++ {
			gs = append(gs, fmt.Sprintf("grp%d", r))
		}
		conf := configs.QueueConfig{Name: "root", Parent: true, Limits: []configs.Limit{{Limit: "groups", Groups: gs, MaxApplications: 1000000,
			MaxResources: map[string]string{"cpu": "1000000"}}}}
		if err := m.UpdateConfig(conf, "root"); err != nil {
			res.check(false, "setup: UpdateConfig failed: %v", err)
			return res
		}
	}
	ug := func(r int) security.UserGroup {
		u := security.UserGroup{User: fmt.Sprintf("user%d-%d", seed%1000, r)}
		if groups {
			u.Groups = []string{fmt.Sprintf("grp%d", r)}
		}
		return u
	}
	amount := func(g int) int64 { return int64(1 + g) }
	planned := rounds
	rounds = storm(G, rounds, func(g, r int) {
		app := fmt.Sprintf("app-%d-%d", r, g)
		if g == 0 {
			_ = m.Headroom(q, app, ug(r))
			_ = m.CanRunApp(q, app, ug(r))
		}
		m.IncreaseTrackedResource(q, app, cpu(amount(g)), ug(r))
	})
	// settled: every user (and group) holds what both goroutines booked
	for r := 0; r < rounds; r++ {
		want := int64(0)
		var wantApps []string
		for g := 0; g < G; g++ {
			want += amount(g)
			wantApps = append(wantApps, fmt.Sprintf("app-%d-%d", r, g))
		}
		sort.Strings(wantApps)
		u := ug(r)
		ut := m.GetUserTracker(u.User)
		if ut == nil {
			res.check(false, "round %d: user %s has no tracker after two increases", r, u.User)
			continue
		}
		got, apps, _ := daoAt(ut.GetResourceUsageDAOInfo().Queues, q)
		res.check(got == want && strings.Join(apps, ",") == strings.Join(wantApps, ","),
			"round %d: user %s tracked usage at %s = cpu:%d running %v, the goroutines booked cpu:%d for %v", r, u.User, q, got, apps, want, wantApps)
		if groups {
			gt := m.GetGroupTracker(u.Groups[0])
			if gt == nil {
				res.check(false, "round %d: group %s has no tracker", r, u.Groups[0])
				continue
			}
			ggot, gapps, _ := daoAt(gt.GetResourceUsageDAOInfo().Queues, q)
			res.check(ggot == want && strings.Join(gapps, ",") == strings.Join(wantApps, ","),
				"round %d: group %s tracked usage at %s = cpu:%d running %v, booked cpu:%d for %v", r, u.Groups[0], q, ggot, gapps, want, wantApps)
		}
	}
	// the matching decreases, again at the same instant (whatever the barrier does not get to is released afterwards)
	dec := storm(G, rounds, func(g, r int) {
		m.DecreaseTrackedResource(q, fmt.Sprintf("app-%d-%d", r, g), cpu(amount(g)), ug(r), true)
	})
	for r := dec; r < rounds; r++ {
		for g := 0; g < G; g++ {
			m.DecreaseTrackedResource(q, fmt.Sprintf("app-%d-%d", r, g), cpu(amount(g)), ug(r), true)
		}
	}
	left := len(m.GetUserTrackers())
	res.check(left == 0, "after the matching decreases %d user trackers are left (expected none)", left)
	if groups {
		// a group with a configured limit keeps its tracker: it must be empty, and there must be one per group
		gts := m.GetGroupTrackers()
		res.check(len(gts) == planned, "after the matching decreases there are %d group trackers for %d configured groups", len(gts), planned)
		for _, gt := range gts {
			info := gt.GetResourceUsageDAOInfo()
			used, apps, _ := daoAt(info.Queues, q)
			res.check(used == 0 && len(apps) == 0 && len(info.Applications) == 0, "after the matching decreases group %s still tracks cpu:%d for %v / %v", info.GroupName, used, apps, info.Applications)
		}
	}
	res.detail = fmt.Sprintf("%d rounds, %d goroutines (scheduling-loop style and RM-handler style) first-touching a fresh user%s", rounds, G, map[bool]string{true: " and group", false: ""}[groups])
	return res
}

// fsUgmQueuePathFirstTouch: one long-lived user, every round a fresh leaf below root.p: the queue tracker children are
// created on first touch by two goroutines at the same instant.
func fsUgmQueuePathFirstTouch(seed int64) *finalResult {
	res := &finalResult{}
	m := fsResetUgm()
	rounds := 3000
	const G = 2
	u := security.UserGroup{User: "longlived"}
	path := func(r int) string { return fmt.Sprintf("root.p.leaf%d", r) }
	rounds = storm(G, rounds, func(g, r int) {
		app := fmt.Sprintf("app-%d-%d", r, g)
		if g == 0 {
			_ = m.CanRunApp(path(r), app, u)
			_ = m.Headroom(path(r), app, u)
		}
		m.IncreaseTrackedResource(path(r), app, cpu(int64(1+g)), u)
	})
	ut := m.GetUserTracker(u.User)
	if ut == nil {
		res.check(false, "user tracker missing")
		return res
	}
	info := ut.GetResourceUsageDAOInfo().Queues
	total, _, _ := daoAt(info, "root")
	res.check(total == int64(rounds)*3, "root usage of the user = cpu:%d, booked cpu:%d", total, int64(rounds)*3)
	for r := 0; r < rounds; r++ {
		got, apps, found := daoAt(info, path(r))
		res.check(found && got == 3 && len(apps) == 2, "%s: tracked cpu:%d running %v (found=%v), booked cpu:3 for 2 applications", path(r), got, apps, found)
	}
	pinfo, _, _ := daoAt(info, "root.p")
	res.check(pinfo == int64(rounds)*3, "root.p usage = cpu:%d, booked cpu:%d", pinfo, int64(rounds)*3)
	dec := storm(G, rounds, func(g, r int) {
		m.DecreaseTrackedResource(path(r), fmt.Sprintf("app-%d-%d", r, g), cpu(int64(1+g)), u, true)
	})
	for r := dec; r < rounds; r++ {
		for g := 0; g < G; g++ {
			m.DecreaseTrackedResource(path(r), fmt.Sprintf("app-%d-%d", r, g), cpu(int64(1+g)), u, true)
		}
	}
	res.check(len(m.GetUserTrackers()) == 0, "after the matching decreases %d user trackers are left", len(m.GetUserTrackers()))
	res.detail = fmt.Sprintf("%d rounds, %d goroutines first-touching a fresh queue path of one user", rounds, G)
	return res
}

// fsUgmRemoveVsAdd: a user with one application. At the same instant the RM handler releases that application's last
// allocation (DecreaseTrackedResource, removeApp) and the scheduling loop books the first allocation of a SECOND
// application of the same user. Afterwards the user's tracker must show the second application's usage.
func fsUgmRemoveVsAdd(seed int64) *finalResult {
	res := &finalResult{}
	m := fsResetUgm()
	rounds := 4000
	const q = "root.q"
	ug := func(r int) security.UserGroup {
		return security.UserGroup{User: fmt.Sprintf("user%d-%d", seed%1000, r)}
	}
	for r := 0; r < rounds; r++ {
		m.IncreaseTrackedResource(q, fmt.Sprintf("old-%d", r), cpu(4), ug(r))
	}
	rounds = storm(2, rounds, func(g, r int) {
		if g == 0 {
			m.DecreaseTrackedResource(q, fmt.Sprintf("old-%d", r), cpu(4), ug(r), true)
		} else {
			app := fmt.Sprintf("new-%d", r)
			_ = m.Headroom(q, app, ug(r))
			m.IncreaseTrackedResource(q, app, cpu(5), ug(r))
		}
	})
	for r := 0; r < rounds; r++ {
		u := ug(r)
		ut := m.GetUserTracker(u.User)
		if ut == nil {
			res.check(false, "round %d: user %s has NO tracker although application new-%d holds cpu:5 (booked on a tracker that was removed)", r, u.User, r)
			continue
		}
		got, apps, _ := daoAt(ut.GetResourceUsageDAOInfo().Queues, q)
		res.check(got == 5 && len(apps) == 1 && apps[0] == fmt.Sprintf("new-%d", r), "round %d: user %s tracked cpu:%d running %v, expected cpu:5 for [new-%d]", r, u.User, got, apps, r)
	}
	res.detail = fmt.Sprintf("%d rounds: release of a user's last application against the first allocation of the user's next application", rounds)
	return res
}

// ---------------------------------------------------------------------------------------------------- (b) objects

// fsQueueAllocated: root -> parent -> leaf. The scheduling goroutine books with TryIncAllocatedResource on the leaf, an
// RM handler books forced (IncAllocatedResource) and releases (DecAllocatedResource) what it booked, a third goroutine
// releases what the scheduling goroutine booked. Every level must end with exactly the sum of what is still booked.
func fsQueueAllocated(seed int64) *finalResult {
	res := &finalResult{}
	root, err := objects.NewConfiguredQueue(configs.QueueConfig{Name: "root", Parent: true}, nil, false, nil)
	if err != nil {
		res.check(false, "setup: %v", err)
		return res
	}
	parent, err := objects.NewConfiguredQueue(configs.QueueConfig{Name: "parent", Parent: true, Resources: configs.Resources{Max: map[string]string{"cpu": "5000"}}}, root, false, nil)
	if err != nil {
		res.check(false, "setup: %v", err)
		return res
	}
	leaf, err := objects.NewConfiguredQueue(configs.QueueConfig{Name: "leaf"}, parent, false, nil)
	if err != nil {
		res.check(false, "setup: %v", err)
		return res
	}
	other, err := objects.NewConfiguredQueue(configs.QueueConfig{Name: "other"}, parent, false, nil)
	if err != nil {
		res.check(false, "setup: %v", err)
		return res
	}
	rounds := 12000
	var net [3]int64                    // what each goroutine has added minus removed on leaf
	var netOther int64                  // booked on the sibling
	handoff := make(chan int64, rounds) // amounts the scheduling goroutine booked, released by goroutine 2
	rounds = storm(3, rounds, func(g, r int) {
		amt := int64(1 + (r+g)%5)
		switch g {
		case 0: // scheduling loop
			if leaf.TryIncAllocatedResource(cpu(amt)) == nil {
				net[0] += amt
				handoff <- amt
			}
		case 1: // RM handler: forced add / release of its own, also on the sibling queue
			if r%3 != 2 {
				leaf.IncAllocatedResource(cpu(amt), false)
				net[1] += amt
				other.IncAllocatedResource(cpu(1), false)
				netOther++
			} else if net[1] >= amt {
				if leaf.DecAllocatedResource(cpu(amt)) == nil {
					net[1] -= amt
				}
			}
		case 2: // releases of allocations the scheduling loop made
			select {
			case a := <-handoff:
				if leaf.DecAllocatedResource(cpu(a)) == nil {
					net[2] -= a
				}
			default:
			}
		}
	})
	want := net[0] + net[1] + net[2]
	l := int64(leaf.GetAllocatedResource().Resources["cpu"])
	o := int64(other.GetAllocatedResource().Resources["cpu"])
	p := int64(parent.GetAllocatedResource().Resources["cpu"])
	rt := int64(root.GetAllocatedResource().Resources["cpu"])
	res.check(l == want, "leaf allocated cpu:%d, still booked cpu:%d", l, want)
	res.check(o == netOther, "sibling allocated cpu:%d, still booked cpu:%d", o, netOther)
	res.check(p == want+netOther, "parent allocated cpu:%d, children hold cpu:%d", p, want+netOther)
	res.check(rt == want+netOther, "root allocated cpu:%d, children hold cpu:%d", rt, want+netOther)
	res.detail = fmt.Sprintf("%d rounds, 3 goroutines (TryInc / forced Inc+Dec / Dec) on root.parent.leaf", rounds)
	return res
}

// fsNodeAllocations: one node. The scheduling goroutine adds allocations with TryAddAllocation, an RM handler removes
// them and adds RM-placed ones (AddAllocation), a node handler adds / updates / removes foreign allocations and changes
// the capacity. At the end allocated = sum of the bound allocations, occupied = sum of the foreign ones,
// available = capacity - allocated - occupied.
func fsNodeAllocations(seed int64) *finalResult {
	res := &finalResult{}
	node := objects.NewNode(&si.NodeInfo{NodeID: "n1", SchedulableResource: toSI(cpu(100000))})
	rounds := 10000
	handoff := make(chan string, rounds)
	var live [3]map[string]int64
	for i := range live {
		live[i] = map[string]int64{}
	}
	var removedByRM sync.Map
	foreign := map[string]int64{}
	rounds = storm(3, rounds, func(g, r int) {
		amt := int64(1 + (r+g)%4)
		switch g {
		case 0:
			k := fmt.Sprintf("s-%d", r)
			if node.TryAddAllocation(newAlloc(k, "app", "n1", cpu(amt), false, false, "")) {
				live[0][k] = amt
				handoff <- k
			}
		case 1:
			if r%2 == 0 {
				k := fmt.Sprintf("rm-%d", r)
				node.AddAllocation(newAlloc(k, "app", "n1", cpu(amt), false, false, ""))
				live[1][k] = amt
			} else {
				select {
				case k := <-handoff:
					if node.RemoveAllocation(k) != nil {
						removedByRM.Store(k, true)
					}
				default:
				}
			}
		case 2:
			k := fmt.Sprintf("f-%d", r%50)
			switch r % 4 {
			case 0, 1:
				// as PartitionContext.handleForeignAllocation: a new foreign allocation is added, a known one updated
				if _, ok := foreign[k]; ok {
					node.UpdateForeignAllocation(newAlloc(k, "", "n1", cpu(amt), true, false, ""))
				} else {
					node.AddAllocation(newAlloc(k, "", "n1", cpu(amt), true, false, ""))
				}
				foreign[k] = amt
			case 2:
				if _, ok := foreign[k]; ok && node.RemoveAllocation(k) != nil {
					delete(foreign, k)
				}
			default:
				node.SetCapacity(cpu(100000 + int64(r%7)))
			}
		}
	})
	want := int64(0)
	n := 0
	for k, a := range live[0] {
		if _, gone := removedByRM.Load(k); !gone {
			want += a
			n++
		}
	}
	for _, a := range live[1] {
		want += a
		n++
	}
	wantOcc := int64(0)
	for _, a := range foreign {
		wantOcc += a
	}
	got := int64(node.GetAllocatedResource().Resources["cpu"])
	occ := int64(node.GetOccupiedResource().Resources["cpu"])
	capa := int64(node.GetCapacity().Resources["cpu"])
	avail := int64(node.GetAvailableResource().Resources["cpu"])
	res.check(got == want, "node allocated cpu:%d, bound allocations sum to cpu:%d", got, want)
	res.check(len(node.GetYunikornAllocations()) == n, "node lists %d allocations, %d are bound", len(node.GetYunikornAllocations()), n)
	res.check(occ == wantOcc, "node occupied cpu:%d, foreign allocations sum to cpu:%d", occ, wantOcc)
	res.check(len(node.GetForeignAllocations()) == len(foreign), "node lists %d foreign allocations, %d exist", len(node.GetForeignAllocations()), len(foreign))
	res.check(avail == capa-got-occ, "node available cpu:%d, capacity - allocated - occupied = cpu:%d", avail, capa-got-occ)
	res.detail = fmt.Sprintf("%d rounds, 3 goroutines (TryAdd / RM add+remove / foreign+capacity) on one node", rounds)
	return res
}

// ---------------------------------------------------------------------------------------------------- (c) queues

const dynQueueConf = `
partitions:
  - name: default
    placementrules:
      - name: provided
        create: true
    queues:
      - name: root
        submitacl: "*"
        queues:
          - name: parent
            parent: true
            submitacl: "*"
`

// fsDynamicQueue: every round a NEW dynamic queue path root.parent.dyn<r>; G goroutines submit one application each
// to it at the same instant (ClusterContext.handleRMUpdateApplicationEvent -> PartitionContext.AddApplication ->
// createQueue). Afterwards: one queue object per path, reachable from the partition, holding all G applications; every
// application's queue IS that object.
// (The scheduler handles application events on one goroutine; this scenario is about the get-or-create itself.)
func fsDynamicQueue(seed int64) *finalResult {
	return queueGetOrCreate(seed, false)
}

// fsRecoveryQueue: the same for the recovery queue: force-created applications whose queue does not exist end up in
// root.@recovery@, which is created on first use; afterwards a fresh partition is used for the next round.
func fsRecoveryQueue(seed int64) *finalResult {
	return queueGetOrCreate(seed, true)
}

func queueGetOrCreate(seed int64, recovery bool) *finalResult {
	res := &finalResult{}
	const G = 3
	rounds := 400
	if recovery {
		rounds = 60
	}
	var stack *coreStack
	var err error
	newStack := func() bool {
		conf := dynQueueConf
		if recovery {
			conf = strings.Replace(conf, "        create: true\n", "        create: false\n", 1)
		}
		stack, err = newCoreStack(conf)
		if err != nil {
			res.check(false, "setup: %v", err)
			return false
		}
		return true
	}
	if !newStack() {
		return res
	}
	for r := 0; r < rounds; r++ {
		if recovery && r > 0 && !newStack() { // the recovery queue is created once per partition
			return res
		}
		qname := fmt.Sprintf("root.parent.dyn%d", r)
		storm(G, 1, func(g, _ int) {
			req := &si.AddApplicationRequest{ApplicationID: fmt.Sprintf("app-%d-%d", r, g), QueueName: qname, PartitionName: corePart,
				Ugi: &si.UserGroupInformation{User: "alice", Groups: []string{"dev"}}}
			if recovery {
				req.QueueName = "root.nosuch.queue"
				req.Tags = map[string]string{siCommon.AppTagCreateForce: "true"}
			}
			stack.cc.VerifHandleApps(&si.ApplicationRequest{RmID: coreRM, New: []*si.AddApplicationRequest{req}})
		})
		want := qname
		if recovery {
			want = "root.@recovery@"
		}
		q := stack.part.GetQueue(want)
		if q == nil {
			res.check(false, "round %d: queue %s does not exist after %d applications were submitted to it", r, want, G)
			continue
		}
		napps := 0
		for g := 0; g < G; g++ {
			app := stack.part.GetApplication(fmt.Sprintf("app-%d-%d", r, g))
			if app == nil {
				res.check(false, "round %d: application app-%d-%d was not accepted", r, r, g)
				continue
			}
			napps++
			res.check(app.GetQueue() == q, "round %d: application %s sits in a queue object %s that is NOT the one the partition resolves %s to", r, app.ApplicationID, app.GetQueuePath(), want)
		}
		res.check(len(q.GetCopyOfApps()) == napps, "round %d: queue %s holds %d applications, %d were accepted for it", r, want, len(q.GetCopyOfApps()), napps)
		if pq := stack.part.GetQueue(want[:strings.LastIndex(want, ".")]); pq != nil {
			res.check(pq.GetCopyOfChildren()[want[strings.LastIndex(want, ".")+1:]] == q, "round %d: the parent's child entry for %s is a different queue object", r, want)
		}
	}
	res.detail = fmt.Sprintf("%d rounds, %d goroutines submitting applications to the same new queue", rounds, G)
	return res
}

// ---------------------------------------------------------------------------------------------------- (b) full stack

// fsPartitionStorm: one partition, two nodes. The RM event goroutine adds asks for a handful of long-lived applications
// and releases earlier ones (pending or allocated), the scheduling goroutine schedules, a node handler changes node
// capacities. Applications are NOT removed during the storm (that window is the known finding
// C14.orphan-allocation-app-removed-while-allocating). Input stops, scheduling runs dry, then the views must agree:
// partition counter = allocations on the nodes = allocations of the applications, queue allocated = node allocated =
// application allocated = tracked user usage, queue pending = outstanding asks. Then everything is released and removed:
// all of it must be zero and the trackers gone.
func fsPartitionStorm(seed int64) *finalResult {
	res := &finalResult{}
	fsResetUgm()
	stack, err := newCoreStack(onePartition)
	if err != nil {
		res.check(false, "setup: %v", err)
		return res
	}
	cc := stack.cc
	for i := 1; i <= 2; i++ {
		cc.VerifHandleNodes(&si.NodeRequest{RmID: coreRM, Nodes: []*si.NodeInfo{nodeInfo(fmt.Sprintf("n%d", i), si.NodeInfo_CREATE, cpu(40))}})
	}
	users := []string{"alice", "bob"}
	const napps = 4
	for a := 0; a < napps; a++ {
		cc.VerifHandleApps(&si.ApplicationRequest{RmID: coreRM, New: []*si.AddApplicationRequest{{ApplicationID: fmt.Sprintf("app%d", a), QueueName: "root.a", PartitionName: corePart,
			Ugi: &si.UserGroupInformation{User: users[a%2], Groups: []string{"dev"}}}}})
	}
	rounds := 2500
	rounds = storm(3, rounds, func(g, r int) {
		switch g {
		case 0:
			cc.VerifSchedule()
		case 1:
			app := fmt.Sprintf("app%d", r%napps)
			cc.VerifHandleAllocations(&si.AllocationRequest{RmID: coreRM, Allocations: []*si.Allocation{
				{AllocationKey: fmt.Sprintf("k%d", r), ApplicationID: app, PartitionName: corePart, ResourcePerAlloc: &si.Resource{Resources: map[string]*si.Quantity{"cpu": {Value: int64(1 + r%3)}}}}}})
			if r >= 8 {
				old := r - 8 + (r % 5) - 2
				cc.VerifHandleAllocations(&si.AllocationRequest{RmID: coreRM, Releases: &si.AllocationReleasesRequest{AllocationsToRelease: []*si.AllocationRelease{
					{PartitionName: corePart, ApplicationID: fmt.Sprintf("app%d", old%napps), AllocationKey: fmt.Sprintf("k%d", old), TerminationType: si.TerminationType_STOPPED_BY_RM}}}})
			}
		case 2:
			if r%10 == 0 {
				cc.VerifHandleNodes(&si.NodeRequest{RmID: coreRM, Nodes: []*si.NodeInfo{nodeInfo(fmt.Sprintf("n%d", 1+(r/10)%2), si.NodeInfo_UPDATE, cpu(int64(40+(r/10)%5)))}})
			}
		}
	})
	for i := 0; i < 200 && cc.VerifSchedule(); i++ {
	}
	part := stack.part
	compare := func(when string) {
		counter, _, resv := part.VerifCounters()
		nodeAllocs, nodeCPU := 0, int64(0)
		for _, n := range part.GetNodes() {
			nodeAllocs += len(n.GetYunikornAllocations())
			nodeCPU += int64(n.GetAllocatedResource().Resources["cpu"])
		}
		appAllocs, appCPU, pending := 0, int64(0), int64(0)
		perUser := map[string]int64{}
		for _, a := range part.GetApplications() {
			appAllocs += len(a.GetAllAllocations())
			c := int64(a.GetAllocatedResource().Resources["cpu"])
			appCPU += c
			perUser[a.GetUser().User] += c
			pending += int64(a.GetPendingResource().Resources["cpu"])
		}
		q := part.GetQueue("root.a")
		qCPU := int64(q.GetAllocatedResource().Resources["cpu"])
		qPending := int64(q.GetPendingResource().Resources["cpu"])
		rootCPU := int64(part.GetQueue("root").GetAllocatedResource().Resources["cpu"])
		res.check(counter == nodeAllocs && counter == appAllocs, "%s: partition allocation counter %d, allocations on the nodes %d, allocations of the applications %d", when, counter, nodeAllocs, appAllocs)
		res.check(nodeCPU == appCPU && qCPU == appCPU && rootCPU == appCPU, "%s: allocated cpu: nodes %d, applications %d, queue root.a %d, root %d", when, nodeCPU, appCPU, qCPU, rootCPU)
		res.check(qPending == pending, "%s: pending cpu: queue root.a %d, applications %d", when, qPending, pending)
		for _, u := range users {
			got := int64(0)
			if ut := ugm.GetUserManager().GetUserTracker(u); ut != nil {
				got, _, _ = daoAt(ut.GetResourceUsageDAOInfo().Queues, "root.a")
			}
			res.check(got == perUser[u], "%s: tracked usage of user %s at root.a cpu:%d, its applications hold cpu:%d", when, u, got, perUser[u])
		}
		res.check(resv >= 0, "%s: reservation counter %d", when, resv)
	}
	compare("settled")
	for a := 0; a < napps; a++ {
		cc.VerifHandleApps(&si.ApplicationRequest{RmID: coreRM, Remove: []*si.RemoveApplicationRequest{{ApplicationID: fmt.Sprintf("app%d", a), PartitionName: corePart}}})
	}
	time.Sleep(50 * time.Millisecond)
	compare("after removing every application")
	counter, _, resv := part.VerifCounters()
	res.check(counter == 0 && resv == 0, "after removing every application: allocation counter %d, reservation counter %d", counter, resv)
	res.check(len(ugm.GetUserManager().GetUserTrackers()) == 0, "after removing every application %d user trackers are left", len(ugm.GetUserManager().GetUserTrackers()))
	res.detail = fmt.Sprintf("%d rounds, 3 goroutines (scheduling loop / RM asks+releases / node capacity) on one partition", rounds)
	return res
}

// ---------------------------------------------------------------------------------------------------- node collection

// fsNodeCollection: a node collection with 8..16 nodes, once under the fair (utilisation) and once under the binpacking
// policy. Three goroutines change the SAME node at the same instant, round after round: the scheduling goroutine adds an
// allocation (TryAddAllocation), an RM handler removes an earlier one or adds one itself (RemoveAllocation / AddAllocation),
// a node handler changes the capacity (SetCapacity); a fourth walks the iterators meanwhile — only operations that notify the collection (foreign allocations and
// in-place resource updates do not: known finding C19.nodes-stale-after-unnotified-change). Every change notifies the
// collection (NodeUpdated), which re-keys the node in its sorted tree. After the storm
//
//	(i)  the order in which GetFullNodeIterator / GetNodeIterator visit the nodes is the order implied by each node's
//	     CURRENT state: ascending score of the collection's own policy recomputed now, ties by node id;
//	(ii) every registered node is visited exactly once.
func fsNodeCollection(seed int64) *finalResult {
	res := &finalResult{}
	nn := 8 + int(seed%9)
	total := 0
	for _, policy := range []string{"fair", "binpacking"} {
		nc := objects.NewNodeCollection("[rm]default")
		nc.SetNodeSortingPolicy(objects.NewNodeSortingPolicy(policy, nil))
		nodes := make([]*objects.Node, nn)
		for i := range nodes {
			nodes[i] = objects.NewNode(&si.NodeInfo{NodeID: fmt.Sprintf("node-%02d", i), SchedulableResource: toSI(vm(4000+int64(i), 4000))})
			if err := nc.AddNode(nodes[i]); err != nil {
				res.check(false, "setup: %v", err)
				return res
			}
		}
		handoff := make([]chan string, nn)
		for i := range handoff {
			handoff[i] = make(chan string, 1<<16)
		}
		// the storm runs in chunks of nn rounds (every node is hit once per chunk by all three goroutines at the same
		// instant); after every chunk everything is quiet and the order is compared: a stale key only survives until
		// the node's next change, so the state is inspected between the changes
		deadline := time.Now().Add(2 * time.Second)
		chunks, base := 0, 0
		badChunks := 0
		for chunks < 600 && time.Now().Before(deadline) {
			off := base
			done := storm(4, nn, func(g, r int) {
				r += off
				i := r % nn // everybody works on the same node in a round
				node := nodes[i]
				amt := int64(1 + (r*7+13*g)%40)
				switch g {
				case 0: // scheduling goroutine
					k := fmt.Sprintf("s-%d", r)
					if node.TryAddAllocation(newAlloc(k, "app", node.NodeID, vm(amt, 1+amt%4), false, false, "")) {
						handoff[i] <- k
					}
				case 1: // RM handler
					if r%3 == 0 {
						node.AddAllocation(newAlloc(fmt.Sprintf("rm-%d", r), "app", node.NodeID, vm(amt, amt), false, false, ""))
					} else {
						select {
						case k := <-handoff[i]:
							node.RemoveAllocation(k)
						default:
						}
					}
				case 2: // node handler
					node.SetCapacity(vm(4000+int64(i)+int64(r%13)*10, 4000+int64(r%5)*10))
				case 3: // a reader walking the nodes in order (what the scheduling cycle and the REST node list do)
					cnt := 0
					nc.GetFullNodeIterator().ForEachNode(func(*objects.Node) bool { cnt++; return cnt < 4 })
					nc.GetNodeIterator().ForEachNode(func(*objects.Node) bool { return false })
				}
			})
			base += done
			chunks++
			total += done
			if !ncOrderOK(res, nc, nodes, policy, chunks, badChunks < 2) {
				badChunks++
			}
		}
		if badChunks > 2 {
			res.check(false, "%s policy: the iteration order was wrong at %d of %d quiet points", policy, badChunks, chunks)
		}
	}
	res.detail = fmt.Sprintf("%d nodes, fair and binpacking policy, %d rounds in all (order checked at a quiet point after every %d rounds), 3 goroutines (TryAdd / RM add+remove / capacity) changing the same node at the same instant plus a reader of the iterators", nn, total, nn)
	return res
}

// ncOrderOK compares, at a quiet point, what the two iterators of the collection visit with the order implied by the
// current state of the nodes (score of the collection's own policy recomputed now, ties by node id)
func ncOrderOK(res *finalResult, nc objects.NodeCollection, nodes []*objects.Node, policy string, chunk int, report bool) bool {
	nn := len(nodes)
	nsp := nc.GetNodeSortingPolicy()
	type scored struct {
		id    string
		score float64
	}
	want := make([]scored, 0, nn)
	for _, n := range nodes {
		want = append(want, scored{n.NodeID, nsp.ScoreNode(n)})
	}
	sort.Slice(want, func(a, b int) bool {
		if want[a].score != want[b].score {
			return want[a].score < want[b].score
		}
		return want[a].id < want[b].id
	})
	wantIDs := make([]string, len(want))
	for i, w := range want {
		wantIDs[i] = w.id
	}
	ok := true
	for _, name := range []string{"GetFullNodeIterator", "GetNodeIterator"} {
		it := nc.GetFullNodeIterator()
		if name == "GetNodeIterator" {
			it = nc.GetNodeIterator()
		}
		var got []string
		seen := map[string]int{}
		it.ForEachNode(func(n *objects.Node) bool {
			got = append(got, n.NodeID)
			seen[n.NodeID]++
			return true
		})
		once := len(got) == nn
		for _, n := range nodes {
			if seen[n.NodeID] != 1 {
				once = false
			}
		}
		if !once {
			ok = false
			if report {
				res.check(false, "%s policy, quiet point %d, %s: visits %v — not every one of the %d registered nodes exactly once", policy, chunk, name, got, nn)
			}
			continue
		}
		if strings.Join(got, ",") != strings.Join(wantIDs, ",") {
			ok = false
			if report {
				first := ""
				for i := range wantIDs {
					if got[i] != wantIDs[i] {
						first = fmt.Sprintf("position %d: iterator has %s, the current scores put %s (score %.6f) there", i, got[i], wantIDs[i], want[i].score)
						break
					}
				}
				res.check(false, "%s policy, quiet point %d, %s: iteration order does not follow the nodes' current %s: %s; iterator %v, expected %v", policy, chunk, name,
					map[string]string{"fair": "utilisation", "binpacking": "free share"}[policy], first, got, wantIDs)
			}
		} else {
			res.check(true, "")
		}
	}
	return ok
}

func at(l []string, i int) string {
	if i < len(l) {
		return l[i]
	}
	return "nothing"
}

func vm(vcore, memory int64) *resources.Resource {
	return resources.NewResourceFromMap(map[string]resources.Quantity{"vcore": resources.Quantity(vcore), "memory": resources.Quantity(memory)})
}
