// Command ykh drives the real yunikorn-core code in-process and writes protocol lines (one JSON object per line)
// that the Lean driver `ykdrv` replays on the model. Built with -tags verif against /repo's working tree.
package main

import (
	"bufio"
	"encoding/json"
	"flag"
	"fmt"
	"math/rand"
	"os"
	"sort"
)

type Ctx struct {
	rng   *rand.Rand
	out   *bufio.Writer
	stats map[string]int
	n     int
	tier  string
	lines int
}

func (c *Ctx) emit(v map[string]interface{}) {
	b, err := json.Marshal(v)
	if err != nil {
		panic(err)
	}
	c.out.Write(b)
	c.out.WriteByte('\n')
	c.lines++
}

func (c *Ctx) stat(k string) { c.stats[k]++ }

func (c *Ctx) pick(n int) int { return c.rng.Intn(n) }

func (c *Ctx) chance(p float64) bool { return c.rng.Float64() < p }

var components = map[string]func(*Ctx){}

func main() {
	comp := flag.String("c", "", "component")
	seed := flag.Int64("seed", 1, "PRNG seed")
	n := flag.Int("n", 1000, "number of cases")
	outPath := flag.String("out", "-", "trace output")
	statsPath := flag.String("stats", "", "stats output (json)")
	tier := flag.String("tier", "quick", "tier")
	replay := flag.String("replay", "", "replay file (component specific)")
	mode := flag.String("mode", "", "generator mode (component specific)")
	flag.Parse()
	f, ok := components[*comp]
	if !ok {
		names := []string{}
		for k := range components {
			names = append(names, k)
		}
		sort.Strings(names)
		fmt.Fprintf(os.Stderr, "unknown component %q; have %v\n", *comp, names)
		os.Exit(2)
	}
	var w *os.File = os.Stdout
	if *outPath != "-" {
		var err error
		w, err = os.Create(*outPath)
		if err != nil {
			panic(err)
		}
		defer w.Close()
	}
	ctx := &Ctx{rng: rand.New(rand.NewSource(*seed)), out: bufio.NewWriterSize(w, 1<<20), stats: map[string]int{}, n: *n, tier: *tier}
	replayFile = *replay
	genMode = *mode
	silenceLogs()
	f(ctx)
	ctx.out.Flush()
	if *statsPath != "" {
		ctx.stats["lines"] = ctx.lines
		b, _ := json.MarshalIndent(ctx.stats, "", " ")
		_ = os.WriteFile(*statsPath, b, 0o644)
	}
}

var replayFile string
var genMode string
