package main

// Gang-scheduling biased histories for the full-stack harness: applications whose placeholder total equals the sum of
// the placeholder asks they submit (so that they reach Running through placeholder allocation), real asks of the same
// task group that are smaller than / equal to / larger than / incomparable with the placeholders, predicate denials that
// force the replacement onto another node, placeholder and completing timers, node removal while a swap is in flight,
// releases of placeholders by the RM, confirmations late / twice / never.

import (
	"fmt"
	"strings"

	"github.com/apache/yunikorn-core/pkg/common/resources"
)

const gangConfig = `partitions:
  - name: default
    placementrules:
      - name: provided
        create: true
    queues:
      - name: root
        submitacl: "*"
        limits:
          - limit: gpu is scarce for everybody, plenty of the rest
            users:
              - "*"
            maxresources: {cpu: 200, mem: 200, gpu: %d}
        queues:
          - name: a
            resources:
              max: {cpu: %d, mem: 60, gpu: 1}
          - name: b
            parent: true
            resources:
              max: {cpu: 16, mem: 60, gpu: 1}
            queues:
              - name: b1
              - name: b2
`

func gangHistory(c *Ctx, d *coreDrv) {
	s := &shimSim{c: c, d: d, nodes: map[string]bool{}, apps: map[string]bool{}, asks: map[string]*shimAsk{}, bound: map[string]string{}, foreign: map[string]string{}, gang: map[string]bool{}}
	emit := func(op map[string]interface{}) { d.applyWithTap(op, s.absorb) }
	// real asks are k-keys; deny some of them on some nodes so that replacements go to another node
	deny := []string{}
	for i := 1; i <= 14; i++ {
		if c.chance(0.45) {
			deny = append(deny, fmt.Sprintf("r%d|n%d", i, 1+c.pick(3)))
		}
		if c.chance(0.25) {
			// refused only in allocate mode (a reservation check on that node passes)
			deny = append(deny, fmt.Sprintf("r%d|n%d|a", i, 1+c.pick(3)))
		}
	}
	d.apply(map[string]interface{}{"op": "reset", "config": fmt.Sprintf(gangConfig, 1, 6+c.pick(8)), "deny": strings.Join(deny, " ")})
	if d.s == nil {
		return
	}
	nn := 2 + c.pick(2)
	for i := 1; i <= nn; i++ {
		capacity := resources.NewResourceFromMap(map[string]resources.Quantity{"cpu": resources.Quantity(10 + c.pick(14)), "mem": resources.Quantity(10 + c.pick(14))})
		id := fmt.Sprintf("n%d", i)
		emit(map[string]interface{}{"op": "node", "id": id, "action": "create", "res": encRes(capacity)})
		s.nodes[id] = true
	}
	type gapp struct {
		id       string
		phKeys   []string
		phRes    map[string]*resources.Resource
		tg       map[string]string
		realSeq  int
		realKeys []string
	}
	var gapps []*gapp
	napps := 1 + c.pick(3)
	phSeq, realSeq := 0, 0
	queues := []string{"root.a", "root.b.b1", "root.b.b2"}
	for i := 1; i <= napps; i++ {
		id := fmt.Sprintf("app-%d", i)
		g := &gapp{id: id, phRes: map[string]*resources.Resource{}, tg: map[string]string{}}
		// plan the placeholders first: the application asks for exactly their sum (sometimes for more: it then stays Accepted)
		nph := 1 + c.pick(4)
		total := resources.NewResource()
		for k := 0; k < nph; k++ {
			phSeq++
			key := fmt.Sprintf("p%d", phSeq)
			r := resources.NewResourceFromMap(map[string]resources.Quantity{"cpu": resources.Quantity(1 + c.pick(4))})
			if c.chance(0.6) {
				r.Resources["mem"] = resources.Quantity(1 + c.pick(4))
			}
			g.phKeys = append(g.phKeys, key)
			g.phRes[key] = r
			g.tg[key] = fmt.Sprintf("tg-%d", 1+c.pick(2))
			total.AddTo(r)
		}
		if c.chance(0.2) {
			total.Resources["cpu"] += 3 // never fully allocated
		}
		style := []string{"Soft", "Hard"}[c.pick(2)]
		emit(map[string]interface{}{"op": "app-add", "id": id, "queue": queues[c.pick(len(queues))], "user": []string{"alice", "bob"}[c.pick(2)], "groups": "dev",
			"phAsk": encRes(total), "style": style, "timeout": 3600000})
		s.apps[id] = true
		s.appList = append(s.appList, id)
		s.gang[id] = true
		gapps = append(gapps, g)
	}
	submitPh := func(g *gapp, key string) {
		// now and then the placeholder is reported as already bound (recovery style: the pod runs since before a restart)
		if nodes := sortedKeys(s.nodes); len(nodes) > 0 && c.chance(0.12) {
			n := s.pickFrom(nodes)
			emit(map[string]interface{}{"op": "alloc", "app": g.id, "key": key, "node": n, "res": encRes(g.phRes[key]), "ph": true, "tg": g.tg[key], "ctime": 1, "prio": 1})
			s.asks[key] = &shimAsk{app: g.id, key: key, res: g.phRes[key], ph: true, tg: g.tg[key]}
			s.bound[key] = n
			return
		}
		emit(map[string]interface{}{"op": "alloc", "app": g.id, "key": key, "res": encRes(g.phRes[key]), "ph": true, "tg": g.tg[key], "ctime": 1, "prio": 1})
		s.asks[key] = &shimAsk{app: g.id, key: key, res: g.phRes[key], ph: true, tg: g.tg[key]}
	}
	for _, g := range gapps {
		for _, k := range g.phKeys {
			if c.chance(0.9) {
				submitPh(g, k)
			}
		}
	}
	confirmSome := func(p float64) {
		for len(s.pendConf) > 0 && c.chance(p) {
			i := c.pick(len(s.pendConf))
			conf := s.pendConf[i]
			s.pendConf = append(s.pendConf[:i], s.pendConf[i+1:]...)
			delete(s.asks, conf["key"].(string))
			delete(s.bound, conf["key"].(string))
			if c.chance(0.92) {
				emit(conf)
				if c.chance(0.1) {
					emit(conf)
				}
			}
		}
	}
	stateOf := func(id string) string {
		if app := d.s.part.GetApplication(id); app != nil {
			return app.CurrentState()
		}
		return ""
	}
	nops := 25 + c.pick(60)
	for j := 0; j < nops; j++ {
		g := gapps[c.pick(len(gapps))]
		// scenario snippets for the situations the properties name explicitly
		if c.chance(0.12) {
			switch c.pick(5) {
			case 3:
				// a swap is waiting for the shim: the RM releases every real allocation of the application (it becomes
				// Completing), the completing timer fires, and only then the shim confirms
				for _, conf := range s.pendConf {
					if conf["type"] == "PLACEHOLDER_REPLACED" && conf["app"] == g.id {
						for k, a := range s.asks {
							if a.app == g.id && !a.ph && s.bound[k] != "" {
								emit(map[string]interface{}{"op": "release", "app": g.id, "key": k, "type": "STOPPED_BY_RM"})
								delete(s.asks, k)
								delete(s.bound, k)
							}
						}
						emit(map[string]interface{}{"op": "state-timeout", "app": g.id})
						break
					}
				}
			case 0:
				// node removal while a placeholder replacement is in flight: remove the placeholder's node
				for _, conf := range s.pendConf {
					if conf["type"] == "PLACEHOLDER_REPLACED" {
						if n := s.bound[conf["key"].(string)]; n != "" && s.nodes[n] && len(s.nodes) > 1 {
							emit(map[string]interface{}{"op": "node", "id": n, "action": "decommission"})
							delete(s.nodes, n)
						}
						break
					}
				}
			case 1:
				// restart from Completing with a placeholder ask, then the completing timer
				if stateOf(g.id) == "Completing" {
					phSeq++
					key := fmt.Sprintf("p%d", phSeq)
					g.phKeys = append(g.phKeys, key)
					g.phRes[key] = resources.NewResourceFromMap(map[string]resources.Quantity{"cpu": resources.Quantity(1 + c.pick(3))})
					g.tg[key] = "tg-1"
					submitPh(g, key)
					if c.chance(0.7) {
						emit(map[string]interface{}{"op": "state-timeout", "app": g.id})
					}
				}
			case 2:
				// a running gang application: placeholder timeout releases the unused placeholders, the real allocations
				// leave, the completing timer fires before the shim has confirmed the placeholder releases
				if stateOf(g.id) == "Running" {
					emit(map[string]interface{}{"op": "ph-timeout", "app": g.id})
					for k, a := range s.asks {
						if a.app == g.id && !a.ph {
							emit(map[string]interface{}{"op": "release", "app": g.id, "key": k, "type": "STOPPED_BY_RM"})
							delete(s.asks, k)
							delete(s.bound, k)
						}
					}
					emit(map[string]interface{}{"op": "state-timeout", "app": g.id})
				}
			default:
				// release all allocations while asks are outstanding, then the asks one by one
				emit(map[string]interface{}{"op": "release", "app": g.id, "key": "", "type": "STOPPED_BY_RM"})
				for k, a := range s.asks {
					if a.app == g.id {
						emit(map[string]interface{}{"op": "release", "app": g.id, "key": k, "type": "STOPPED_BY_RM"})
						delete(s.asks, k)
						delete(s.bound, k)
					}
				}
			}
			confirmSome(0.3)
			continue
		}
		p := c.pick(100)
		switch {
		case p < 38:
			before := len(s.pendConf)
			emit(map[string]interface{}{"op": "schedule"})
			// a swap was just decided: now and then the placeholder's node disappears before the shim confirms
			if len(s.pendConf) > before && s.pendConf[len(s.pendConf)-1]["type"] == "PLACEHOLDER_REPLACED" && c.chance(0.35) {
				if n := s.bound[s.pendConf[len(s.pendConf)-1]["key"].(string)]; n != "" && s.nodes[n] && len(s.nodes) > 1 {
					emit(map[string]interface{}{"op": "node", "id": n, "action": "decommission"})
					delete(s.nodes, n)
				}
			}
		case p < 58:
			// a real ask for one of the task groups: size relative to a placeholder of that group
			if len(g.phKeys) == 0 {
				break
			}
			ref := g.phKeys[c.pick(len(g.phKeys))]
			r := g.phRes[ref].Clone()
			switch c.pick(8) {
			case 0, 6, 7: // smaller
				for t := range r.Resources {
					if r.Resources[t] > 1 {
						r.Resources[t]--
					}
				}
			case 1: // larger
				r.Resources["cpu"] += 2
			case 2: // extra type the placeholder does not have (the users' limit on it is 1)
				r.Resources["gpu"] = resources.Quantity(1 + c.pick(2))
			case 3: // incomparable
				r.Resources["cpu"]++
				if r.Resources["mem"] > 0 {
					r.Resources["mem"]--
				}
			}
			realSeq++
			key := fmt.Sprintf("r%d", realSeq)
			tg := g.tg[ref]
			if c.chance(0.1) {
				tg = ""
			}
			emit(map[string]interface{}{"op": "alloc", "app": g.id, "key": key, "res": encRes(r), "tg": tg, "ctime": 2 + realSeq, "prio": 1})
			s.asks[key] = &shimAsk{app: g.id, key: key, res: r, tg: tg}
			g.realKeys = append(g.realKeys, key)
		case p < 66:
			confirmSome(1.0)
		case p < 74:
			// the RM releases something of the application: a placeholder, a real allocation or a pending ask
			keys := []string{}
			for k, a := range s.asks {
				if a.app == g.id {
					keys = append(keys, k)
				}
			}
			if len(keys) > 0 {
				k := s.pickFrom(sortStrings(keys))
				emit(map[string]interface{}{"op": "release", "app": g.id, "key": k, "type": "STOPPED_BY_RM"})
				delete(s.asks, k)
				delete(s.bound, k)
			}
		case p < 80:
			emit(map[string]interface{}{"op": "ph-timeout", "app": g.id})
		case p < 86:
			emit(map[string]interface{}{"op": "state-timeout", "app": g.id})
		case p < 89:
			// a node disappears (possibly while a replacement is in flight), or is drained / put back
			nodes := sortedKeys(s.nodes)
			if len(nodes) > 1 && c.chance(0.5) {
				id := s.pickFrom(nodes)
				emit(map[string]interface{}{"op": "node", "id": id, "action": "decommission"})
				delete(s.nodes, id)
			} else if len(nodes) > 0 {
				emit(map[string]interface{}{"op": "node", "id": s.pickFrom(nodes), "action": []string{"drain", "drain", "undrain"}[c.pick(3)]})
			}
		case p < 92:
			// a late placeholder ask (possibly while the application is Completing)
			phSeq++
			key := fmt.Sprintf("p%d", phSeq)
			g.phKeys = append(g.phKeys, key)
			g.phRes[key] = resources.NewResourceFromMap(map[string]resources.Quantity{"cpu": resources.Quantity(1 + c.pick(3))})
			g.tg[key] = "tg-1"
			submitPh(g, key)
		case p < 95:
			emit(map[string]interface{}{"op": "release", "app": g.id, "key": "", "type": "STOPPED_BY_RM"})
			for k, a := range s.asks {
				if a.app == g.id {
					delete(s.asks, k)
					delete(s.bound, k)
				}
			}
		case p < 97:
			if s.apps[g.id] {
				emit(map[string]interface{}{"op": "app-remove", "id": g.id})
				delete(s.apps, g.id)
				for k, a := range s.asks {
					if a.app == g.id {
						delete(s.asks, k)
						delete(s.bound, k)
					}
				}
			}
		default:
			nodes := sortedKeys(s.nodes)
			if len(nodes) > 0 {
				emit(map[string]interface{}{"op": "node", "id": s.pickFrom(nodes), "action": []string{"drain", "undrain"}[c.pick(2)]})
			}
		}
		confirmSome(0.5)
	}
	if c.chance(0.6) {
		confirmSome(1.0)
		for _, id := range s.appList {
			emit(map[string]interface{}{"op": "app-remove", "id": id})
		}
		confirmSome(1.0)
		d.apply(map[string]interface{}{"op": "drained"})
	}
}

func sortStrings(l []string) []string {
	out := append([]string{}, l...)
	for i := 1; i < len(out); i++ {
		for j := i; j > 0 && out[j] < out[j-1]; j-- {
			out[j], out[j-1] = out[j-1], out[j]
		}
	}
	return out
}

const preemptConfig = `partitions:
  - name: default
    preemption:
      enabled: true
    placementrules:
      - name: provided
        create: false
    queues:
      - name: root
        submitacl: "*"
        queues:
          - name: a
            resources:
              guaranteed: {cpu: %d, mem: %d}
              max: {cpu: 14, mem: 40}
          - name: b
            parent: true
            resources:
              guaranteed: {cpu: %d, mem: %d}
              max: {cpu: 16, mem: 40}
            queues:
              - name: b1
                resources:
                  guaranteed: {cpu: %d}
              - name: b2
                properties:
                  preemption.policy: %s
`

// preemptHistory: a small cluster is filled from one queue beyond its guaranteed share with low priority allocations,
// then asks arrive in queues that are under their guarantee.
func preemptHistory(c *Ctx, d *coreDrv) {
	s := &shimSim{c: c, d: d, nodes: map[string]bool{}, apps: map[string]bool{}, asks: map[string]*shimAsk{}, bound: map[string]string{}, foreign: map[string]string{}, gang: map[string]bool{}}
	emit := func(op map[string]interface{}) { d.applyWithTap(op, s.absorb) }
	conf := fmt.Sprintf(preemptConfig, 2+c.pick(4), 2+c.pick(4), 6+c.pick(6), 6+c.pick(6), 2+c.pick(4), []string{"default", "fence", "disabled"}[c.pick(3)])
	d.apply(map[string]interface{}{"op": "reset", "config": conf, "deny": ""})
	if d.s == nil {
		return
	}
	nn := 1 + c.pick(2)
	for i := 1; i <= nn; i++ {
		id := fmt.Sprintf("n%d", i)
		emit(map[string]interface{}{"op": "node", "id": id, "action": "create", "res": encRes(resources.NewResourceFromMap(map[string]resources.Quantity{"cpu": resources.Quantity(10 + c.pick(6)), "mem": resources.Quantity(10 + c.pick(6))}))})
		s.nodes[id] = true
	}
	queues := []string{"root.a", "root.b.b1", "root.b.b2"}
	for i := 1; i <= 4; i++ {
		id := fmt.Sprintf("app-%d", i)
		emit(map[string]interface{}{"op": "app-add", "id": id, "queue": queues[(i-1)%3], "user": []string{"alice", "bob"}[c.pick(2)], "groups": "dev"})
		s.apps[id] = true
		s.appList = append(s.appList, id)
	}
	askFor := func(app string, prio int, other bool) {
		key := s.newKey("k")
		r := resources.NewResourceFromMap(map[string]resources.Quantity{"cpu": resources.Quantity(1 + c.pick(5))})
		if c.chance(0.7) {
			r.Resources["mem"] = resources.Quantity(1 + c.pick(5))
		}
		emit(map[string]interface{}{"op": "alloc", "app": app, "key": key, "res": encRes(r), "ctime": s.seq, "prio": prio, "preemptOther": other})
		s.asks[key] = &shimAsk{app: app, key: key, res: r}
	}
	// phase 1: fill from the first application(s)
	filler := "app-1"
	for i := 0; i < 4+c.pick(6); i++ {
		askFor(filler, c.pick(2), false)
	}
	for i := 0; i < 6+c.pick(8); i++ {
		emit(map[string]interface{}{"op": "schedule"})
	}
	// phase 2: asks in the other queues, scheduling, confirmations, releases
	nops := 20 + c.pick(50)
	for j := 0; j < nops; j++ {
		p := c.pick(100)
		switch {
		case p < 25:
			askFor(s.appList[1+c.pick(3)], 1+c.pick(3), c.chance(0.8))
		case p < 30:
			askFor(filler, c.pick(2), false)
		case p < 70:
			emit(s.scheduleOp(interruptP))
			// a victim was just marked: now and then the RM removes the victim's application before the shim has confirmed the
			// preemption (its preempting total is still booked on the queues)
			for _, pc := range s.pendConf {
				if pc["type"] == "PREEMPTED_BY_SCHEDULER" && s.apps[pc["app"].(string)] && c.chance(0.08) {
					id := pc["app"].(string)
					emit(map[string]interface{}{"op": "app-remove", "id": id})
					delete(s.apps, id)
					for k, a := range s.asks {
						if a.app == id {
							delete(s.asks, k)
							delete(s.bound, k)
						}
					}
					break
				}
			}
		case p < 82:
			for len(s.pendConf) > 0 {
				conf := s.pendConf[0]
				s.pendConf = s.pendConf[1:]
				delete(s.asks, conf["key"].(string))
				delete(s.bound, conf["key"].(string))
				if c.chance(0.9) {
					emit(conf)
				}
			}
		case p < 92:
			keys := []string{}
			for k := range s.asks {
				keys = append(keys, k)
			}
			if len(keys) > 0 {
				k := s.pickFrom(sortStrings(keys))
				emit(map[string]interface{}{"op": "release", "app": s.asks[k].app, "key": k, "type": "STOPPED_BY_RM"})
				delete(s.asks, k)
				delete(s.bound, k)
			}
		case p < 95:
			nodes := sortedKeys(s.nodes)
			if len(nodes) > 0 {
				emit(map[string]interface{}{"op": "node", "id": s.pickFrom(nodes), "action": []string{"drain", "undrain"}[c.pick(2)]})
			}
		default:
			id := s.appList[c.pick(len(s.appList))]
			if s.apps[id] && c.chance(0.3) {
				emit(map[string]interface{}{"op": "app-remove", "id": id})
				delete(s.apps, id)
				for k, a := range s.asks {
					if a.app == id {
						delete(s.asks, k)
						delete(s.bound, k)
					}
				}
			}
		}
	}
}

const quotaConfig = `partitions:
  - name: default
    placementrules:
      - name: provided
        create: false
    queues:
      - name: root
        submitacl: "*"
        limits:
          - limit: alice
            users:
              - alice
            maxresources: {cpu: %d}
          - limit: devs
            groups:
              - dev
            maxresources: {cpu: %d}
        queues:
          - name: a
            limits:
              - limit: alice in a
                users:
                  - alice
                maxresources: {cpu: %d}
          - name: b
`

// quotaHistory: a small cluster of small nodes, a user with a tight quota and another one without: asks that do not fit
// get reserved, the quota fills up while they wait, space appears on other nodes.
func quotaHistory(c *Ctx, d *coreDrv) {
	s := &shimSim{c: c, d: d, nodes: map[string]bool{}, apps: map[string]bool{}, asks: map[string]*shimAsk{}, bound: map[string]string{}, foreign: map[string]string{}, gang: map[string]bool{}}
	emit := func(op map[string]interface{}) { d.applyWithTap(op, s.absorb) }
	lim := 8 + c.pick(8)
	limA := lim - c.pick(4)
	// scripted opening (60%): fill two nodes up to f free, reserve an ask of the quota-bound user that needs more than f,
	// let another application of that user use up the quota, then free a node
	scripted := c.chance(0.6)
	capN, free, big := 0, 0, 0
	if scripted {
		capN = 6 + c.pick(5)
		free = 2 + c.pick(2)
		big = free + 1 + c.pick(2)
		if big > capN-free {
			big = capN - free
		}
		lim = big + c.pick(free)
		limA = lim
	}
	conf := fmt.Sprintf(quotaConfig, lim, lim+4+c.pick(10), limA)
	// queue names are case insensitive: now and then the configuration spells the queue with the limit in capitals
	// (queue objects, placement and the shim's submissions use the lower case path)
	if c.chance(0.25) {
		conf = strings.Replace(conf, "          - name: a\n", "          - name: A\n", 1)
	}
	d.apply(map[string]interface{}{"op": "reset", "config": conf, "deny": ""})
	if d.s == nil {
		return
	}
	nn := 2 + c.pick(2)
	for i := 1; i <= nn; i++ {
		id := fmt.Sprintf("n%d", i)
		cpu := 6 + c.pick(5)
		if scripted {
			cpu = capN
		}
		emit(map[string]interface{}{"op": "node", "id": id, "action": "create", "res": encRes(resources.NewResourceFromMap(map[string]resources.Quantity{"cpu": resources.Quantity(cpu)}))})
		s.nodes[id] = true
	}
	type qa struct{ id, user, groups string }
	apps := []qa{{"app-1", "alice", "dev"}, {"app-2", "bob", "ops"}, {"app-3", "alice", "dev"}, {"app-4", "carol", "dev"}}
	for i, a := range apps {
		emit(map[string]interface{}{"op": "app-add", "id": a.id, "queue": []string{"root.a", "root.b"}[i%2], "user": a.user, "groups": a.groups})
		s.apps[a.id] = true
		s.appList = append(s.appList, a.id)
	}
	askFor := func(app string, lo, span int) {
		key := s.newKey("k")
		r := resources.NewResourceFromMap(map[string]resources.Quantity{"cpu": resources.Quantity(lo + c.pick(span))})
		emit(map[string]interface{}{"op": "alloc", "app": app, "key": key, "res": encRes(r), "ctime": s.seq, "prio": c.pick(3)})
		s.asks[key] = &shimAsk{app: app, key: key, res: r}
	}
	releaseOf := func(app string) {
		keys := []string{}
		for k, a := range s.asks {
			if a.app == app && (s.bound[k] != "" || c.chance(0.2)) {
				keys = append(keys, k)
			}
		}
		if len(keys) > 0 {
			k := s.pickFrom(sortStrings(keys))
			emit(map[string]interface{}{"op": "release", "app": app, "key": k, "type": "STOPPED_BY_RM"})
			delete(s.asks, k)
			delete(s.bound, k)
		}
	}
	if scripted {
		sched := func(n int) {
			for i := 0; i < n; i++ {
				emit(map[string]interface{}{"op": "schedule"})
			}
		}
		for i := 0; i < nn; i++ {
			askFor("app-2", capN-free, 1)
			sched(1)
		}
		askFor("app-1", big, 1)
		sched(2)
		askFor("app-3", free, 1)
		askFor("app-3", free, 1)
		sched(3)
		releaseOf("app-2")
		sched(3)
	}
	nops := 30 + c.pick(60)
	for j := 0; j < nops; j++ {
		p := c.pick(100)
		switch {
		case p < 14:
			askFor("app-2", 3, 5) // bob fills the nodes
		case p < 34:
			askFor([]string{"app-1", "app-3"}[c.pick(2)], 1, 5) // alice: quota bound
		case p < 40:
			askFor("app-4", 1, 4) // carol: group bound
		case p < 75:
			emit(s.scheduleOp(interruptP))
		case p < 86:
			releaseOf("app-2")
		case p < 92:
			releaseOf(s.appList[c.pick(len(s.appList))])
		case p < 95:
			nodes := sortedKeys(s.nodes)
			emit(map[string]interface{}{"op": "node", "id": s.pickFrom(nodes), "action": []string{"drain", "undrain"}[c.pick(2)]})
		default:
			for len(s.pendConf) > 0 {
				conf := s.pendConf[0]
				s.pendConf = s.pendConf[1:]
				delete(s.asks, conf["key"].(string))
				delete(s.bound, conf["key"].(string))
				emit(conf)
			}
		}
	}
}
