package main

// Generator for the full-stack harness: a small simulated shim that knows which nodes, applications, asks and
// allocations it has submitted / been told about, produces mostly-valid request sequences interleaved with
// scheduling cycles and timer firings, and delivers confirmations immediately, late, twice or never.

import (
	"fmt"
	"sort"
	"strings"

	"github.com/apache/yunikorn-core/pkg/common/configs"
	"github.com/apache/yunikorn-core/pkg/common/resources"
)

func init() {
	components["core"] = func(c *Ctx) { runCore(c, "core") }
}

type shimAsk struct {
	app, key, tg string
	res          *resources.Resource
	ph           bool
}

type shimSim struct {
	c        *Ctx
	d        *coreDrv
	nodes    map[string]bool
	apps     map[string]bool // submitted and not removed
	appList  []string
	asks     map[string]*shimAsk // key -> ask (outstanding or bound)
	bound    map[string]string   // key -> node (as told by the core or placed by the shim)
	foreign  map[string]string   // key -> node
	pendConf []map[string]interface{}
	seq      int
	gang     map[string]bool
	freed    []string // keys the shim released itself (by key): a pod name can come back (key reuse)
}

// coreConfig generates configurations until one passes the core's own validation.
func coreConfig(c *Ctx) string {
	for i := 0; i < 50; i++ {
		conf := coreConfigOnce(c)
		if _, err := configs.LoadSchedulerConfigFromByteArray([]byte(conf)); err == nil {
			return conf
		}
		c.stat("config-rejected")
	}
	return "partitions:\n  - name: default\n    queues:\n      - name: root\n        submitacl: \"*\"\n        queues:\n          - name: a\n          - name: b\n            parent: true\n            queues:\n              - name: b1\n              - name: b2\n"
}

func coreConfigOnce(c *Ctx) string {
	var b strings.Builder
	b.WriteString("partitions:\n  - name: default\n")
	if c.chance(0.5) {
		b.WriteString("    nodesortpolicy:\n      type: binpacking\n")
	}
	if c.chance(0.7) {
		b.WriteString("    preemption:\n      enabled: true\n")
	}
	b.WriteString("    placementrules:\n      - name: provided\n        create: true\n")
	b.WriteString("    queues:\n      - name: root\n        submitacl: \"*\"\n")
	if c.chance(0.3) {
		b.WriteString("        limits:\n          - limit: wild\n            users:\n              - \"*\"\n            maxresources: {cpu: " + fmt.Sprint(10+c.pick(40)) + "}\n            maxapplications: " + fmt.Sprint(1+c.pick(4)) + "\n")
	}
	b.WriteString("        queues:\n")
	res := func(ind string) {
		if c.chance(0.6) {
			b.WriteString(ind + "resources:\n")
			if c.chance(0.5) {
				b.WriteString(ind + "  guaranteed: {cpu: " + fmt.Sprint(2+c.pick(8)) + "}\n")
			}
			mx := []string{}
			if c.chance(0.8) {
				mx = append(mx, "cpu: "+fmt.Sprint(10+c.pick(30)))
			}
			if c.chance(0.5) {
				mx = append(mx, "mem: "+fmt.Sprint(10+c.pick(30)))
			}
			if len(mx) > 0 {
				b.WriteString(ind + "  max: {" + strings.Join(mx, ", ") + "}\n")
			}
		}
		if c.chance(0.3) {
			b.WriteString(ind + "maxapplications: " + fmt.Sprint(1+c.pick(3)) + "\n")
		}
	}
	b.WriteString("          - name: a\n")
	res("            ")
	b.WriteString("          - name: b\n            parent: true\n")
	res("            ")
	b.WriteString("            queues:\n              - name: b1\n")
	res("                ")
	b.WriteString("              - name: b2\n")
	res("                ")
	return b.String()
}

var coreQueues = []string{"root.a", "root.b.b1", "root.b.b2", "root.dyn1", "root.b.dyn2", "root.b", "nosuch.queue"}

func (s *shimSim) newKey(prefix string) string {
	s.seq++
	return fmt.Sprintf("%s%d", prefix, s.seq)
}

func (s *shimSim) askRes() *resources.Resource {
	r := resources.NewResource()
	r.Resources["cpu"] = resources.Quantity(1 + s.c.pick(8))
	if s.c.chance(0.6) {
		r.Resources["mem"] = resources.Quantity(1 + s.c.pick(8))
	}
	if s.c.chance(0.05) {
		r.Resources["gpu"] = 1
	}
	return r
}

func sortedKeys(m map[string]bool) []string {
	out := make([]string, 0, len(m))
	for k := range m {
		out = append(out, k)
	}
	sort.Strings(out)
	return out
}

func (s *shimSim) pickFrom(l []string) string {
	if len(l) == 0 {
		return ""
	}
	return l[s.c.pick(len(l))]
}

// absorb what the core told the shim in the last op
func (s *shimSim) absorb(msgs []map[string]interface{}) {
	for _, m := range msgs {
		switch m["t"] {
		case "alloc":
			s.bound[m["key"].(string)] = m["node"].(string)
		case "release":
			key, app, typ := m["key"].(string), m["app"].(string), m["type"].(string)
			switch typ {
			case "PLACEHOLDER_REPLACED", "TIMEOUT", "PREEMPTED_BY_SCHEDULER":
				// the shim has to confirm these
				s.pendConf = append(s.pendConf, map[string]interface{}{"op": "release", "app": app, "key": key, "type": typ})
			default:
				delete(s.bound, key)
				delete(s.asks, key)
			}
		case "app-rejected":
			delete(s.apps, m["app"].(string))
		}
	}
}

// scheduleOp returns a scheduling-cycle operation; now and then it carries an "interrupt": an RM removal request that is
// handled between the scheduling decision and its confirmation (PartitionContext.allocate), as the RM event goroutine
// could do it. The shim's own bookkeeping is updated for the removal.
// interruptP: probability that a generated scheduling cycle is interrupted. 0 in the generated streams: on the tree as
// received an RM removal inside the decision/confirmation window orphans the allocation the cycle just made (known
// finding C14.orphan-allocation-app-removed-while-allocating), which would drown every other clause of the history;
// the window is exercised by hand-written corpus scenarios instead (corpus/C09, corpus/C04).
const interruptP = 0.0

// waitExpiredP: probability that a generated scheduling cycle runs with an expired reservation wait timeout
const waitExpiredP = 0.08

func (s *shimSim) scheduleOp(p float64) map[string]interface{} {
	op := map[string]interface{}{"op": "schedule"}
	// now and then a cycle sees the reservations as older than the reservation wait timeout (60 minutes in production):
	// reservations whose ask has no headroom any more are cancelled
	if s.c.chance(waitExpiredP) {
		op["waitExpired"] = true
	}
	if !s.c.chance(p) {
		return op
	}
	pending := []string{}
	for k := range s.asks {
		if s.bound[k] == "" {
			pending = append(pending, k)
		}
	}
	sort.Strings(pending)
	apps := sortedKeys(s.apps)
	nodes := sortedKeys(s.nodes)
	switch q := s.c.pick(10); {
	case q < 6 && len(pending) > 0:
		k := s.pickFrom(pending)
		op["interrupt"] = map[string]interface{}{"op": "release", "app": s.asks[k].app, "key": k, "type": "STOPPED_BY_RM"}
		delete(s.asks, k)
		delete(s.bound, k)
	case q < 8 && len(apps) > 0:
		id := s.pickFrom(apps)
		op["interrupt"] = map[string]interface{}{"op": "app-remove", "id": id}
		delete(s.apps, id)
		for k, a := range s.asks {
			if a.app == id {
				delete(s.asks, k)
				delete(s.bound, k)
			}
		}
	case len(nodes) > 1:
		id := s.pickFrom(nodes)
		op["interrupt"] = map[string]interface{}{"op": "node", "id": id, "action": "decommission"}
		delete(s.nodes, id)
	}
	return op
}

func runCore(c *Ctx, id string) {
	d := &coreDrv{c: c, id: id}
	if replayFile != "" {
		for _, in := range readReplay(replayFile) {
			op := map[string]interface{}{}
			for k, v := range in {
				if k != "st" && k != "msgs" && k != "c" && k != "out" && k != "panic" && k != "error" && k != "hang" && k != "interrupted" {
					op[k] = v
				}
			}
			d.apply(op)
		}
		return
	}
	for it := 0; it < c.n; it++ {
		switch genMode {
		case "gang":
			gangHistory(c, d)
		case "preempt":
			preemptHistory(c, d)
		case "quota":
			quotaHistory(c, d)
		case "mixed":
			// the mix used by the checks: general, gang-biased, preemption-biased and quota-biased histories
			switch it % 6 {
			case 0, 1:
				coreHistory(c, d)
			case 2, 3:
				gangHistory(c, d)
			case 4:
				preemptHistory(c, d)
			default:
				quotaHistory(c, d)
			}
		default:
			coreHistory(c, d)
		}
	}
}

func coreHistory(c *Ctx, d *coreDrv) {
	s := &shimSim{c: c, d: d, nodes: map[string]bool{}, apps: map[string]bool{}, asks: map[string]*shimAsk{}, bound: map[string]string{}, foreign: map[string]string{}, gang: map[string]bool{}}
	// predicate denials: a few (key, node) pairs decided up front
	deny := []string{}
	for i := 0; i < 6; i++ {
		if c.chance(0.5) {
			deny = append(deny, fmt.Sprintf("k%d|n%d", 1+c.pick(40), 1+c.pick(4)))
		}
	}
	// every op goes through the tap so that the simulated shim sees the messages of the core
	emitAndAbsorb := func(op map[string]interface{}) { d.applyWithTap(op, s.absorb) }
	d.apply(map[string]interface{}{"op": "reset", "config": coreConfig(c), "deny": strings.Join(deny, " ")})
	if d.s == nil {
		return
	}
	nops := 30 + c.pick(90)
	users := []string{"alice", "bob", "carol"}
	for j := 0; j < nops; j++ {
		p := c.pick(100)
		nodes := sortedKeys(s.nodes)
		apps := sortedKeys(s.apps)
		switch {
		case p < 8 || len(nodes) == 0:
			if len(nodes) < 4 {
				id := fmt.Sprintf("n%d", 1+len(nodes)+c.pick(2))
				capacity := resources.NewResource()
				capacity.Resources["cpu"] = resources.Quantity(8 + c.pick(24))
				capacity.Resources["mem"] = resources.Quantity(8 + c.pick(24))
				if c.chance(0.1) {
					capacity.Resources["gpu"] = resources.Quantity(1 + c.pick(2))
				}
				act := "create"
				if c.chance(0.1) {
					act = "create-drain"
				}
				emitAndAbsorb(map[string]interface{}{"op": "node", "id": id, "action": act, "res": encRes(capacity)})
				s.nodes[id] = true
			}
		case p < 12:
			id := s.pickFrom(nodes)
			switch c.pick(5) {
			case 0:
				capacity := resources.NewResource()
				capacity.Resources["cpu"] = resources.Quantity(4 + c.pick(30))
				if c.chance(0.8) {
					capacity.Resources["mem"] = resources.Quantity(4 + c.pick(30))
				}
				emitAndAbsorb(map[string]interface{}{"op": "node", "id": id, "action": "update", "res": encRes(capacity)})
			case 1:
				emitAndAbsorb(map[string]interface{}{"op": "node", "id": id, "action": "drain"})
			case 2:
				emitAndAbsorb(map[string]interface{}{"op": "node", "id": id, "action": "undrain"})
			case 3:
				if c.chance(0.5) {
					emitAndAbsorb(map[string]interface{}{"op": "node", "id": id, "action": "decommission"})
					delete(s.nodes, id)
					for k, n := range s.foreign {
						if n == id {
							delete(s.foreign, k)
						}
					}
				}
			default:
				// unknown node
				emitAndAbsorb(map[string]interface{}{"op": "node", "id": "nx", "action": "drain"})
			}
		case p < 22 || len(apps) == 0:
			if len(s.appList) < 6 {
				id := fmt.Sprintf("app-%d", len(s.appList)+1)
				if c.chance(0.05) && len(apps) > 0 {
					id = s.pickFrom(apps) // duplicate submission
				}
				op := map[string]interface{}{"op": "app-add", "id": id, "queue": coreQueues[c.pick(len(coreQueues))], "user": users[c.pick(len(users))], "groups": "dev"}
				if c.chance(0.35) {
					// gang application
					ph := resources.NewResource()
					ph.Resources["cpu"] = resources.Quantity(2 + c.pick(10))
					op["phAsk"] = encRes(ph)
					op["style"] = []string{"Soft", "Hard"}[c.pick(2)]
					op["timeout"] = 3600000
					s.gang[id] = true
				}
				if c.chance(0.1) {
					op["tags"] = map[string]interface{}{"namespace.resourcemaxapps": fmt.Sprint(1 + c.pick(2))}
				}
				emitAndAbsorb(op)
				if !s.apps[id] {
					s.appList = append(s.appList, id)
				}
				s.apps[id] = true
			}
		case p < 45:
			// new ask
			app := s.pickFrom(apps)
			if c.chance(0.03) {
				app = "app-unknown"
			}
			key := s.newKey("k")
			if len(s.freed) > 0 && c.chance(0.12) {
				// the key of an allocation / ask the shim released earlier is used again (a pod re-created under its old name)
				i := c.pick(len(s.freed))
				if _, live := s.asks[s.freed[i]]; !live {
					key = s.freed[i]
				}
				s.freed = append(s.freed[:i], s.freed[i+1:]...)
			}
			ask := &shimAsk{app: app, key: key, res: s.askRes()}
			op := map[string]interface{}{"op": "alloc", "app": app, "key": key, "res": encRes(ask.res), "ctime": s.seq, "prio": c.pick(3), "preemptOther": c.chance(0.5)}
			if s.gang[app] && c.chance(0.7) {
				ask.tg = "tg-" + fmt.Sprint(1+c.pick(2))
				op["tg"] = ask.tg
				if c.chance(0.5) {
					ask.ph = true
					op["ph"] = true
				}
			}
			if c.chance(0.06) && len(nodes) > 0 {
				op["reqNode"] = s.pickFrom(nodes)
			}
			emitAndAbsorb(op)
			s.asks[key] = ask
		case p < 72:
			emitAndAbsorb(s.scheduleOp(interruptP))
		case p < 80:
			// release: an allocation the shim knows as bound, an outstanding ask, or garbage
			keys := []string{}
			for k := range s.asks {
				keys = append(keys, k)
			}
			sort.Strings(keys)
			if len(keys) > 0 {
				k := s.pickFrom(keys)
				a := s.asks[k]
				// releases the shim initiates: STOPPED_BY_RM (or no type). TIMEOUT / PREEMPTED_BY_SCHEDULER / PLACEHOLDER_REPLACED
				// are only legal as confirmations of a release the core announced (the malformed stream sends them unsolicited)
				typ := "STOPPED_BY_RM"
				if c.chance(0.1) {
					typ = "UNKNOWN"
				}
				emitAndAbsorb(map[string]interface{}{"op": "release", "app": a.app, "key": k, "type": typ})
				delete(s.asks, k)
				delete(s.bound, k)
				s.freed = append(s.freed, k)
			} else {
				emitAndAbsorb(map[string]interface{}{"op": "release", "app": s.pickFrom(apps), "key": "k-unknown", "type": "STOPPED_BY_RM"})
			}
		case p < 84:
			// deliver a pending confirmation (late), sometimes twice, sometimes drop it
			if len(s.pendConf) > 0 {
				i := c.pick(len(s.pendConf))
				conf := s.pendConf[i]
				s.pendConf = append(s.pendConf[:i], s.pendConf[i+1:]...)
				// once the shim has been told about the release it considers the key gone, whether or not it confirms
				delete(s.asks, conf["key"].(string))
				delete(s.bound, conf["key"].(string))
				if !c.chance(0.1) { // 10% never delivered
					emitAndAbsorb(conf)
					if c.chance(0.15) {
						emitAndAbsorb(conf)
					}
				}
			}
		case p < 87:
			// foreign allocations
			if len(nodes) > 0 {
				fk := []string{}
				for k := range s.foreign {
					fk = append(fk, k)
				}
				sort.Strings(fk)
				switch {
				case len(fk) > 0 && c.chance(0.4):
					k := s.pickFrom(fk)
					emitAndAbsorb(map[string]interface{}{"op": "release", "app": "", "key": k, "type": "STOPPED_BY_RM"})
					delete(s.foreign, k)
				case len(fk) > 0 && c.chance(0.4):
					k := s.pickFrom(fk)
					emitAndAbsorb(map[string]interface{}{"op": "alloc", "app": "", "key": k, "node": s.foreign[k], "res": encRes(s.askRes()), "foreign": true, "ctime": 1})
				default:
					k := s.newKey("f")
					n := s.pickFrom(nodes)
					emitAndAbsorb(map[string]interface{}{"op": "alloc", "app": "", "key": k, "node": n, "res": encRes(s.askRes()), "foreign": true, "ctime": 1})
					s.foreign[k] = n
				}
			}
		case p < 90:
			// RM-placed allocation (recovery style) or placement / resize of an existing ask
			if len(nodes) > 0 && len(apps) > 0 {
				// (not a placeholder whose release the core has announced and the shim has not confirmed yet: the shim is
				//  deleting that pod; a resize racing with the swap is outside the legal stream, see DESIGN 9.2)
				// (nor an ask of an application that has a swap waiting for the shim's confirmation: the real half of that swap
				//  is an ask the core has already placed; the shim binding or resizing it itself at that moment is the
				//  malformed stream's business: C13 class G-resizeUnbound)
				releasing := map[string]bool{}
				swapping := map[string]bool{}
				for _, pc := range s.pendConf {
					releasing[pc["key"].(string)] = true
					if pc["type"] == "PLACEHOLDER_REPLACED" {
						swapping[pc["app"].(string)] = true
					}
				}
				keys := []string{}
				for k, a := range s.asks {
					if !releasing[k] && !swapping[a.app] {
						keys = append(keys, k)
					}
				}
				sort.Strings(keys)
				if len(keys) > 0 && c.chance(0.5) {
					k := s.pickFrom(keys)
					a := s.asks[k]
					node := s.bound[k]
					if node == "" || c.chance(0.1) {
						node = s.pickFrom(nodes)
					}
					if s.bound[k] == "" && c.chance(0.25) {
						// a new allocation reported on a node the core does not know: must be rejected without any trace
						// (a brand-new key, or the placement / resize of an outstanding ask: the ask then stays as it was)
						uk := k
						if c.chance(0.5) {
							uk = s.newKey("k")
						}
						emitAndAbsorb(map[string]interface{}{"op": "alloc", "app": a.app, "key": uk, "node": "n-unknown", "res": encRes(s.askRes()), "ph": a.ph, "tg": a.tg, "ctime": 1})
					} else {
						nr := a.res
						if c.chance(0.5) {
							nr = s.askRes()
						}
						emitAndAbsorb(map[string]interface{}{"op": "alloc", "app": a.app, "key": k, "node": node, "res": encRes(nr), "ph": a.ph, "tg": a.tg, "ctime": 1})
						s.bound[k] = node
					}
				} else {
					app := s.pickFrom(apps)
					key := s.newKey("k")
					a := &shimAsk{app: app, key: key, res: s.askRes()}
					node := s.pickFrom(nodes)
					emitAndAbsorb(map[string]interface{}{"op": "alloc", "app": app, "key": key, "node": node, "res": encRes(a.res), "ctime": s.seq})
					s.asks[key] = a
					s.bound[key] = node
				}
			}
		case p < 93:
			if len(apps) > 0 {
				id := s.pickFrom(apps)
				if c.chance(0.5) {
					// release everything of the app
					emitAndAbsorb(map[string]interface{}{"op": "release", "app": id, "key": "", "type": "STOPPED_BY_RM"})
				} else {
					emitAndAbsorb(map[string]interface{}{"op": "app-remove", "id": id})
					delete(s.apps, id)
				}
				for k, a := range s.asks {
					if a.app == id {
						delete(s.asks, k)
						delete(s.bound, k)
					}
				}
			}
		case p < 96:
			if len(s.appList) > 0 {
				emitAndAbsorb(map[string]interface{}{"op": "ph-timeout", "app": s.pickFrom(s.appList)})
			}
		case p < 99:
			if len(s.appList) > 0 {
				emitAndAbsorb(map[string]interface{}{"op": "state-timeout", "app": s.pickFrom(s.appList)})
			}
		default:
			emitAndAbsorb(map[string]interface{}{"op": "cleanup"})
		}
		// confirmations delivered immediately (the usual case)
		for len(s.pendConf) > 0 && c.chance(0.6) {
			conf := s.pendConf[0]
			s.pendConf = s.pendConf[1:]
			delete(s.asks, conf["key"].(string))
			delete(s.bound, conf["key"].(string))
			emitAndAbsorb(conf)
		}
	}
	// drain: confirm everything, release everything, remove all apps and nodes: all ledgers must return to zero
	if c.chance(0.6) {
		for len(s.pendConf) > 0 {
			conf := s.pendConf[0]
			s.pendConf = s.pendConf[1:]
			emitAndAbsorb(conf)
		}
		for _, id := range s.appList {
			emitAndAbsorb(map[string]interface{}{"op": "app-remove", "id": id})
		}
		fk := []string{}
		for k := range s.foreign {
			fk = append(fk, k)
		}
		sort.Strings(fk)
		for _, k := range fk {
			emitAndAbsorb(map[string]interface{}{"op": "release", "app": "", "key": k, "type": "STOPPED_BY_RM"})
		}
		for len(s.pendConf) > 0 {
			conf := s.pendConf[0]
			s.pendConf = s.pendConf[1:]
			emitAndAbsorb(conf)
		}
		d.apply(map[string]interface{}{"op": "drained"})
	}
}
