package main

import (
	"bufio"
	"encoding/json"
	"os"
	"strconv"
	"strings"
)

// readReplay reads protocol lines (comment lines start with #); numbers are kept as json.Number.
func readReplay(path string) []map[string]interface{} {
	f, err := os.Open(path)
	if err != nil {
		panic(err)
	}
	defer f.Close()
	var out []map[string]interface{}
	sc := bufio.NewScanner(f)
	sc.Buffer(make([]byte, 1<<20), 1<<26)
	for sc.Scan() {
		t := strings.TrimSpace(sc.Text())
		if t == "" || strings.HasPrefix(t, "#") {
			continue
		}
		d := json.NewDecoder(strings.NewReader(t))
		d.UseNumber()
		m := map[string]interface{}{}
		if err := d.Decode(&m); err != nil {
			panic("replay: " + err.Error() + ": " + t)
		}
		out = append(out, m)
	}
	return out
}

func jsonInt(v interface{}) int64 {
	switch x := v.(type) {
	case nil:
		return 0
	case json.Number:
		i, err := x.Int64()
		if err != nil {
			panic(err)
		}
		return i
	case float64:
		return int64(x)
	case int64:
		return x
	case int:
		return int64(x)
	}
	panic("jsonInt: not a number")
}

func jsonStr(v interface{}) string {
	s, _ := v.(string)
	return s
}

func jsonBool(v interface{}) bool {
	b, _ := v.(bool)
	return b
}

func jsonU64(v interface{}) uint64 {
	switch x := v.(type) {
	case json.Number:
		u, err := strconv.ParseUint(x.String(), 10, 64)
		if err != nil {
			panic(err)
		}
		return u
	case uint64:
		return x
	case int:
		return uint64(x)
	case int64:
		return uint64(x)
	case float64:
		return uint64(x)
	}
	panic("jsonU64: not a number")
}

// norm round-trips a generated op through JSON so that apply() always sees decoded protocol values.
func norm(op map[string]interface{}) map[string]interface{} {
	b, err := json.Marshal(op)
	if err != nil {
		panic(err)
	}
	d := json.NewDecoder(strings.NewReader(string(b)))
	d.UseNumber()
	m := map[string]interface{}{}
	if err := d.Decode(&m); err != nil {
		panic(err)
	}
	return m
}
