package main

// Component "conf" (property C15): configuration documents.
// Every case is one YAML document: generated as a tree (partitions, queue hierarchy of depth <= 4 with sparse resource maps
// with unit suffixes, guaranteed/max, maxapplications, limits with named/wildcard users and groups, child templates,
// properties, ACL strings, placement rule chains, node sort policy), rendered through yaml.Node, and then
//   1. decoded with the decoder settings of configs.ParseAndValidateConfig (strict) and dumped: this is the tree the model gets;
//   2. validated by the real configs.LoadSchedulerConfigFromByteArray (result, error class, the validated tree);
//   3. re-validated K times with every YAML mapping re-ordered (plus Go's own map iteration randomness);
//   4. if accepted: loaded into a new scheduler.ClusterContext (NewClusterContext), two applications are placed through
//      PartitionContext.AddApplication, and the document is loaded into a running context (UpdateRMSchedulerConfig).
// Panics are recovered and reported in the line; a call that does not return within 10 s is reported as a hang.

import (
	"bytes"
	"encoding/json"
	"errors"
	"fmt"
	"io"
	"math/rand"
	"regexp"
	"sort"
	"strconv"
	"strings"
	"time"

	"go.yaml.in/yaml/v3"

	"github.com/apache/yunikorn-core/pkg/common/configs"
	"github.com/apache/yunikorn-core/pkg/common/security"
	"github.com/apache/yunikorn-core/pkg/scheduler"
	"github.com/apache/yunikorn-core/pkg/scheduler/objects"
	"github.com/apache/yunikorn-core/pkg/scheduler/ugm"
	"github.com/apache/yunikorn-scheduler-interface/lib/go/si"
)

func init() { components["conf"] = runConf }

const confRM = "rm-conf"

// the configuration a "running" scheduler has before the document under test is loaded into it
const confBase = `
partitions:
  - name: default
    queues:
      - name: root
        submitacl: '*'
        queues:
          - name: a
          - name: b
            parent: true
            queues:
              - name: c
`

// ---------------------------------------------------------------- yaml.Node helpers

func yStr(s string) *yaml.Node { return &yaml.Node{Kind: yaml.ScalarNode, Tag: "!!str", Value: s} }
func yInt(u uint64) *yaml.Node {
	return &yaml.Node{Kind: yaml.ScalarNode, Tag: "!!int", Value: strconv.FormatUint(u, 10)}
}
func yBool(b bool) *yaml.Node {
	return &yaml.Node{Kind: yaml.ScalarNode, Tag: "!!bool", Value: strconv.FormatBool(b)}
}
func yFloat(s string) *yaml.Node { return &yaml.Node{Kind: yaml.ScalarNode, Tag: "!!float", Value: s} }
func yMap() *yaml.Node           { return &yaml.Node{Kind: yaml.MappingNode, Tag: "!!map"} }
func ySeq() *yaml.Node           { return &yaml.Node{Kind: yaml.SequenceNode, Tag: "!!seq"} }
func yPut(m *yaml.Node, k string, v *yaml.Node) {
	m.Content = append(m.Content, yStr(k), v)
}

type kv struct{ K, V string }

// smap: an ordered string map as written in the document; nil pointer = key absent, empty = `{}`
type smap []kv

func ySMap(m smap) *yaml.Node {
	n := yMap()
	for _, e := range m {
		yPut(n, e.K, yStr(e.V))
	}
	return n
}

func yStrs(l []string) *yaml.Node {
	n := ySeq()
	for _, s := range l {
		n.Content = append(n.Content, yStr(s))
	}
	return n
}

func shuffleNode(n *yaml.Node, rng *rand.Rand) {
	if n.Kind == yaml.MappingNode {
		k := len(n.Content) / 2
		perm := rng.Perm(k)
		nc := make([]*yaml.Node, 0, len(n.Content))
		for _, i := range perm {
			nc = append(nc, n.Content[2*i], n.Content[2*i+1])
		}
		n.Content = nc
	}
	for _, c := range n.Content {
		shuffleNode(c, rng)
	}
}

// shuffleDoc re-orders the keys of every mapping of the document (sequences keep their order)
func shuffleDoc(text string, seed int64) (string, error) {
	var root yaml.Node
	if err := yaml.Unmarshal([]byte(text), &root); err != nil {
		return "", err
	}
	shuffleNode(&root, rand.New(rand.NewSource(seed)))
	out, err := yaml.Marshal(&root)
	return string(out), err
}

// ---------------------------------------------------------------- generator

type gLimit struct {
	Label   string
	Users   []string
	Groups  []string
	MaxRes  *smap
	MaxApps uint64
}

type gTmpl struct {
	MaxApps uint64
	Props   *smap
	G, M    *smap
}

type gQueue struct {
	Name      string
	Parent    *bool
	G, M      *smap
	MaxApps   uint64
	Props     *smap
	AdminACL  *string
	SubmitACL *string
	Tmpl      *gTmpl
	Queues    []*gQueue
	HasQueues bool // emit the key even when the list is empty
	Limits    []gLimit
	gVals     budget // generator bookkeeping: the guaranteed quantities drawn
}

type gFilter struct {
	Type   string
	Users  []string
	Groups []string
}

type gRule struct {
	Name   string
	Create *bool
	Filter *gFilter
	Parent *gRule
	Value  *string
}

type gPart struct {
	Name      *string
	Queues    []*gQueue
	HasQueues bool
	Rules     []*gRule
	Limits    []gLimit
	NSPType   *string
	Weights   []kv
}

type cgen struct {
	// focus: "" (everything at once) or one dimension ("limits", "resources", "apps", "rules"): the other dimensions are
	// generated clean so that the verdict of the document depends on the focused rules, whose values are drawn around the
	// inherited bounds
	focus       string
	adversarial bool
	c           *Ctx
	paths       []string // queue paths of the tree under construction (as written, root first)
	leafs       []string
}

var (
	resTypes   = []string{"memory", "vcore", "nvidia.com/gpu", "pods"}
	resScale   = map[string]int64{"memory": 1024, "vcore": 1000, "nvidia.com/gpu": 1, "pods": 10}
	badQty     = []string{"abc", "-1", "1.5", "", "9223372036854775808", "8Ei", "5 KB", "1e3", "0x10", "١٢"}
	queueNames = []string{"a", "b", "c", "d", "rooty", "roota", "prod", "dev", "test", "x_1", "q#1", "team:a", "u@corp", "n/a", "A", "Prod", "a", "b", "prod", "dev",
		"q0123456789012345678901234567890123456789", "q012345678901234567890123456789012345678901234567890123456789012"}
	badQNames = []string{"a.b", "sp ace", "", "é", "q!", "0123456789012345678901234567890123456789012345678901234567890123456789", "a$",
		"q0123456789012345678901234567890123456789012345678901234567890123"}
	userPool  = []string{"alice", "bob", "carol", "*", "svc.acct@corp", "_u", "dom/u$", "u:1#x"}
	badUsers  = []string{"9lives", "a b", "", "al$ice", "-u", "é"}
	groupPool = []string{"dev", "ops", "*", "g.1-x", "_g", "grp:a"}
	badGroups = []string{"9g", "g#1", "g@x", "g$", "", "a/b"}
	aclPool   = []string{"", "*", "alice", "alice,bob", "alice dev", "alice,bob dev,ops", " dev", "alice ", "* ", " *", "*  ", "  ", " ", "alice  dev", " alice dev", "alice dev ", "a b c", "alice\tdev", "a\tb\tc", "\talice dev", "alice dev\n", "*,alice", "alice *", "bad!user g#"}
	propPool  = []kv{{"application.sort.policy", "fifo"}, {"application.sort.policy", "fair"}, {"application.sort.policy", "stateaware"}, {"application.sort.policy", "bogus"},
		{"application.sort.priority", "disabled"}, {"application.sort.priority", "maybe"}, {"priority.policy", "fence"}, {"priority.policy", "nope"}, {"priority.offset", "5"}, {"priority.offset", "-3"},
		{"priority.offset", "x"}, {"priority.offset", "99999999999"}, {"preemption.policy", "fence"}, {"preemption.policy", "disabled"}, {"preemption.policy", "zzz"}, {"preemption.delay", "10s"},
		{"preemption.delay", "-1s"}, {"preemption.delay", "soon"}, {"quota.preemption.delay", "1m"}, {"quota.preemption.delay", "x"}, {"application.unschedasks.backoff", "true"},
		{"application.unschedasks.backoff.delay", "5s"}, {"custom", "v"}, {"", "v"}, {"k", ""}}
	ruleNames = []string{"fixed", "fixed", "fixed", "user", "tag", "provided", "test", "recovery", "foo", "Fixed", "FIXED", "User", "TAG", "bad-name", "", "_r1", "9r"}
	tagValues = []string{"namespace", "namespace", "Namespace", "", "team", "a.b"}
	fTypes    = []string{"", "allow", "deny", "Allow", "DENY", "bogus"}
	fUsers    = [][]string{nil, {}, {"alice"}, {"bob"}, {"al.*"}, {"a["}, {"alice", "bob"}, {"9x"}, {"x y"}, {"(ab"}, {"a|b"}, {"alice", "a["}, {"^al[ice]+$"}, {"\\d+"}, {"*"}}
	fGroups   = [][]string{nil, {}, {"dev"}, {"ops"}, {"d.*v"}, {"g#1"}, {"dev", "ops"}, {"(g"}, {"g[0-9]+"}, {"g@x"}, {"*"}}
)

func (g *cgen) oneOf(l []string) string { return l[g.c.pick(len(l))] }

// keep: a rule of well-formedness is respected: always in a focused document
func (g *cgen) keep(p float64) bool { return g.focus != "" || g.c.chance(p) }

// bad: an injection of something malformed; never in a focused document
func (g *cgen) bad(p float64) bool { return g.focus == "" && g.c.chance(p) }

// pIn: probability that a value of dimension dim is drawn within its bound
func (g *cgen) pIn(dim string) float64 {
	switch g.focus {
	case "":
		return 0.85
	case dim:
		return 0.6
	}
	return 1
}

// qty renders the value v (base units; milli for vcore) in one of its spellings
func (g *cgen) qty(typ string, v int64) string {
	c := g.c
	if g.bad(0.004) {
		s := g.oneOf(badQty)
		if s == "1m" && typ == "vcore" {
			s = "abc"
		}
		return s
	}
	if g.bad(0.002) && typ != "vcore" {
		return "1m" // milli suffix outside vcore
	}
	var s string
	switch {
	case typ == "vcore":
		if v%1000 == 0 && c.chance(0.6) {
			s = strconv.FormatInt(v/1000, 10)
		} else {
			s = strconv.FormatInt(v, 10) + "m"
		}
	case v > 0 && v%1048576 == 0 && c.chance(0.5):
		s = strconv.FormatInt(v/1048576, 10) + "Mi"
	case v > 0 && v%1024 == 0 && c.chance(0.5):
		s = strconv.FormatInt(v/1024, 10) + "Ki"
	case v > 0 && v%1000 == 0 && c.chance(0.5):
		s = strconv.FormatInt(v/1000, 10) + "k"
	default:
		s = strconv.FormatInt(v, 10)
	}
	switch c.pick(30) {
	case 0:
		s = " " + s
	case 1:
		s = s + " "
	case 2:
		// white space between number and suffix
		i := strings.IndexFunc(s, func(r rune) bool { return r < '0' || r > '9' })
		if i > 0 {
			s = s[:i] + " " + s[i:]
		}
	case 3:
		s = "0" + s
	}
	return s
}

// val draws a value for a type: mostly within the bound (if there is one)
func (g *cgen) val(typ string, bound int64, bounded bool, pIn float64) int64 {
	c := g.c
	sc := resScale[typ]
	if bounded && !c.chance(pIn) && bound < 1<<40 && c.chance(0.7) {
		// just above the bound
		return bound + int64(1+c.pick(2))*sc
	}
	if bounded && c.chance(pIn) {
		if bound <= 0 {
			return 0
		}
		n := bound / sc
		if n > 1<<40 {
			n = 1 << 40
		}
		if c.chance(0.3) {
			return bound
		}
		return int64(c.pick(int(n)+1)) * sc
	}
	if g.bad(0.004) {
		return []int64{1 << 62, 1<<63 - 1, 1 << 61, 7 << 60}[c.pick(4)]
	}
	v := int64(c.pick(17)) * sc
	if c.chance(0.1) {
		v += int64(c.pick(3)) - 1
		if v < 0 {
			v = 0
		}
	}
	return v
}

func capInt(u uint64) int {
	if u > 1000 {
		return 1000
	}
	return int(u)
}

type budget map[string]int64

func (b budget) clone() budget {
	o := budget{}
	for k, v := range b {
		o[k] = v
	}
	return o
}

type limCtx struct {
	res  map[string]budget // name -> inherited resource limit ("u:alice", "g:dev", "u:*", ...)
	apps map[string]uint64
}

func (l limCtx) clone() limCtx {
	o := limCtx{res: map[string]budget{}, apps: map[string]uint64{}}
	for k, v := range l.res {
		o.res[k] = v.clone()
	}
	for k, v := range l.apps {
		o.apps[k] = v
	}
	return o
}

func (g *cgen) resMap(pDef float64, bound budget, vals budget, dim string) *smap {
	c := g.c
	if g.bad(0.02) {
		return &smap{} // `{}`
	}
	var m smap
	for _, t := range resTypes {
		p := pDef
		if t == "nvidia.com/gpu" || t == "pods" {
			p = pDef / 3
		}
		if !c.chance(p) {
			continue
		}
		b, ok := bound[t]
		v := g.val(t, b, ok, g.pIn(dim))
		vals[t] = v
		m = append(m, kv{t, g.qty(t, v)})
	}
	if m == nil {
		return nil
	}
	return &m
}

func (g *cgen) limits(qmax budget, qapps uint64, lc limCtx, isRoot bool) []gLimit {
	c := g.c
	n := 1 + c.pick(3)
	var out []gLimit
	usedU, usedG := map[string]bool{}, map[string]bool{}
	for i := 0; i < n; i++ {
		l := gLimit{Label: fmt.Sprintf("l%d", i)}
		if c.chance(0.1) {
			l.Label = ""
		}
		nu := c.pick(3)
		if c.chance(0.5) {
			nu = 1
		}
		for j := 0; j < nu; j++ {
			u := g.oneOf(userPool)
			if c.chance(0.6) {
				u = g.oneOf(userPool[:4])
			}
			if g.bad(0.012) {
				u = g.oneOf(badUsers)
			}
			if usedU[u] && g.keep(0.9) {
				continue
			}
			if usedU["*"] && g.keep(0.9) {
				continue
			}
			usedU[u] = true
			l.Users = append(l.Users, u)
		}
		ng := c.pick(3)
		if c.chance(0.4) {
			ng = 0
		}
		for j := 0; j < ng; j++ {
			gr := g.oneOf(groupPool)
			if g.bad(0.012) {
				gr = g.oneOf(badGroups)
			}
			if gr == "*" && len(usedG) == 0 && g.keep(0.8) {
				gr = "dev"
			}
			if usedG[gr] && g.keep(0.9) {
				continue
			}
			if usedG["*"] && g.keep(0.9) {
				continue
			}
			usedG[gr] = true
			l.Groups = append(l.Groups, gr)
		}
		if len(l.Users) == 0 && len(l.Groups) == 0 && g.keep(0.95) {
			// fall back to a name not used yet (a group when the user wildcard is already taken)
			if !usedU["*"] {
				for _, u := range []string{"alice", "bob", "carol", "_u"} {
					if !usedU[u] {
						usedU[u] = true
						l.Users = []string{u}
						break
					}
				}
			} else if !usedG["*"] {
				for _, gr := range []string{"dev", "ops", "_g", "grp:a"} {
					if !usedG[gr] {
						usedG[gr] = true
						l.Groups = []string{gr}
						break
					}
				}
			}
			if len(l.Users) == 0 && len(l.Groups) == 0 {
				continue
			}
		}
		if g.bad(0.03) && l.Users == nil {
			l.Users = []string{} // `users: []`
		}
		// bound: queue max and the inherited limits of every name in this entry
		bound := qmax.clone()
		appBound := qapps
		merge := func(key string) bool {
			b, ok := lc.res[key]
			if ok {
				for t, v := range b {
					if cur, ok := bound[t]; !ok || v < cur {
						bound[t] = v
					}
				}
			}
			if a, ok2 := lc.apps[key]; ok2 && a != 0 && (appBound == 0 || a < appBound) {
				appBound = a
			}
			return ok
		}
		// adversarial documents respect only what the validator compares: the inherited entry of the name itself, and the
		// wildcard only when the name has no inherited entry
		for _, u := range l.Users {
			named := merge("u:" + u)
			if !named || !g.adversarial {
				merge("u:*")
			}
		}
		for _, gr := range l.Groups {
			named := merge("g:" + gr)
			if !named || !g.adversarial {
				merge("g:*")
			}
		}
		vals := budget{}
		if c.chance(0.75) {
			l.MaxRes = g.resMap(0.5, bound, vals, "limits")
			// a draw above the bound is meant to exceed an inherited limit, not the queue maximum (checked first)
			if l.MaxRes != nil {
				for i, e := range *l.MaxRes {
					if qm, ok := qmax[e.K]; ok && vals[e.K] > qm && c.chance(0.8) {
						vals[e.K] = qm
						(*l.MaxRes)[i].V = g.qty(e.K, qm)
					}
				}
			}
			// zero values are refused by checkLimit: avoid most of them
			if l.MaxRes != nil && g.keep(0.9) {
				for i, e := range *l.MaxRes {
					if vals[e.K] == 0 {
						v := resScale[e.K]
						if b, ok := bound[e.K]; ok && b < v {
							v = b
						}
						if v > 0 {
							vals[e.K] = v
							(*l.MaxRes)[i].V = g.qty(e.K, v)
						}
					}
				}
			}
		}
		if l.MaxRes == nil || len(*l.MaxRes) == 0 || appBound != 0 || c.chance(0.5) {
			switch {
			case appBound != 0 && c.chance(g.pIn("limits")+0.03):
				l.MaxApps = 1 + uint64(c.pick(capInt(appBound)))
			case appBound != 0 && g.focus != "":
				if c.chance(0.7) && appBound < 1<<40 {
					l.MaxApps = appBound + 1 + uint64(c.pick(2))
				}
			case g.keep(0.97):
				l.MaxApps = 1 + uint64(c.pick(12))
			}
		}
		inherit := func(key string) {
			nv := vals.clone()
			if old, ok := lc.res[key]; ok {
				for t, v := range old {
					if cur, ok := nv[t]; !ok || v < cur {
						nv[t] = v
					}
				}
			}
			lc.res[key] = nv
			lc.apps[key] = l.MaxApps
		}
		for _, u := range l.Users {
			inherit("u:" + u)
		}
		for _, gr := range l.Groups {
			inherit("g:" + gr)
		}
		out = append(out, l)
	}
	return out
}

func (g *cgen) acl() string {
	if g.focus != "" || g.c.chance(0.7) {
		return g.oneOf(aclPool[:6])
	}
	return g.oneOf(aclPool)
}

func (g *cgen) tmpl() *gTmpl {
	c := g.c
	t := &gTmpl{}
	if c.chance(0.4) {
		t.MaxApps = uint64(c.pick(6))
	}
	if c.chance(0.4) {
		t.Props = g.props()
	}
	if c.chance(0.6) {
		t.M = g.resMap(0.5, nil, budget{}, "tmpl")
	}
	if c.chance(0.4) {
		t.G = g.resMap(0.4, nil, budget{}, "tmpl")
	}
	if g.bad(0.08) {
		m := smap{{"memory", g.oneOf(badQty)}}
		t.M = &m
	}
	if g.bad(0.03) {
		m := smap{{"vcore", ""}, {"memory", ""}}
		t.G = &m
	}
	return t
}

func (g *cgen) props() *smap {
	c := g.c
	if c.chance(0.05) {
		return &smap{}
	}
	var m smap
	seen := map[string]bool{}
	for i := 0; i < 1+c.pick(3); i++ {
		p := propPool[c.pick(len(propPool))]
		if seen[p.K] {
			continue
		}
		seen[p.K] = true
		m = append(m, p)
	}
	return &m
}

func (g *cgen) queue(name, path string, depth int, effMax budget, gBudget budget, parentApps uint64, lc limCtx, isRoot bool) *gQueue {
	c := g.c
	q := &gQueue{Name: name}
	g.paths = append(g.paths, path)
	myMax, myG := budget{}, budget{}
	if !isRoot || c.chance(0.02) {
		pm := 0.4
		if g.focus == "limits" {
			pm = 0.12
		}
		q.M = g.resMap(pm, effMax, myMax, "resources")
		// guaranteed: within own max, the effective max and what is left of the parent's guaranteed
		gb := effMax.clone()
		for t, v := range myMax {
			if cur, ok := gb[t]; !ok || v < cur {
				gb[t] = v
			}
		}
		for t, v := range gBudget {
			if cur, ok := gb[t]; !ok || v < cur {
				gb[t] = v
			}
		}
		if c.chance(0.6) {
			q.G = g.resMap(0.4, gb, myG, "resources")
		}
	}
	q.gVals = myG
	eff := effMax.clone()
	for t, v := range myMax {
		if cur, ok := eff[t]; !ok || v < cur {
			eff[t] = v
		}
	}
	switch {
	case parentApps != 0 && c.chance(g.pIn("apps")+0.05):
		q.MaxApps = 1 + uint64(c.pick(capInt(parentApps)))
	case parentApps != 0 && g.focus == "apps":
		// above the parent, or missing
		if c.chance(0.6) {
			q.MaxApps = parentApps + 1 + uint64(c.pick(3))
		}
	case parentApps == 0 && c.chance(0.3) && g.focus != "limits":
		q.MaxApps = 1 + uint64(c.pick(20))
	case g.bad(0.05):
		q.MaxApps = []uint64{0, 1, 1 << 63, 1<<64 - 1}[c.pick(4)]
	}
	if isRoot && c.chance(0.8) && g.focus != "apps" {
		q.MaxApps = 0
	}
	if c.chance(0.2) {
		q.Props = g.props()
	}
	if c.chance(0.2) {
		s := g.acl()
		q.AdminACL = &s
	}
	if c.chance(0.25) {
		s := g.acl()
		q.SubmitACL = &s
	}
	if isRoot && c.chance(0.75) {
		s := "*"
		q.SubmitACL = &s
	}
	lc = lc.clone()
	pl := 0.3
	if g.adversarial {
		pl = 0.6
	}
	switch g.focus {
	case "limits":
		pl = 0.7
	case "resources", "rules":
		pl = 0.05
	case "apps":
		pl = 0.3
	}
	if c.chance(pl) {
		q.Limits = g.limits(myMax, q.MaxApps, lc, isRoot)
	}
	// children
	nch := 0
	if depth < 4 {
		switch {
		case isRoot:
			nch = c.pick(4)
			if c.chance(0.5) {
				nch = 2
			}
		case c.chance(0.5):
			nch = 1 + c.pick(3)
		}
	}
	gLeft := myG.clone()
	used := map[string]bool{}
	for i := 0; i < nch; i++ {
		nm := g.oneOf(queueNames)
		if g.bad(0.012) {
			nm = g.oneOf(badQNames)
		}
		if g.bad(0.01) {
			nm = "root"
		}
		if used[strings.ToLower(nm)] && (g.focus != "" || c.chance(0.95)) {
			continue
		}
		used[strings.ToLower(nm)] = true
		ch := g.queue(nm, path+"."+nm, depth+1, eff, gLeft, q.MaxApps, lc, false)
		q.Queues = append(q.Queues, ch)
		// what is left of the guaranteed budget for the next sibling
		if c.chance(g.pIn("resources")) {
			for t, v := range ch.gVals {
				if cur, ok := gLeft[t]; ok {
					if cur -= v; cur < 0 {
						cur = 0
					}
					gLeft[t] = cur
				}
			}
		}
	}
	if len(q.Queues) == 0 {
		g.leafs = append(g.leafs, path)
		if c.chance(0.03) {
			q.HasQueues = true // `queues: []`
		}
	}
	// the parent flag
	t, f := true, false
	switch {
	case isRoot:
		if c.chance(0.3) {
			q.Parent = &t
		} else if c.chance(0.05) {
			q.Parent = &f
		}
	case len(q.Queues) > 0:
		if c.chance(0.7) {
			q.Parent = &t
		} else if c.chance(0.3) {
			q.Parent = &f
		}
	default:
		if c.chance(0.2) {
			q.Parent = &t
		} else if c.chance(0.1) {
			q.Parent = &f
		}
	}
	if g.focus == "" && ((len(q.Queues) > 0 || (q.Parent != nil && *q.Parent)) && c.chance(0.3) || c.chance(0.02)) {
		q.Tmpl = g.tmpl()
	}
	return q
}

func (g *cgen) filter() *gFilter {
	c := g.c
	f := &gFilter{Type: g.oneOf(fTypes)}
	if c.chance(0.6) {
		f.Type = []string{"", "allow", "deny"}[c.pick(3)]
	}
	f.Users = fUsers[c.pick(len(fUsers))]
	f.Groups = fGroups[c.pick(len(fGroups))]
	if c.chance(0.5) {
		f.Groups = nil
	}
	return f
}

func (g *cgen) rule(depth int) *gRule {
	c := g.c
	r := &gRule{Name: g.oneOf(ruleNames)}
	if c.chance(0.5) {
		r.Name = []string{"fixed", "fixed", "user", "tag", "provided"}[c.pick(5)]
	}
	if c.chance(0.6) {
		b := c.chance(0.6)
		r.Create = &b
	}
	if c.chance(0.2) {
		r.Filter = g.filter()
	}
	lname := strings.ToLower(r.Name)
	var v string
	switch {
	case lname == "fixed":
		switch c.pick(12) {
		case 0, 1, 2:
			if len(g.leafs) > 0 {
				v = g.oneOf(g.leafs)
			}
		case 3, 4:
			v = g.oneOf(g.paths)
		case 5:
			// unqualified: last part(s) of an existing path
			p := g.oneOf(g.paths)
			if i := strings.Index(p, "."); i >= 0 {
				v = p[i+1:]
			} else {
				v = "a"
			}
		case 6:
			v = g.oneOf(g.paths) + "." + g.oneOf(queueNames)
		case 7:
			v = g.oneOf([]string{"rooty", "rootx.a", "root", "root.", "Root.a", "ROOT.b", "roo", "root..a", ".a", "a.", "root.a b", "a!b", "rootling.q.r", "@recovery@", "root.@recovery@", "root.@Recovery@", "rooty", "rootx.a"})
		case 8:
			v = g.oneOf(queueNames)
			if c.chance(0.3) {
				// a value that only starts with "root": the name of an existing first level queue prefixed, or a fresh one
				v = "root" + v
			}
		case 9:
			v = g.oneOf(queueNames) + "." + g.oneOf(queueNames)
		case 10:
			v = strings.ToUpper(g.oneOf(g.paths))
		case 11:
			v = ""
		}
	case lname == "tag":
		v = g.oneOf(tagValues)
	default:
		if c.chance(0.1) {
			v = g.oneOf(queueNames)
		}
	}
	if v != "" || c.chance(0.3) {
		r.Value = &v
	}
	if depth < 3 && c.chance(0.3) {
		r.Parent = g.rule(depth + 1)
	}
	return r
}

func (g *cgen) partition(first bool) *gPart {
	c := g.c
	p := &gPart{}
	g.paths, g.leafs = nil, nil
	if first {
		switch c.pick(10) {
		case 0, 1:
			// name absent
		case 2:
			s := ""
			p.Name = &s
		case 3:
			s := []string{"Default", "DEFAULT"}[c.pick(2)]
			p.Name = &s
		default:
			s := "default"
			p.Name = &s
		}
	} else {
		s := []string{"gpu", "gpu", "GPU", "default", "", "Default"}[c.pick(6)]
		p.Name = &s
	}
	lc := limCtx{res: map[string]budget{}, apps: map[string]uint64{}}
	p.HasQueues = true
	k := c.pick(40)
	if g.focus != "" {
		k = 39
	}
	switch {
	case k == 0:
		p.HasQueues = false // no queues key at all
	case k == 1:
		// `queues: []`
	case k == 2 || k == 3:
		// a single top queue that is not called root (root is inserted)
		nm := g.oneOf(queueNames)
		g.paths = append(g.paths, "root")
		p.Queues = []*gQueue{g.queue(nm, "root."+nm, 2, budget{}, budget{}, 0, lc, false)}
	case k == 4 || k == 5:
		// several top queues (root is inserted)
		g.paths = append(g.paths, "root")
		for _, nm := range []string{"a", "b", g.oneOf(queueNames)}[:2+c.pick(2)] {
			p.Queues = append(p.Queues, g.queue(nm, "root."+nm, 2, budget{}, budget{}, 0, lc, false))
		}
	case k == 6:
		nm := []string{"Root", "ROOT", "rOOt"}[c.pick(3)]
		p.Queues = []*gQueue{g.queue(nm, "root", 1, budget{}, budget{}, 0, lc, true)}
	default:
		p.Queues = []*gQueue{g.queue("root", "root", 1, budget{}, budget{}, 0, lc, true)}
	}
	if (g.focus == "" && c.chance(0.45)) || g.focus == "rules" {
		n := 1 + c.pick(3)
		if len(g.paths) == 0 {
			g.paths = []string{"root"}
		}
		for i := 0; i < n; i++ {
			p.Rules = append(p.Rules, g.rule(1))
		}
	}
	if g.bad(0.04) {
		p.Limits = g.limits(budget{}, 0, lc.clone(), true)
		if len(p.Queues) == 1 && c.chance(0.5) {
			p.Queues[0].Limits = append([]gLimit(nil), p.Limits...)
			if c.chance(0.3) && len(p.Queues[0].Limits) > 0 {
				p.Queues[0].Limits[0].Label += "x"
			}
		}
	}
	if g.focus == "" && c.chance(0.25) {
		s := []string{"", "fair", "binpacking", "binpacking", "bogus", "Fair"}[c.pick(6)]
		p.NSPType = &s
		if c.chance(0.5) {
			for _, t := range []string{"vcore", "memory", "pods"} {
				if c.chance(0.5) {
					p.Weights = append(p.Weights, kv{t, []string{"1", "2.5", "0", "-1", "-0.5", "-0.0", "1e3", ".nan"}[c.pick(8)]})
				}
			}
		}
	}
	return p
}

func yLimit(l gLimit) *yaml.Node {
	n := yMap()
	yPut(n, "limit", yStr(l.Label))
	if l.Users != nil {
		yPut(n, "users", yStrs(l.Users))
	}
	if l.Groups != nil {
		yPut(n, "groups", yStrs(l.Groups))
	}
	if l.MaxRes != nil {
		yPut(n, "maxresources", ySMap(*l.MaxRes))
	}
	if l.MaxApps != 0 {
		yPut(n, "maxapplications", yInt(l.MaxApps))
	}
	return n
}

func yLimits(ls []gLimit) *yaml.Node {
	s := ySeq()
	for _, l := range ls {
		s.Content = append(s.Content, yLimit(l))
	}
	return s
}

func yResources(g, m *smap) *yaml.Node {
	n := yMap()
	if g != nil {
		yPut(n, "guaranteed", ySMap(*g))
	}
	if m != nil {
		yPut(n, "max", ySMap(*m))
	}
	return n
}

func yQueue(q *gQueue) *yaml.Node {
	n := yMap()
	yPut(n, "name", yStr(q.Name))
	if q.Parent != nil {
		yPut(n, "parent", yBool(*q.Parent))
	}
	if q.G != nil || q.M != nil {
		yPut(n, "resources", yResources(q.G, q.M))
	}
	if q.MaxApps != 0 {
		yPut(n, "maxapplications", yInt(q.MaxApps))
	}
	if q.Props != nil {
		yPut(n, "properties", ySMap(*q.Props))
	}
	if q.AdminACL != nil {
		yPut(n, "adminacl", yStr(*q.AdminACL))
	}
	if q.SubmitACL != nil {
		yPut(n, "submitacl", yStr(*q.SubmitACL))
	}
	if q.Tmpl != nil {
		t := yMap()
		if q.Tmpl.MaxApps != 0 {
			yPut(t, "maxapplications", yInt(q.Tmpl.MaxApps))
		}
		if q.Tmpl.Props != nil {
			yPut(t, "properties", ySMap(*q.Tmpl.Props))
		}
		if q.Tmpl.G != nil || q.Tmpl.M != nil {
			yPut(t, "resources", yResources(q.Tmpl.G, q.Tmpl.M))
		}
		yPut(n, "childtemplate", t)
	}
	if len(q.Queues) > 0 || q.HasQueues {
		s := ySeq()
		for _, ch := range q.Queues {
			s.Content = append(s.Content, yQueue(ch))
		}
		yPut(n, "queues", s)
	}
	if q.Limits != nil {
		yPut(n, "limits", yLimits(q.Limits))
	}
	return n
}

func yRule(r *gRule) *yaml.Node {
	n := yMap()
	yPut(n, "name", yStr(r.Name))
	if r.Create != nil {
		yPut(n, "create", yBool(*r.Create))
	}
	if r.Filter != nil {
		f := yMap()
		yPut(f, "type", yStr(r.Filter.Type))
		if r.Filter.Users != nil {
			yPut(f, "users", yStrs(r.Filter.Users))
		}
		if r.Filter.Groups != nil {
			yPut(f, "groups", yStrs(r.Filter.Groups))
		}
		yPut(n, "filter", f)
	}
	if r.Parent != nil {
		yPut(n, "parent", yRule(r.Parent))
	}
	if r.Value != nil {
		yPut(n, "value", yStr(*r.Value))
	}
	return n
}

func yPart(p *gPart) *yaml.Node {
	n := yMap()
	if p.Name != nil {
		yPut(n, "name", yStr(*p.Name))
	}
	if p.HasQueues {
		s := ySeq()
		for _, q := range p.Queues {
			s.Content = append(s.Content, yQueue(q))
		}
		yPut(n, "queues", s)
	}
	if p.Rules != nil {
		s := ySeq()
		for _, r := range p.Rules {
			s.Content = append(s.Content, yRule(r))
		}
		yPut(n, "placementrules", s)
	}
	if p.Limits != nil {
		yPut(n, "limits", yLimits(p.Limits))
	}
	if p.NSPType != nil {
		m := yMap()
		yPut(m, "type", yStr(*p.NSPType))
		if p.Weights != nil {
			w := yMap()
			for _, e := range p.Weights {
				yPut(w, e.K, yFloat(e.V))
			}
			yPut(m, "resourceweights", w)
		}
		yPut(n, "nodesortpolicy", m)
	}
	return n
}

// ---------------------------------------------------------------- limit ladders
//
// A ladder document is a chain of three or four queue levels (root included) with limit entries for the SAME subject
// (a named user, a named group, the user wildcard, the group wildcard, or a named user below wildcard entries) on most
// levels, where the levels name different, partly overlapping sets of resource types (memory only / vcore only / both / a
// third type).  The values are drawn around what the subject inherited from ALL the levels above (below / equal / above),
// so the verdict depends on the limit that checkLimitResource hands down through a level that does not name a type
// (ComponentWiseMin over the union of the types).  Side leaves hang off the chain with their own entry for the subject.

type ladderSubject struct {
	group bool
	names []string // the name used on a level is drawn from here ("alice"; "*"; or both for the mixed layout)
	kind  string
}

var ladderTypeSets = [][]string{
	{"memory"}, {"memory"}, {"memory"}, {"vcore"}, {"vcore"}, {"vcore"}, {"memory", "vcore"}, {"memory", "vcore"}, {"memory", "vcore"},
	{"nvidia.com/gpu"}, {"nvidia.com/gpu"}, {"memory", "nvidia.com/gpu"}, {"vcore", "nvidia.com/gpu"}, {"memory", "vcore", "nvidia.com/gpu"}, {"pods"}, {"vcore", "pods"},
}

// ladderEntry draws the limit entry of one subject on one queue; par is what the validator hands down to this queue for
// users or groups (name -> union-minimum of the levels above), cur is what this queue hands down
func (g *cgen) ladderEntry(s ladderSubject, label string, par, cur map[string]budget, apps uint64) gLimit {
	c := g.c
	name := s.names[c.pick(len(s.names))]
	l := gLimit{Label: label, MaxApps: apps}
	bound, bounded := par[name]
	if !bounded && name != "*" {
		// a name without an entry above is compared with the wildcard entry above
		bound, bounded = par["*"]
	}
	types := ladderTypeSets[c.pick(len(ladderTypeSets))]
	if bounded && c.chance(0.35) {
		// aim at a type the nearest levels may not name: one the inherited limit has
		var have []string
		for _, t := range resTypes {
			if _, ok := bound[t]; ok {
				have = append(have, t)
			}
		}
		if len(have) > 0 {
			types = []string{have[c.pick(len(have))]}
			if c.chance(0.3) {
				extra := resTypes[c.pick(len(resTypes))]
				if extra != types[0] {
					types = append(types, extra)
				}
			}
		}
	}
	vals := budget{}
	var m smap
	for _, t := range resTypes { // fixed order of the types, the document is shuffled later
		in := false
		for _, x := range types {
			in = in || x == t
		}
		if !in {
			continue
		}
		sc := resScale[t]
		var v int64
		b, ok := bound[t]
		switch {
		case !ok:
			v = int64(2+c.pick(14)) * sc
		case c.chance(0.17):
			v = b + int64(1+c.pick(2))*sc // above
		case c.chance(0.3) || b <= sc:
			v = b // equal
		default:
			v = int64(1+c.pick(int(b/sc)-1)) * sc // below, never zero
		}
		if v <= 0 {
			v = sc
		}
		vals[t] = v
		m = append(m, kv{t, g.qty(t, v)})
	}
	l.MaxRes = &m
	if s.group {
		l.Groups = []string{name}
		if name == "*" {
			// the group wildcard may not be the only group of a queue: a named group goes with it
			l.Groups = []string{"ops", "*"}
		}
	} else {
		l.Users = []string{name}
	}
	hand := func(n string) {
		nv := vals.clone()
		if old, ok := par[n]; ok {
			// the name had an entry above: the union of the types, the smaller value of each
			for t, v := range old {
				if x, ok := nv[t]; !ok || v < x {
					nv[t] = v
				}
			}
		}
		cur[n] = nv
	}
	// (a name that only met the wildcard above hands down its own limit as it is)
	if s.group {
		for _, n := range l.Groups {
			hand(n)
		}
	} else {
		hand(name)
	}
	return l
}

func cloneBudgets(m map[string]budget) map[string]budget {
	o := map[string]budget{}
	for k, v := range m {
		o[k] = v.clone()
	}
	return o
}

func (g *cgen) ladderQueue(name, path string, level, levels int, subjects []ladderSubject, pu, pg map[string]budget, apps uint64, pEntry float64) *gQueue {
	c := g.c
	q := &gQueue{Name: name}
	g.paths = append(g.paths, path)
	if level == 1 {
		s := "*"
		q.SubmitACL = &s
	}
	if level == 2 && c.chance(0.2) {
		// a queue maximum far above every limit of the ladder: checkLimit compares each limit with it
		q.M = &smap{{"memory", g.qty("memory", 64*1024)}, {"vcore", g.qty("vcore", 64000)}}
	}
	cu, cg := cloneBudgets(pu), cloneBudgets(pg)
	myApps := apps
	if apps != 0 && c.chance(0.5) {
		myApps = 1 + uint64(c.pick(int(apps)))
	}
	i := 0
	for _, s := range subjects {
		if !c.chance(pEntry) {
			continue
		}
		par, cur := pu, cu
		if s.group {
			par, cur = pg, cg
		}
		q.Limits = append(q.Limits, g.ladderEntry(s, fmt.Sprintf("l%d", i), par, cur, myApps))
		i++
	}
	if level < levels {
		names := []string{"parent", "a", "prod", "team:a"}
		nm := names[c.pick(len(names))]
		q.Queues = append(q.Queues, g.ladderQueue(nm, path+"."+nm, level+1, levels, subjects, cu, cg, myApps, pEntry))
		if c.chance(0.35) {
			// a side leaf with its own entry below the same ancestors
			q.Queues = append(q.Queues, g.ladderQueue("side", path+".side", levels, levels, subjects, cu, cg, myApps, 0.9))
			if c.chance(0.5) {
				q.Queues[0], q.Queues[1] = q.Queues[1], q.Queues[0]
			}
		}
		t := true
		if c.chance(0.7) {
			q.Parent = &t
		}
	} else {
		g.leafs = append(g.leafs, path)
	}
	return q
}

func (g *cgen) ladderPartition() *gPart {
	c := g.c
	p := &gPart{HasQueues: true}
	s := "default"
	p.Name = &s
	g.paths, g.leafs = nil, nil
	pool := []ladderSubject{
		{false, []string{"alice"}, "user"}, {true, []string{"dev"}, "group"},
		{false, []string{"*"}, "user-wildcard"}, {true, []string{"*"}, "group-wildcard"},
		{false, []string{"alice", "*"}, "user-mixed"}, {true, []string{"dev", "*"}, "group-mixed"},
	}
	k := c.pick(len(pool))
	subjects := []ladderSubject{pool[k]}
	c.stat("ladder:subject:" + pool[k].kind)
	if c.chance(0.3) {
		// a second subject of the other sort on the same queues (the two maps of the validator are independent)
		if pool[k].group {
			subjects = append(subjects, pool[0])
		} else {
			subjects = append(subjects, pool[1])
		}
	}
	levels := 3 + c.pick(2)
	c.stat(fmt.Sprintf("ladder:levels:%d", levels))
	var apps uint64
	if c.chance(0.25) {
		apps = 4 + uint64(c.pick(8))
	}
	p.Queues = []*gQueue{g.ladderQueue("root", "root", 1, levels, subjects, map[string]budget{}, map[string]budget{}, apps, 0.85)}
	return p
}

func (g *cgen) document() string {
	c := g.c
	g.focus = ""
	if c.chance(0.4) {
		g.focus = []string{"limits", "limits", "resources", "apps", "rules"}[c.pick(5)]
	}
	g.adversarial = c.chance(0.25) || (g.focus == "limits" && c.chance(0.5))
	if c.chance(0.15) {
		g.focus, g.adversarial = "ladder", false
	}
	c.stat("focus:" + g.focus)
	doc := yMap()
	parts := ySeq()
	if g.focus == "ladder" {
		parts.Content = append(parts.Content, yPart(g.ladderPartition()))
	} else {
		parts.Content = append(parts.Content, yPart(g.partition(true)))
	}
	if g.bad(0.06) {
		parts.Content = append(parts.Content, yPart(g.partition(false)))
	}
	yPut(doc, "partitions", parts)
	out, err := yaml.Marshal(doc)
	if err != nil {
		panic(err)
	}
	return string(out)
}

// ---------------------------------------------------------------- canonical dump of a SchedulerConfig (nil and empty kept apart)

func encSMap(m map[string]string) interface{} {
	if m == nil {
		return nil
	}
	keys := make([]string, 0, len(m))
	for k := range m {
		keys = append(keys, k)
	}
	sort.Strings(keys)
	out := make([][]string, 0, len(keys))
	for _, k := range keys {
		out = append(out, []string{k, m[k]})
	}
	return out
}

func encStrs(l []string) interface{} {
	if l == nil {
		return nil
	}
	return append([]string{}, l...)
}

func encLimits(ls []configs.Limit) interface{} {
	if ls == nil {
		return nil
	}
	out := []interface{}{}
	for _, l := range ls {
		out = append(out, map[string]interface{}{"limit": l.Limit, "users": encStrs(l.Users), "groups": encStrs(l.Groups), "maxres": encSMap(l.MaxResources), "maxapps": l.MaxApplications})
	}
	return out
}

func encQueues(qs []configs.QueueConfig) interface{} {
	if qs == nil {
		return nil
	}
	out := []interface{}{}
	for _, q := range qs {
		out = append(out, map[string]interface{}{
			"name": q.Name, "parent": q.Parent, "g": encSMap(q.Resources.Guaranteed), "m": encSMap(q.Resources.Max), "maxapps": q.MaxApplications,
			"props": encSMap(q.Properties), "aacl": q.AdminACL, "sacl": q.SubmitACL,
			"tmpl": map[string]interface{}{"maxapps": q.ChildTemplate.MaxApplications, "props": encSMap(q.ChildTemplate.Properties),
				"g": encSMap(q.ChildTemplate.Resources.Guaranteed), "m": encSMap(q.ChildTemplate.Resources.Max)},
			"queues": encQueues(q.Queues), "limits": encLimits(q.Limits),
		})
	}
	return out
}

// compiles: the outcome of regexp.Compile on the single entry of a filter list (an input of the model: RE2 syntax is not modelled)
func compiles(l []string) bool {
	if len(l) != 1 {
		return true
	}
	_, err := regexp.Compile(l[0])
	return err == nil
}

// a rule is dumped as its chain: the rule itself first, then its parent, the parent's parent, ...
func encRule(r *configs.PlacementRule) interface{} {
	out := []interface{}{}
	for ; r != nil; r = r.Parent {
		out = append(out, map[string]interface{}{"name": r.Name, "create": r.Create, "value": r.Value,
			"ftype": r.Filter.Type, "fusers": encStrs(r.Filter.Users), "fgroups": encStrs(r.Filter.Groups), "ure": compiles(r.Filter.Users), "gre": compiles(r.Filter.Groups)})
	}
	return out
}

func encCfg(conf *configs.SchedulerConfig) interface{} {
	parts := []interface{}{}
	for i := range conf.Partitions {
		p := &conf.Partitions[i]
		rules := []interface{}{}
		for j := range p.PlacementRules {
			rules = append(rules, encRule(&p.PlacementRules[j]))
		}
		keys := []string{}
		for k := range p.NodeSortPolicy.ResourceWeights {
			keys = append(keys, k)
		}
		sort.Strings(keys)
		ws := []interface{}{}
		for _, k := range keys {
			ws = append(ws, []interface{}{k, p.NodeSortPolicy.ResourceWeights[k] < 0})
		}
		parts = append(parts, map[string]interface{}{"name": p.Name, "queues": encQueues(p.Queues), "rules": rules, "limits": encLimits(p.Limits),
			"nsp": p.NodeSortPolicy.Type, "weights": ws})
	}
	return map[string]interface{}{"parts": parts}
}

// ---------------------------------------------------------------- error classes

var valClasses = []struct{ sub, cls string }{
	{"duplicate partition name", "dupPartition"},
	{"queue config is not set", "noQueues"},
	{"root queue must not have resource limits set", "rootResources"},
	{"top queue name is", "topNotRoot"},
	{"partition limits and root queue limits are not equivalent", "partLimits"},
	{"multiple spaces found in ACL", "acl"},
	{"empty user and group lists", "limitEmpty"},
	{"invalid limit user name", "limitUser"},
	{"duplicated user name", "limitDupUser"},
	{"should not set no wildcard user", "limitUserAfterWildcard"},
	{"invalid limit group name", "limitGroup"},
	{"duplicated group name", "limitDupGroup"},
	{"should not set no wildcard group", "limitGroupAfterWildcard"},
	{"should not specify only one group limit that is using the wildcard", "limitOnlyWildcardGroup"},
	{"MaxResources should be greater than zero", "limitZeroRes"},
	{"invalid resource combination for limit", "limitAllNull"},
	{"invalid MaxApplications settings for limit", "limitAppsGtQueue"},
	{"max resource failed", "limitQueueMaxParse"},
	{"invalid MaxResources settings for limit", "limitResGtQueue"},
	{"invalid queue name", "queueName"},
	{"duplicate child name", "dupChild"},
	{"is larger than maximum resource", "gGtMax"},
	{"max resource of parent", "maxGtParent"},
	{"guaranteed resource of parent", "sumGGtParentG"},
	{"is smaller than sum of guaranteed resources", "sumGGtMax"},
	{"invalid rule name", "ruleName"},
	{"invalid rule filter type", "filterType"},
	{"invalid rule filter user list", "filterUsers"},
	{"invalid rule filter group list", "filterGroups"},
	{"illegal fully qualified 'fixed' rule", "fixedQualified"},
	{"which is not a leaf", "ruleNotLeaf"},
	{"and create is 'false'", "ruleNonExisting"},
	{"in the hierarchy is a leaf", "ruleLastLeaf"},
	{"undefined policy", "nodeSortPolicy"},
	{"negative resource weight", "weightNeg"},
	{"parent maxApplications must be larger", "maxAppsGtParent"},
	{"maxApplications is either undefined or zero", "maxAppsZero"},
	{"is greater than immediate or ancestor parent maximum resource", "limResGtParent"},
	{"is greater than wildcard maximum resource", "limResGtWildcard"},
	{"is greater than immediate or ancestor parent max applications", "limAppsGtParent"},
	{"is greater than wildcard max applications", "limAppsGtWildcard"},
	{"invalid quantity", "parse"},
	{"invalid suffix", "parse"},
	{"scheduler config is not set", "nilConfig"},
}

func valClass(msg string) string {
	for _, e := range valClasses {
		if strings.Contains(msg, e.sub) {
			if strings.HasPrefix(e.cls, "lim") && (e.cls == "limResGtParent" || e.cls == "limResGtWildcard" || e.cls == "limAppsGtParent" || e.cls == "limAppsGtWildcard") {
				if strings.HasPrefix(msg, "group ") {
					return "g" + e.cls
				}
				return "u" + e.cls
			}
			return e.cls
		}
	}
	return "other"
}

var loadClasses = []struct{ sub, cls string }{
	{"partition cannot be created without root queue", "root-name"},
	{"multiple spaces found in ACL", "acl"},
	{"unknown rule name specified", "rule-unknown"},
	{"recovery rule cannot be part of the config", "rule-recovery"},
	{"a fixed queue rule must have a queue name set", "fixed-empty"},
	{"invalid queue name", "fixed-queue-name"},
	{"cannot have a fixed queue rule with qualified queue", "fixed-qualified-parent"},
	{"a tag queue rule must have a tag name set", "tag-empty"},
	{"invalid quantity", "parse"},
	{"invalid suffix", "parse"},
	{"cannot add a child queue to a leaf queue", "child-of-leaf"},
}

func loadClass(msg string) string {
	for _, e := range loadClasses {
		if strings.Contains(msg, e.sub) {
			return e.cls
		}
	}
	return "other"
}

// ---------------------------------------------------------------- running one document against the real code

type valResult struct {
	accept bool
	cls    string
	err    string
	norm   string // JSON of the validated tree
	pnc    string
}

func validateReal(text string) (res valResult, conf *configs.SchedulerConfig) {
	defer func() {
		if r := recover(); r != nil {
			res = valResult{pnc: fmt.Sprint(r)}
			conf = nil
		}
	}()
	conf, err := configs.LoadSchedulerConfigFromByteArray([]byte(text))
	if err != nil {
		return valResult{accept: false, cls: valClass(err.Error()), err: err.Error()}, nil
	}
	return valResult{accept: true, norm: string(mustJSON(encCfg(conf)))}, conf
}

func jsonRaw(s string) json.RawMessage { return json.RawMessage(s) }

func mustJSON(v interface{}) []byte {
	var b bytes.Buffer
	e := json.NewEncoder(&b)
	e.SetEscapeHTML(false)
	if err := e.Encode(v); err != nil {
		panic(err)
	}
	return bytes.TrimRight(b.Bytes(), "\n")
}

// timed runs f; reports a recovered panic or a call that does not return
func timed(f func() error) (err error, pnc string, hang bool) {
	type out struct {
		err error
		pnc string
	}
	ch := make(chan out, 1)
	go func() {
		defer func() {
			if r := recover(); r != nil {
				ch <- out{pnc: fmt.Sprint(r)}
			}
		}()
		ch <- out{err: f()}
	}()
	select {
	case o := <-ch:
		return o.err, o.pnc, false
	case <-time.After(10 * time.Second):
		return nil, "", true
	}
}

func resetUgm() {
	um := ugm.GetUserManager()
	um.ClearUserTrackers()
	um.ClearGroupTrackers()
	um.ClearConfigLimits()
}

type confApp struct {
	ID, User, Queue string
	Groups          []string
	Tags            map[string]string
}

func callResult(err error, pnc string, hang bool, cls func(string) string) map[string]interface{} {
	switch {
	case hang:
		return map[string]interface{}{"res": "hang"}
	case pnc != "":
		return map[string]interface{}{"res": "panic", "err": pnc}
	case err != nil:
		return map[string]interface{}{"res": "err", "cls": cls(err.Error()), "err": err.Error()}
	}
	return map[string]interface{}{"res": "ok"}
}

func placeClass(msg string) string {
	switch {
	case strings.Contains(msg, "no placement rule matched"):
		return "rejected"
	case strings.Contains(msg, "failed to create rule based queue"):
		return "create-failed"
	case strings.Contains(msg, "failed to find queue"):
		return "not-leaf"
	case strings.Contains(msg, "parent rule returned a leaf queue"):
		return "parent-leaf"
	case strings.Contains(msg, "invalid queue name"):
		return "queue-name"
	}
	return "other"
}

// firstLeaf: path (lower case) of the first queue without children in the default partition, pre-order
func firstLeaf(conf *configs.SchedulerConfig) string {
	var walk func(qs []configs.QueueConfig, prefix string) string
	walk = func(qs []configs.QueueConfig, prefix string) string {
		for _, q := range qs {
			p := prefix + strings.ToLower(q.Name)
			if len(q.Queues) == 0 {
				return p
			}
			if r := walk(q.Queues, p+"."); r != "" {
				return r
			}
		}
		return ""
	}
	for _, p := range conf.Partitions {
		if p.Name == "default" {
			return walk(p.Queues, "")
		}
	}
	return ""
}

func runConfCase(c *Ctx, text string, sseed int64, k int) {
	line := map[string]interface{}{"c": "conf", "op": "validate", "yaml": text, "sseed": sseed, "k": k}
	// 1. the tree Validate gets
	pre := &configs.SchedulerConfig{}
	dec := yaml.NewDecoder(bytes.NewReader([]byte(text)))
	dec.KnownFields(true)
	if err := dec.Decode(pre); err != nil && !errors.Is(err, io.EOF) {
		line["decodeErr"] = err.Error()
		res, _ := validateReal(text)
		line["impl"] = map[string]interface{}{"accept": res.accept}
		c.stat("decode-error")
		c.emit(line)
		return
	}
	line["cfg"] = encCfg(pre)
	// 2. the real validation
	res, conf := validateReal(text)
	impl := map[string]interface{}{"accept": res.accept, "cls": res.cls, "err": res.err}
	if res.pnc != "" {
		line["panic"] = "validate: " + res.pnc
	}
	if res.accept {
		impl["norm"] = jsonRaw(res.norm)
		c.stat("accept")
	} else {
		c.stat("reject:" + res.cls)
	}
	// 3. the same document under re-ordered mappings (and Go's map iteration order, which differs from call to call)
	agree := true
	detail := ""
	msgVaries := false
	for i := 0; i < k; i++ {
		t := text
		if i > 0 {
			var err error
			t, err = shuffleDoc(text, sseed+int64(i))
			if err != nil {
				agree, detail = false, "shuffle: "+err.Error()
				break
			}
		}
		r, _ := validateReal(t)
		if r.err != res.err && r.cls == res.cls {
			// same class, another message: the first offending entry of a map walk differs (an observation, not a failure)
			msgVaries = true
		}
		if r.accept != res.accept || r.cls != res.cls || r.norm != res.norm || r.pnc != res.pnc {
			agree = false
			detail = fmt.Sprintf("order %d: accept=%v cls=%s err=%q", i, r.accept, r.cls, r.err)
			break
		}
	}
	impl["orders"] = map[string]interface{}{"n": k, "agree": agree, "detail": detail, "msgVaries": msgVaries}
	if msgVaries {
		c.stat("orders:message-varies")
	}
	// 4. loading what was accepted
	if res.accept && conf != nil {
		var cc *scheduler.ClusterContext
		resetUgm()
		err, pnc, hang := timed(func() error {
			var e error
			cc, e = scheduler.NewClusterContext(confRM, "policygroup", []byte(text))
			return e
		})
		load := callResult(err, pnc, hang, loadClass)
		if pnc != "" {
			line["panic"] = "NewClusterContext: " + pnc
		}
		c.stat("load:" + fmt.Sprint(load["res"], ":", load["cls"]))
		if cc != nil && err == nil && pnc == "" && !hang {
			part := cc.GetPartition("[" + confRM + "]default")
			if part != nil {
				load["rules"] = len(part.GetPlacementRules())
				apps := []confApp{
					{ID: "app-1", User: "alice", Groups: []string{"dev"}, Queue: "", Tags: map[string]string{"namespace": "ns1"}},
					{ID: "app-2", User: "bob", Groups: []string{"ops"}, Queue: firstLeaf(conf), Tags: map[string]string{}},
				}
				placed := []interface{}{}
				for _, a := range apps {
					a := a
					var app *objects.Application
					err, pnc, hang := timed(func() error {
						app = objects.NewApplication(&si.AddApplicationRequest{ApplicationID: a.ID, QueueName: a.Queue, PartitionName: part.Name,
							Ugi: &si.UserGroupInformation{User: a.User, Groups: a.Groups}, Tags: a.Tags},
							security.UserGroup{User: a.User, Groups: a.Groups}, nil, confRM)
						return part.AddApplication(app)
					})
					r := callResult(err, pnc, hang, placeClass)
					r["id"], r["user"], r["groups"], r["queue"], r["tags"] = a.ID, a.User, a.Groups, a.Queue, a.Tags
					if r["res"] == "ok" {
						r["placed"] = app.GetQueuePath()
					}
					if pnc != "" {
						line["panic"] = "AddApplication: " + pnc
					}
					c.stat("place:" + fmt.Sprint(r["res"], ":", r["cls"]))
					placed = append(placed, r)
				}
				impl["place"] = placed
			}
			cc.VerifStopPartitionManagers()
		}
		impl["load"] = load
		// reload into a running context; a document that drops the partition of the running context is not loaded: removing a
		// partition deadlocks (partitionManager.Stop under the context lock — finding F13, properties C14/C16)
		hasDefault := false
		for _, p := range conf.Partitions {
			if p.Name == "default" {
				hasDefault = true
			}
		}
		if !hasDefault {
			impl["reload"] = map[string]interface{}{"res": "skipped"}
			c.stat("reload:skipped")
			line["impl"] = impl
			c.emit(line)
			return
		}
		resetUgm()
		base, err0 := scheduler.NewClusterContext(confRM, "policygroup", []byte(confBase))
		if err0 != nil {
			panic("base configuration does not load: " + err0.Error())
		}
		err, pnc, hang = timed(func() error { return base.UpdateRMSchedulerConfig(confRM, []byte(text)) })
		reload := callResult(err, pnc, hang, loadClass)
		if pnc != "" {
			line["panic"] = "UpdateRMSchedulerConfig: " + pnc
		}
		if !hang {
			base.VerifStopPartitionManagers()
		}
		c.stat("reload:" + fmt.Sprint(reload["res"], ":", reload["cls"]))
		impl["reload"] = reload
	}
	line["impl"] = impl
	c.emit(line)
}

// malform damages a document so that the strict decoder refuses it (or reads something else): the decoding glue is only
// watched for panics, the model is not consulted for documents that do not decode
func malform(c *Ctx, text string) string {
	lines := strings.Split(text, "\n")
	i := c.pick(len(lines))
	switch c.pick(7) {
	case 0:
		lines[i] = lines[i] + "\n" + strings.Repeat(" ", len(lines[i])-len(strings.TrimLeft(lines[i], " "))) + "bogusfield: 1"
	case 1:
		text = strings.Replace(text, "maxapplications: ", "maxapplications: -", 1)
		return text
	case 2:
		text = strings.Replace(text, "parent: true", "parent: maybe", 1)
		return text
	case 3:
		lines[i] = "\t" + lines[i]
	case 4:
		lines[i] = lines[i] + ": : :"
	case 5:
		if i+1 < len(lines) {
			lines[i+1] = lines[i] // duplicate line (often a duplicate key)
		}
	case 6:
		return text[:c.pick(len(text)+1)]
	}
	return strings.Join(lines, "\n")
}

func runConf(c *Ctx) {
	k := 4
	if c.tier == "thorough" {
		k = 8
	}
	if replayFile != "" {
		for _, op := range readReplay(replayFile) {
			kk := k
			if v, ok := op["k"]; ok {
				kk = int(jsonInt(v))
			}
			runConfCase(c, jsonStr(op["yaml"]), jsonInt(op["sseed"]), kk)
		}
		return
	}
	g := &cgen{c: c}
	for i := 0; i < c.n; i++ {
		text := g.document()
		if c.chance(0.02) {
			text = malform(c, text)
		}
		acc := c.stats["accept"]
		runConfCase(c, text, c.rng.Int63n(1<<40), k)
		if g.focus == "ladder" {
			// verdict of the real validator on the ladder documents
			if c.stats["accept"] > acc {
				c.stat("ladder:accept")
			} else {
				c.stat("ladder:reject")
			}
		}
	}
}
