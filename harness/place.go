package main

// Placement harness (C17): a real ClusterContext is created from a generated configuration (queue tree with ACLs and
// child templates, placement rule chain); applications are submitted through the real handler
// (handleRMUpdateApplicationEvent -> convertUGI -> PartitionContext.AddApplication -> PlaceApplication / createQueue).
// Every line carries the input, the answer the RM would get, the queue of the application and the whole queue tree.
// Regular expressions of filters are opaque for the model: the line reports pattern x name -> matched.

import (
	"fmt"
	"regexp"
	"sort"
	"strings"

	"go.yaml.in/yaml/v3"

	"github.com/apache/yunikorn-core/pkg/common/configs"
	"github.com/apache/yunikorn-core/pkg/common/security"
	"github.com/apache/yunikorn-core/pkg/scheduler"
	"github.com/apache/yunikorn-core/pkg/scheduler/ugm"
	"github.com/apache/yunikorn-core/pkg/webservice/dao"
	"github.com/apache/yunikorn-scheduler-interface/lib/go/si"
)

func init() { components["place"] = runPlace }

type placeDrv struct {
	c        *Ctx
	cc       *scheduler.ClusterContext
	part     *scheduler.PartitionContext
	h        *shimHandler
	acls     map[string][2]string // lower-cased path -> submit, admin ACL text of the configuration
	patterns []string             // filter entries that are regular expressions
	rootConf configs.QueueConfig  // queue configuration of the current partition
	seq      int
}

// ---------------------------------------------------------------- configuration from the protocol value

func pcQueue(m map[string]interface{}, path string, acls map[string][2]string) configs.QueueConfig {
	q := configs.QueueConfig{Name: jsonStr(m["name"]), Parent: jsonBool(m["parent"]), SubmitACL: jsonStr(m["sacl"]), AdminACL: jsonStr(m["aacl"])}
	p := strings.ToLower(q.Name)
	if path != "" {
		p = path + "." + p
	}
	acls[p] = [2]string{q.SubmitACL, q.AdminACL}
	if t, ok := m["tpl"].(map[string]interface{}); ok {
		q.ChildTemplate = configs.ChildTemplate{MaxApplications: uint64(jsonInt(t["apps"])), Properties: strMap2(t["props"]),
			Resources: configs.Resources{Max: strMap2(t["max"]), Guaranteed: strMap2(t["guar"])}}
	}
	if qs, ok := m["queues"].([]interface{}); ok {
		for _, e := range qs {
			q.Queues = append(q.Queues, pcQueue(e.(map[string]interface{}), p, acls))
		}
	}
	return q
}

func strMap2(v interface{}) map[string]string {
	m, ok := v.(map[string]interface{})
	if !ok || len(m) == 0 {
		return nil
	}
	out := map[string]string{}
	for k, x := range m {
		out[k] = fmt.Sprint(x)
	}
	return out
}

func strList(v interface{}) []string {
	l, ok := v.([]interface{})
	if !ok {
		return nil
	}
	out := []string{}
	for _, e := range l {
		out = append(out, jsonStr(e))
	}
	return out
}

func pcRule(m map[string]interface{}, pats map[string]bool) configs.PlacementRule {
	r := configs.PlacementRule{Name: jsonStr(m["name"]), Create: jsonBool(m["create"]), Value: jsonStr(m["value"])}
	if f, ok := m["filter"].(map[string]interface{}); ok {
		r.Filter = configs.Filter{Type: jsonStr(f["type"]), Users: strList(f["users"]), Groups: strList(f["groups"])}
		if len(r.Filter.Users) == 1 && configs.SpecialRegExp.MatchString(r.Filter.Users[0]) {
			pats[r.Filter.Users[0]] = true
		}
		if len(r.Filter.Groups) == 1 && configs.SpecialRegExp.MatchString(r.Filter.Groups[0]) {
			pats[r.Filter.Groups[0]] = true
		}
	}
	if p, ok := m["parent"].(map[string]interface{}); ok {
		pr := pcRule(p, pats)
		r.Parent = &pr
	}
	return r
}

// ---------------------------------------------------------------- dump

func canonMap(m map[string]string) string {
	keys := []string{}
	for k := range m {
		keys = append(keys, k)
	}
	sort.Strings(keys)
	out := []string{}
	for _, k := range keys {
		out = append(out, k+"="+m[k])
	}
	return strings.Join(out, ",")
}

func canonRes(m map[string]int64) string {
	keys := []string{}
	for k := range m {
		keys = append(keys, k)
	}
	sort.Strings(keys)
	out := []string{}
	for _, k := range keys {
		out = append(out, fmt.Sprintf("%s:%d", k, m[k]))
	}
	return strings.Join(out, ",")
}

// canonical text of template-controlled settings; "" when nothing is set
func canonSettings(apps uint64, maxR, guar map[string]int64, props map[string]string) string {
	if apps == 0 && len(maxR) == 0 && len(guar) == 0 && len(props) == 0 {
		return ""
	}
	return fmt.Sprintf("apps=%d;max=%s;guar=%s;props=%s", apps, canonRes(maxR), canonRes(guar), canonMap(props))
}

func (d *placeDrv) dumpQueue(q dao.PartitionQueueDAOInfo, out *[]map[string]interface{}) {
	tpl := ""
	if t := q.TemplateInfo; t != nil {
		tpl = canonSettings(t.MaxApplications, t.MaxResource, t.GuaranteedResource, t.Properties)
		if tpl == "" {
			tpl = "empty-template"
		}
	}
	a := d.acls[q.QueueName]
	if !q.IsManaged {
		a = [2]string{"", ""}
	}
	line := map[string]interface{}{"p": q.QueueName, "leaf": q.IsLeaf, "man": q.IsManaged, "drain": q.Status == "Draining", "status": q.Status,
		"sacl": a[0], "aacl": a[1], "tpl": tpl, "cfg": canonSettings(q.MaxRunningApps, q.MaxResource, q.GuaranteedResource, q.Properties)}
	// the properties of the child template and the EFFECTIVE settings UpdateQueueProperties derived for the queue
	tprops := [][]string{}
	if t := q.TemplateInfo; t != nil {
		tprops = pairs(t.Properties)
	}
	line["tprops"] = tprops
	preempt := "default"
	if !q.PreemptionEnabled {
		preempt = "disabled"
	} else if q.IsPreemptionFence {
		preempt = "fence"
	}
	set := map[string]interface{}{"sort": q.SortingPolicy, "prioSort": q.PrioritySorting, "prioOffset": q.PriorityOffset, "prioFence": q.IsPriorityFence,
		"preempt": preempt, "preemptDelay": durNs(q.PreemptionDelay), "quotaDelay": durNs(q.QuotaPreemptionDelay), "backoff": 0, "backoffDelay": 0}
	if qq := d.part.GetQueue(q.QueueName); qq != nil {
		set["backoff"] = qq.GetMaxAppUnschedAskBackoff()
		set["backoffDelay"] = int64(qq.GetBackoffDelay())
	}
	line["set"] = set
	*out = append(*out, line)
	for _, ch := range q.Children {
		d.dumpQueue(ch, out)
	}
}

func (d *placeDrv) dump() []map[string]interface{} {
	out := []map[string]interface{}{}
	if d.part == nil {
		return out
	}
	d.dumpQueue(d.part.GetPartitionQueues(), &out)
	sort.Slice(out, func(i, j int) bool { return out[i]["p"].(string) < out[j]["p"].(string) })
	return out
}

// ---------------------------------------------------------------- operations

func (d *placeDrv) apply(op map[string]interface{}) {
	op = norm(op)
	c := d.c
	line := map[string]interface{}{"c": "place"}
	for k, v := range op {
		line[k] = v
	}
	name := jsonStr(op["op"])
	c.stat("op:" + name)
	func() {
		defer func() {
			if r := recover(); r != nil {
				line["panic"] = fmt.Sprint(r)
				c.stat("panic")
			}
		}()
		d.exec(name, op, line)
	}()
	if name != "acl" {
		line["st"] = d.dump()
	}
	c.emit(line)
}

func (d *placeDrv) exec(name string, op map[string]interface{}, line map[string]interface{}) {
	switch name {
	case "reset":
		if d.cc != nil {
			d.cc.Stop()
		}
		d.cc, d.part = nil, nil
		d.acls = map[string][2]string{}
		pats := map[string]bool{}
		root := pcQueue(op["queues"].(map[string]interface{}), "", d.acls)
		var rules []configs.PlacementRule
		if rl, ok := op["rules"].([]interface{}); ok {
			for _, e := range rl {
				rules = append(rules, pcRule(e.(map[string]interface{}), pats))
			}
		}
		d.patterns = nil
		for p := range pats {
			d.patterns = append(d.patterns, p)
		}
		sort.Strings(d.patterns)
		rxc := [][]interface{}{}
		for _, p := range d.patterns {
			_, err := regexp.Compile(p)
			rxc = append(rxc, []interface{}{p, err == nil})
		}
		line["rxc"] = rxc
		conf := configs.SchedulerConfig{Partitions: []configs.PartitionConfig{{Name: "default", Queues: []configs.QueueConfig{root}, PlacementRules: rules}}}
		y, err := yaml.Marshal(&conf)
		if err != nil {
			line["error"] = "yaml: " + err.Error()
			return
		}
		line["config"] = string(y)
		um := ugm.GetUserManager()
		um.ClearUserTrackers()
		um.ClearGroupTrackers()
		um.ClearConfigLimits()
		cc, err := scheduler.NewClusterContext(coreRM, "policygroup", y)
		if err != nil {
			line["error"] = err.Error()
			c := d.c
			c.stat("config-rejected")
			return
		}
		d.h = &shimHandler{}
		cc.VerifSetEventHandler(d.h)
		d.cc = cc
		d.rootConf = root
		d.part = cc.GetPartition(corePart)
		if d.part == nil {
			line["error"] = "partition not found"
			d.cc = nil
		}
	case "rules":
		// configuration reload with the same queues and a new rule list (ClusterContext.UpdateRMSchedulerConfig ->
		// updatePartitionDetails -> AppPlacementManager.UpdateRules)
		if d.part == nil {
			return
		}
		pats := map[string]bool{}
		for _, p := range d.patterns {
			pats[p] = true
		}
		var rules []configs.PlacementRule
		if rl, ok := op["rules"].([]interface{}); ok {
			for _, e := range rl {
				rules = append(rules, pcRule(e.(map[string]interface{}), pats))
			}
		}
		conf := configs.SchedulerConfig{Partitions: []configs.PartitionConfig{{Name: "default", Queues: []configs.QueueConfig{d.rootConf}, PlacementRules: rules}}}
		y, err := yaml.Marshal(&conf)
		if err != nil {
			line["error"] = "yaml: " + err.Error()
			return
		}
		if err = d.cc.UpdateRMSchedulerConfig(coreRM, y); err != nil {
			line["error"] = err.Error()
			d.c.stat("reload-rejected")
			return
		}
		d.patterns = nil
		for p := range pats {
			d.patterns = append(d.patterns, p)
		}
		sort.Strings(d.patterns)
		rxc := [][]interface{}{}
		for _, p := range d.patterns {
			_, err := regexp.Compile(p)
			rxc = append(rxc, []interface{}{p, err == nil})
		}
		line["rxc"] = rxc
	case "drain":
		if d.part == nil {
			return
		}
		if q := d.part.GetQueue(jsonStr(op["q"])); q != nil {
			q.MarkQueueForRemoval()
		}
	case "acl":
		acl, err := security.NewACL(jsonStr(op["acl"]), true)
		line["err"] = err != nil
		line["out"] = false
		if err == nil {
			line["out"] = acl.CheckAccess(security.UserGroup{User: jsonStr(op["user"]), Groups: strList(op["groups"])})
		}
	case "submit":
		if d.part == nil {
			line["skip"] = true
			return
		}
		user, groups := jsonStr(op["user"]), strList(op["groups"])
		// oracle for the regular expressions of the filters
		rx := [][]interface{}{}
		for _, p := range d.patterns {
			re, err := regexp.Compile(p)
			if err != nil {
				continue
			}
			for _, n := range append([]string{user}, groups...) {
				rx = append(rx, []interface{}{p, n, re.MatchString(n)})
			}
		}
		line["rx"] = rx
		// the real recursive ACL answer of every queue for this user, before the submission
		acc := [][]interface{}{}
		ug := security.UserGroup{User: user, Groups: groups}
		for _, q := range d.dump() {
			p := q["p"].(string)
			if qq := d.part.GetQueue(p); qq != nil {
				acc = append(acc, []interface{}{p, qq.CheckSubmitAccess(ug)})
			}
		}
		line["acc"] = acc
		id := jsonStr(op["id"])
		req := &si.AddApplicationRequest{ApplicationID: id, QueueName: jsonStr(op["queue"]), PartitionName: corePart,
			Ugi: &si.UserGroupInformation{User: user, Groups: groups}, Tags: strMap(op["tags"])}
		out := map[string]interface{}{"acc": false, "reason": "", "queue": ""}
		line["out"] = out
		d.h.take()
		d.cc.VerifHandleApps(&si.ApplicationRequest{RmID: coreRM, New: []*si.AddApplicationRequest{req}})
		answered := false
		for _, m := range d.h.take() {
			if m["app"] != id {
				continue
			}
			switch m["t"] {
			case "app-accepted":
				out["acc"] = true
				answered = true
			case "app-rejected":
				out["reason"] = m["reason"]
				answered = true
			}
		}
		out["answered"] = answered
		if app := d.part.GetApplication(id); app != nil {
			out["queue"] = app.GetQueuePath()
			out["inPartition"] = true
			if q := app.GetQueue(); q != nil {
				out["queueObj"] = q.GetQueuePath()
			}
		}
		if jsonBool(out["acc"]) {
			d.c.stat("accepted")
		} else {
			d.c.stat("rejected")
		}
	}
}

// ---------------------------------------------------------------- generator

var (
	plUsers      = []string{"alice", "bob", "carol", "dave.x", "Eve", "bob$", "u_1", "dev", "a-b@c", "x:y"}
	plGroups     = []string{"dev", "ops", "admin", "g.x", "grp1", "Dev", "alice"}
	plQueueNames = []string{"a", "b", "c", "dev", "default", "Prod", "ops", "p", "leaf", "users", "alice", "bob", "x_dot_y", "ns1"}
	plACLs       = []string{"", "", "*", "*", "alice", "alice,bob", " dev", "alice dev", "bob ops,admin", "* ", " *", "carol,dave.x grp1", "Eve", "al!ce,bob", " ", "u_1,bob$ g.x,ops",
		"dev", "alice,,bob ", "* dev", "alice *", "a-b@c,x:y", "*\t", "alice\tdev", "\talice dev", "Alice", "alice ops,\u00e4"}
	plPatterns      = []string{"^a.*", "bob|carol", ".*", "^[a-c]", "e$", "^(dev|ops)$", "x+", "[A-Z]", "bob$"}
	plGroupPatterns = []string{"^d.*", "ops|admin", ".*", "^g", "1$", "[A-Z]", "^(dev)$"}
	plTagValues     = []string{"dev", "ns1", "root.a", "Root.b", "a.b", "bad name", "", "p", "root.p.t1", "default", "root.@recovery@", "ops", "NS1"}
)

func (c *Ctx) one(l []string) string { return l[c.pick(len(l))] }

func (c *Ctx) some(l []string, max int) []string {
	n := c.pick(max + 1)
	out := []string{}
	for i := 0; i < n; i++ {
		out = append(out, c.one(l))
	}
	return out
}

type genTree struct {
	leaves  []string // full paths as configured (original case)
	parents []string
	all     []string
}

func (c *Ctx) genQueue(name, path string, depth int, t *genTree) map[string]interface{} {
	m := map[string]interface{}{"name": name, "sacl": c.one(plACLs), "aacl": ""}
	if c.chance(0.3) {
		m["aacl"] = c.one(plACLs)
	}
	p := name
	if path != "" {
		p = path + "." + name
	}
	t.all = append(t.all, p)
	nch := 0
	if depth == 0 {
		nch = 1 + c.pick(4)
	} else if depth < 3 && c.chance(0.45) {
		nch = 1 + c.pick(3)
	}
	if nch > 0 || c.chance(0.25) {
		m["parent"] = true
		t.parents = append(t.parents, p)
		if c.chance(0.4) {
			tpl := map[string]interface{}{"apps": 1 + c.pick(5)}
			if c.chance(0.5) {
				// behaviour properties: what UpdateQueueProperties converts into effective settings of the created leaf
				props := map[string]interface{}{}
				for n := 1 + c.pick(4); n > 0; n-- {
					k := c.one(rlPropKeys)
					props[k] = c.one(rlPropVals[k])
				}
				tpl["props"] = props
			}
			if c.chance(0.5) {
				mx := map[string]interface{}{"memory": fmt.Sprint(10 + c.pick(90))}
				if c.chance(0.35) {
					mx["vcore"] = "0" // an explicit limit of zero is not the same as a type the maximum omits
				}
				tpl["max"] = mx
			}
			if c.chance(0.3) {
				tpl["guar"] = map[string]interface{}{"memory": fmt.Sprint(1 + c.pick(9))}
			}
			m["tpl"] = tpl
		}
	} else {
		t.leaves = append(t.leaves, p)
	}
	used := map[string]bool{}
	qs := []interface{}{}
	for i := 0; i < nch; i++ {
		n := c.one(plQueueNames)
		if used[strings.ToLower(n)] {
			continue
		}
		used[strings.ToLower(n)] = true
		qs = append(qs, c.genQueue(n, p, depth+1, t))
	}
	if len(qs) > 0 {
		m["queues"] = qs
	}
	return m
}

func (c *Ctx) genFilter() map[string]interface{} {
	f := map[string]interface{}{"type": c.one([]string{"", "allow", "allow", "deny", "deny", "deny"})}
	if c.chance(0.06) {
		f["type"] = c.one([]string{"Deny", "DENY", "Allow"})
	}
	switch c.pick(6) {
	case 0:
		f["users"] = []string{c.one(plPatterns)}
	case 1:
		f["users"] = c.some(plUsers, 3)
	case 2:
		f["users"] = []string{c.one(plUsers)}
	case 3:
		f["users"] = c.mixedList(plUsers, plJunkUsers)
	}
	switch c.pick(7) {
	case 0:
		f["groups"] = []string{c.one(plGroupPatterns)}
	case 1:
		f["groups"] = c.some(plGroups, 3)
	case 2:
		f["groups"] = []string{c.one(plGroups)}
	case 3:
		f["groups"] = c.mixedList(plGroups, plJunkGroups)
	}
	if c.chance(0.12) {
		// only lists without a usable entry: the filter is not empty and matches nobody
		delete(f, "users")
		delete(f, "groups")
		if c.chance(0.6) {
			f["users"] = c.junkList(plJunkUsers)
		}
		if f["users"] == nil || c.chance(0.3) {
			f["groups"] = c.junkList(plJunkGroups)
		}
	}
	return f
}

// entries newFilter cannot use in a list of two or more: invalid characters, regexp-looking, empty, leading digit
var (
	plJunkUsers  = []string{"al*", "bo*", "", "1abc", "a b", "bob!", "^a.*", "caro|", "-x", "bob$$"}
	plJunkGroups = []string{"dev@corp", "ops@corp", "gr*", "", "9g", "a/b", "bob$", "d v", "#g", "^d.*"}
)

// junkList: two to four entries, none a usable name
func (c *Ctx) junkList(junk []string) []string {
	out := []string{}
	for n := 2 + c.pick(3); n > 0; n-- {
		out = append(out, c.one(junk))
	}
	return out
}

// mixedList: two to four entries of which none / some / all are usable names
func (c *Ctx) mixedList(good, junk []string) []string {
	mode := c.pick(3)
	out := []string{}
	for n := 2 + c.pick(3); n > 0; n-- {
		switch {
		case mode == 0 || (mode == 1 && c.chance(0.5)):
			out = append(out, c.one(junk))
		default:
			out = append(out, c.one(good))
		}
	}
	return out
}

func stripRoot(p string) string { return strings.TrimPrefix(p, "root.") }

func (c *Ctx) genRule(t *genTree, asParent bool, depth int) map[string]interface{} {
	kinds := []string{"provided", "user", "tag", "fixed", "fixed", "user", "provided", "tag"}
	if asParent {
		kinds = []string{"fixed", "fixed", "fixed", "tag", "user", "provided"}
	}
	r := map[string]interface{}{"name": c.one(kinds), "create": c.chance(0.55)}
	if c.chance(0.08) {
		r["name"] = strings.ToUpper(jsonStr(r["name"])[:1]) + jsonStr(r["name"])[1:]
	}
	if c.chance(0.35) {
		r["filter"] = c.genFilter()
	}
	hasParent := false
	switch strings.ToLower(jsonStr(r["name"])) {
	case "tag":
		r["value"] = c.one([]string{"namespace", "namespace", "Namespace", "team"})
	case "fixed":
		var v string
		switch p := c.pick(100); {
		case asParent && p < 60 && len(t.parents) > 0:
			v = c.one(t.parents)
			if c.chance(0.5) && v != "root" {
				v = stripRoot(v)
			}
		case !asParent && p < 45 && len(t.leaves) > 0:
			v = c.one(t.leaves)
			if c.chance(0.3) {
				v = stripRoot(v)
			}
		case p < 70:
			v = c.one([]string{"newq", "dyn.sub", "root.newq", "root.p.dyn", "Mixed", "root.users.fixed"})
			r["create"] = true
		case p < 74:
			v = c.one([]string{"rooty", "rootq.x", "root"})
			r["create"] = true
		case p < 78:
			v = c.one([]string{"root.@recovery@", "@recovery@", "root.p.@recovery@"})
			r["create"] = true
		case p < 80:
			// refused by fixedRule.initialise only: the placement manager stays without rules
			v = c.one([]string{"bad name", "a..b", "new$"})
			r["create"] = true
		default:
			v = c.one(plQueueNames)
		}
		r["value"] = v
		if lv := strings.ToLower(v); lv == "root" || strings.HasPrefix(lv, "root.") {
			hasParent = true // a qualified fixed rule cannot have a parent
		}
	}
	if !hasParent && depth < 2 && c.chance(0.4) {
		r["parent"] = c.genRule(t, true, depth+1)
	}
	return r
}

func longName(n int) string { return strings.Repeat("q", n) }

func (c *Ctx) genQueueName(t *genTree) string {
	switch p := c.pick(100); {
	case p < 8:
		return ""
	case p < 28 && len(t.leaves) > 0:
		v := c.one(t.leaves)
		if c.chance(0.15) {
			v = strings.ToUpper(v[:6]) + v[6:]
		} else if c.chance(0.15) {
			v = v[:5] + strings.ToUpper(v[5:])
		}
		return v
	case p < 36 && len(t.parents) > 0:
		return c.one(t.parents)
	case p < 46 && len(t.all) > 1:
		return stripRoot(c.one(t.all[1:]))
	case p < 58 && len(t.all) > 0:
		return c.one(t.all) + "." + c.one([]string{"new1", "New2", "x.y", "n1.n2", "@recovery@", "bad name", longName(64), longName(65)})
	case p < 66:
		return c.one([]string{"root.@recovery@", "root.@RECOVERY@", "root.@Recovery@", "@recovery@", "root.p.@recovery@", "root.@RECOVERY@.sub", "root.@Recovery@.a.b"})
	case p < 76:
		return c.one([]string{"root..a", "root.", "root", "rootx", "a.b", ".", "root.a b", "root.a$", "root.default", "default", "ROOT.a", "Root.b", longName(64), longName(65), "a..b", "root.\u00e4b", "root.a.", ".root", "root.a/b:c#d", "root.A_dot_B"})
	default:
		return c.one(plQueueNames)
	}
}

func (c *Ctx) genSubmit(d *placeDrv, t *genTree) map[string]interface{} {
	d.seq++
	groups := c.some(plGroups, 3)
	if len(groups) == 0 {
		groups = []string{c.one(plGroups)}
	}
	op := map[string]interface{}{"op": "submit", "id": fmt.Sprintf("app-%d", d.seq), "user": c.one(plUsers), "groups": groups, "queue": c.genQueueName(t)}
	tags := map[string]interface{}{}
	if c.chance(0.5) {
		tags[c.one([]string{"namespace", "NameSpace"})] = c.one(plTagValues)
	}
	if c.chance(0.15) {
		tags["team"] = c.one(plTagValues)
	}
	if c.chance(0.2) {
		tags[c.one([]string{"application.create.force", "Application.Create.Force"})] = c.one([]string{"true", "true", "1", "T", "false", "yes", "True"})
	}
	op["tags"] = tags
	return op
}

func runPlace(c *Ctx) {
	d := &placeDrv{c: c}
	if replayFile != "" {
		for _, in := range readReplay(replayFile) {
			op := map[string]interface{}{}
			for _, k := range []string{"op", "queues", "rules", "q", "acl", "id", "user", "groups", "queue", "tags"} {
				if v, ok := in[k]; ok {
					op[k] = v
				}
			}
			d.apply(op)
		}
		if d.cc != nil {
			d.cc.Stop()
		}
		return
	}
	for it := 0; it < c.n; it++ {
		t := &genTree{}
		root := c.genQueue("root", "", 0, t)
		if c.chance(0.6) {
			root["sacl"] = c.one([]string{"", "*", "*", "*", "alice", " dev"})
		}
		if c.chance(0.04) {
			// a configured queue with the name of the recovery queue
			rq := map[string]interface{}{"name": c.one([]string{"@recovery@", "@Recovery@"}), "sacl": c.one(plACLs), "aacl": ""}
			if c.chance(0.3) {
				rq["parent"] = true
			}
			qs, _ := root["queues"].([]interface{})
			root["queues"] = append(qs, rq)
			t.all = append(t.all, "root.@recovery@")
		}
		rules := []interface{}{}
		nr := c.pick(5)
		for i := 0; i < nr; i++ {
			rules = append(rules, c.genRule(t, false, 0))
		}
		d.apply(map[string]interface{}{"op": "reset", "queues": root, "rules": rules})
		if d.part == nil {
			continue
		}
		nops := 6 + c.pick(14)
		for j := 0; j < nops; j++ {
			switch p := c.pick(100); {
			case p < 6 && len(t.all) > 1:
				d.apply(map[string]interface{}{"op": "drain", "q": strings.ToLower(c.one(t.all[1:]))})
			case p < 10:
				rules := []interface{}{}
				nr := c.pick(4)
				for i := 0; i < nr; i++ {
					rules = append(rules, c.genRule(t, false, 0))
				}
				d.apply(map[string]interface{}{"op": "rules", "rules": rules})
			case p < 15:
				groups := c.some(plGroups, 2)
				d.apply(map[string]interface{}{"op": "acl", "acl": c.one(plACLs), "user": c.one(plUsers), "groups": groups})
			default:
				d.apply(c.genSubmit(d, t))
			}
		}
	}
	if d.cc != nil {
		d.cc.Stop()
	}
}
