package main

import (
	"fmt"
	"sort"

	"github.com/apache/yunikorn-core/pkg/common/resources"
	"github.com/apache/yunikorn-core/pkg/scheduler/objects"
	siCommon "github.com/apache/yunikorn-scheduler-interface/lib/go/common"
	"github.com/apache/yunikorn-scheduler-interface/lib/go/si"
)

func init() { components["node"] = runNode }

var nodeKeys = []string{"cpu", "mem", "gpu"}

// small non-saturating vectors; sparse; zero entries occur
func (c *Ctx) smallRes(maxv int, allowNeg bool) *resources.Resource {
	r := resources.NewResource()
	for _, k := range nodeKeys {
		if c.chance(0.65) {
			v := c.pick(maxv + 1)
			if allowNeg && c.chance(0.3) {
				v = -v
			}
			r.Resources[k] = resources.Quantity(v)
		}
	}
	return r
}

func toSI(r *resources.Resource) *si.Resource {
	if r == nil {
		return nil
	}
	return r.ToProto()
}

func newAlloc(key, app, node string, res *resources.Resource, foreign bool, placeholder bool, tg string) *objects.Allocation {
	tags := map[string]string{siCommon.CreationTime: "1000"}
	if foreign {
		tags[siCommon.Foreign] = siCommon.AllocTypeDefault
	}
	return objects.NewAllocationFromSI(&si.Allocation{
		AllocationKey:    key,
		ApplicationID:    app,
		NodeID:           node,
		ResourcePerAlloc: toSI(res),
		AllocationTags:   tags,
		Placeholder:      placeholder,
		TaskGroupName:    tg,
	})
}

func encNAlloc(a *objects.Allocation) map[string]interface{} {
	return map[string]interface{}{"key": a.GetAllocationKey(), "res": encRes(a.GetAllocatedResource()), "foreign": a.IsForeign()}
}

func dumpNode(n *objects.Node) map[string]interface{} {
	var allocs []map[string]interface{}
	all := append(n.GetYunikornAllocations(), n.GetForeignAllocations()...)
	sort.Slice(all, func(i, j int) bool { return all[i].GetAllocationKey() < all[j].GetAllocationKey() })
	for _, a := range all {
		allocs = append(allocs, encNAlloc(a))
	}
	if allocs == nil {
		allocs = []map[string]interface{}{}
	}
	return map[string]interface{}{
		"total": encRes(n.GetCapacity()), "occupied": encRes(n.GetOccupiedResource()), "allocated": encRes(n.GetAllocatedResource()),
		"available": encRes(n.GetAvailableResource()), "schedulable": n.IsSchedulable(), "allocs": allocs,
	}
}

type nodeDrv struct {
	c    *Ctx
	n    *objects.Node
	live map[string]*objects.Allocation
	seq  int
}

func (d *nodeDrv) apply(op map[string]interface{}) {
	op = norm(op)
	c := d.c
	line := map[string]interface{}{"c": "node"}
	for k, v := range op {
		line[k] = v
	}
	name := op["op"].(string)
	c.stat("op:" + name)
	out := true
	defer func() {
		if r := recover(); r != nil {
			line["panic"] = fmt.Sprint(r)
			line["out"] = false
			if d.n != nil {
				line["st"] = dumpNode(d.n)
			}
			c.stat("panic")
			c.emit(line)
		}
	}()
	getAlloc := func() *objects.Allocation {
		m := op["alloc"].(map[string]interface{})
		return newAlloc(jsonStr(m["key"]), "app-1", "node-1", decRes(m["res"]), jsonBool(m["foreign"]), false, "")
	}
	switch name {
	case "reset":
		d.n = objects.NewNode(&si.NodeInfo{NodeID: "node-1", SchedulableResource: toSI(decRes(op["total"]))})
		d.live = map[string]*objects.Allocation{}
	case "setCapacity":
		out = d.n.SetCapacity(decRes(op["res"])) != nil
	case "setOccupied":
		before := d.n.GetOccupiedResource()
		r := decRes(op["res"])
		d.n.SetOccupiedResource(r)
		out = !resources.Equals(before, r)
	case "updateAllocated":
		// what partition.UpdateAllocation does for a resource change of a bound allocation
		a := d.live[jsonStr(op["key"])]
		nr := decRes(op["res"])
		delta := resources.Sub(nr.Clone(), a.GetAllocatedResource().Clone())
		delta.Prune()
		a.SetAllocatedResource(nr)
		d.n.UpdateAllocatedResource(delta)
	case "tryAdd":
		a := getAlloc()
		out = d.n.TryAddAllocation(a)
		if out {
			d.live[a.GetAllocationKey()] = a
			c.stat("tryAdd-ok")
		} else {
			c.stat("tryAdd-refused")
		}
	case "forceAdd":
		a := getAlloc()
		d.n.AddAllocation(a)
		d.live[a.GetAllocationKey()] = a
	case "remove":
		k := jsonStr(op["key"])
		out = d.n.RemoveAllocation(k) != nil
		delete(d.live, k)
	case "updateForeign":
		a := getAlloc()
		out = d.n.UpdateForeignAllocation(a) != nil
		d.live[a.GetAllocationKey()] = a
	case "replace":
		a := getAlloc()
		k := jsonStr(op["key"])
		d.n.ReplaceAllocation(k, a, decRes(op["res"]))
		delete(d.live, k)
		d.live[a.GetAllocationKey()] = a
	case "setSchedulable":
		d.n.SetSchedulable(jsonBool(op["b"]))
	}
	line["out"] = out
	line["st"] = dumpNode(d.n)
	c.emit(line)
}

func encAllocArg(key string, res *resources.Resource, foreign bool) map[string]interface{} {
	return map[string]interface{}{"key": key, "res": encRes(res), "foreign": foreign}
}

func runNode(c *Ctx) {
	d := &nodeDrv{c: c}
	if replayFile != "" {
		for _, in := range readReplay(replayFile) {
			op := map[string]interface{}{}
			for _, k := range []string{"op", "total", "res", "alloc", "key", "b"} {
				if v, ok := in[k]; ok {
					op[k] = v
				}
			}
			d.apply(op)
		}
		return
	}
	for i := 0; i < c.n; i++ {
		d.seq = 0
		total := c.smallRes(40, false)
		if c.chance(0.8) {
			total.Resources["cpu"] = resources.Quantity(10 + c.pick(40))
			total.Resources["mem"] = resources.Quantity(10 + c.pick(40))
		}
		d.apply(map[string]interface{}{"op": "reset", "total": encRes(total)})
		nops := 5 + c.pick(45)
		for j := 0; j < nops; j++ {
			keys := make([]string, 0, len(d.live))
			for k := range d.live {
				keys = append(keys, k)
			}
			sort.Strings(keys)
			p := c.pick(100)
			switch {
			case p < 30:
				d.seq++
				d.apply(map[string]interface{}{"op": "tryAdd", "alloc": encAllocArg(fmt.Sprintf("a%d", d.seq), c.smallRes(12, false), false)})
			case p < 38:
				d.seq++
				d.apply(map[string]interface{}{"op": "forceAdd", "alloc": encAllocArg(fmt.Sprintf("a%d", d.seq), c.smallRes(25, false), false)})
			case p < 46:
				d.seq++
				d.apply(map[string]interface{}{"op": "forceAdd", "alloc": encAllocArg(fmt.Sprintf("f%d", d.seq), c.smallRes(10, false), true)})
			case p < 66:
				k := "nope"
				if len(keys) > 0 && c.chance(0.9) {
					k = keys[c.pick(len(keys))]
				}
				d.apply(map[string]interface{}{"op": "remove", "key": k})
			case p < 72:
				// update a foreign allocation that exists (the unknown-key branch stores without accounting: C03)
				var fk []string
				for _, k := range keys {
					if d.live[k].IsForeign() {
						fk = append(fk, k)
					}
				}
				if len(fk) > 0 {
					k := fk[c.pick(len(fk))]
					d.apply(map[string]interface{}{"op": "updateForeign", "alloc": encAllocArg(k, c.smallRes(10, false), true)})
				}
			case p < 80:
				// placeholder replacement: delta = real - placeholder, as the partition computes it
				var nk []string
				for _, k := range keys {
					if !d.live[k].IsForeign() {
						nk = append(nk, k)
					}
				}
				if len(nk) > 0 {
					k := nk[c.pick(len(nk))]
					old := d.live[k].GetAllocatedResource()
					// real allocation no larger than the placeholder
					nr := old.Clone()
					for t := range nr.Resources {
						if c.chance(0.5) && nr.Resources[t] > 0 {
							nr.Resources[t] -= resources.Quantity(c.pick(int(nr.Resources[t]) + 1))
						}
					}
					if c.chance(0.3) {
						delete(nr.Resources, nodeKeys[c.pick(len(nodeKeys))])
					}
					d.seq++
					delta := resources.Sub(nr, old)
					d.apply(map[string]interface{}{"op": "replace", "key": k, "alloc": encAllocArg(fmt.Sprintf("a%d", d.seq), nr, false), "res": encRes(delta)})
				}
			case p < 86:
				d.apply(map[string]interface{}{"op": "setCapacity", "res": encRes(c.smallRes(50, false))})
			case p < 92:
				d.apply(map[string]interface{}{"op": "setOccupied", "res": encRes(c.smallRes(15, false))})
			case p < 96:
				// in-place update of an existing allocation: partition applies the delta to the node
				var nk []string
				for _, k := range keys {
					if !d.live[k].IsForeign() {
						nk = append(nk, k)
					}
				}
				if len(nk) > 0 {
					d.apply(map[string]interface{}{"op": "updateAllocated", "key": nk[c.pick(len(nk))], "res": encRes(c.smallRes(14, false))})
				}
			default:
				d.apply(map[string]interface{}{"op": "setSchedulable", "b": c.chance(0.5)})
			}
		}
	}
}
