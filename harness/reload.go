package main

// Configuration reload harness (C16): a real ClusterContext runs a history (nodes, applications, asks, scheduling
// cycles, releases) and, at random points, receives chains of configurations that are mutations of one another: queues
// added / dropped / re-added (leaf and parent, with running applications, pending asks, reservations), leaf <-> parent
// flips, changed max / guaranteed / maxapplications / properties (inherited ones included) / child templates /
// placement rules / user and group limits / partition settings, a second partition, invalid configurations, configurations
// that pass the validator and fail later, the identical configuration (checksum short-cut of the RM event path).
// The partition manager's queue cleaner is driven synchronously (hook). Every line carries the complete state of the
// core (as the full-stack harness dumps it) plus, per partition, the queue tree with every configuration-derived
// field; reload lines also carry the annotated configuration (resources parsed by the real parsers, which steps of
// applyConf would fail) and the tree a FRESH load of that configuration gives (the dry-run partition of the real code).

import (
	"encoding/json"
	"fmt"
	"os"
	"runtime"
	"sort"
	"strings"
	"time"

	"go.yaml.in/yaml/v3"

	"github.com/apache/yunikorn-core/pkg/common"
	"github.com/apache/yunikorn-core/pkg/common/configs"
	"github.com/apache/yunikorn-core/pkg/common/resources"
	"github.com/apache/yunikorn-core/pkg/common/security"
	"github.com/apache/yunikorn-core/pkg/scheduler"
	"github.com/apache/yunikorn-core/pkg/scheduler/objects"
	"github.com/apache/yunikorn-core/pkg/scheduler/objects/template"
	"github.com/apache/yunikorn-core/pkg/scheduler/placement"
	"github.com/apache/yunikorn-core/pkg/scheduler/ugm"
	"github.com/apache/yunikorn-core/pkg/webservice/dao"
)

func init() { components["reload"] = runReload }

type reloadDrv struct {
	c    *Ctx
	core *coreDrv
	conf *configs.SchedulerConfig // the configuration in force (last accepted one)
	yaml string
	// subtrees dropped by earlier mutations: path of the parent -> queue configurations (for re-adding)
	dropped []droppedQ
	pad     int
	probes  int
}

type droppedQ struct {
	part   string
	parent string
	q      configs.QueueConfig
}

// ---------------------------------------------------------------- configuration <-> protocol

func confFromJSON(v interface{}) *configs.SchedulerConfig {
	b, err := json.Marshal(v)
	if err != nil {
		panic(err)
	}
	conf := &configs.SchedulerConfig{}
	if err = json.Unmarshal(b, conf); err != nil {
		panic("reload: configuration value: " + err.Error())
	}
	return conf
}

func confToJSON(conf *configs.SchedulerConfig) interface{} {
	b, err := json.Marshal(conf)
	if err != nil {
		panic(err)
	}
	var v interface{}
	if err = json.Unmarshal(b, &v); err != nil {
		panic(err)
	}
	return v
}

func cloneConf(conf *configs.SchedulerConfig) *configs.SchedulerConfig {
	return confFromJSON(confToJSON(conf))
}

func confYAML(conf *configs.SchedulerConfig, pad int) string {
	y, err := yaml.Marshal(conf)
	if err != nil {
		panic(err)
	}
	s := string(y)
	if pad > 0 {
		s += fmt.Sprintf("# revision %d\n", pad)
	}
	return s
}

func pairs(m map[string]string) [][]string {
	keys := make([]string, 0, len(m))
	for k := range m {
		keys = append(keys, k)
	}
	sort.Strings(keys)
	out := make([][]string, 0, len(keys))
	for _, k := range keys {
		out = append(out, []string{k, m[k]})
	}
	return out
}

// annotate one queue configuration for the model: resources as the real parser reads them, and which of the three
// fallible steps of Queue.applyConf (ACL, child template, resources) fails on it
func annotateQueue(q *configs.QueueConfig) map[string]interface{} {
	m := map[string]interface{}{"name": q.Name, "parent": q.Parent, "apps": q.MaxApplications, "props": pairs(q.Properties)}
	_, e1 := security.NewACL(q.SubmitACL, true)
	_, e2 := security.NewACL(q.AdminACL, true)
	m["aclBad"] = e1 != nil || e2 != nil
	_, e3 := template.FromConf(&q.ChildTemplate)
	m["tplBad"] = e3 != nil
	mx, e4 := resources.NewResourceFromConf(q.Resources.Max)
	gr, e5 := resources.NewResourceFromConf(q.Resources.Guaranteed)
	m["resBad"] = e4 != nil || e5 != nil
	m["max"] = resOrEmpty(mx)
	m["guar"] = resOrEmpty(gr)
	if e4 != nil {
		m["max"] = [][]interface{}{}
	}
	if e5 != nil {
		m["guar"] = [][]interface{}{}
	}
	t := q.ChildTemplate
	tm, e6 := resources.NewResourceFromConf(t.Resources.Max)
	tg, e7 := resources.NewResourceFromConf(t.Resources.Guaranteed)
	tpl := map[string]interface{}{"apps": t.MaxApplications, "props": pairs(t.Properties), "maxRaw": pairs(t.Resources.Max), "guarRaw": pairs(t.Resources.Guaranteed),
		"max": resOrEmpty(tm), "guar": resOrEmpty(tg)}
	if e6 != nil {
		tpl["max"] = [][]interface{}{}
	}
	if e7 != nil {
		tpl["guar"] = [][]interface{}{}
	}
	m["tpl"] = tpl
	qs := []interface{}{}
	for i := range q.Queues {
		qs = append(qs, annotateQueue(&q.Queues[i]))
	}
	m["queues"] = qs
	return m
}

// does AppPlacementManager.UpdateRules accept the rule list (the dry run of a reload swallows this error)
func rulesRefused(rules []configs.PlacementRule) bool {
	m := placement.NewPlacementManager(nil, func(string) *objects.Queue { return nil }, true)
	return m.UpdateRules(rules) != nil
}

// the placement rules of the default partition as far as the submission model knows them: a single provided rule
func rulesSummary(conf *configs.SchedulerConfig) string {
	if len(conf.Partitions) == 0 {
		return "other"
	}
	r := conf.Partitions[0].PlacementRules
	switch {
	case len(r) == 0:
		return "provided"
	case len(r) == 1 && strings.EqualFold(r[0].Name, "provided") && r[0].Parent == nil && r[0].Filter.Type == "" && len(r[0].Filter.Users) == 0 && len(r[0].Filter.Groups) == 0:
		if r[0].Create {
			return "provided-create"
		}
		return "provided"
	}
	return "other"
}

// the user and group limits of a queue configuration tree as one canonical text (handed to ugm.UpdateConfig as a whole)
func collectLimits(q *configs.QueueConfig, path string, out *[]interface{}) {
	if len(q.Limits) > 0 {
		*out = append(*out, []interface{}{path, q.Limits})
	}
	for i := range q.Queues {
		collectLimits(&q.Queues[i], path+"."+q.Queues[i].Name, out)
	}
}

func collectLimitGroups(q *configs.QueueConfig, out map[string]bool) {
	for _, l := range q.Limits {
		for _, g := range l.Groups {
			out[g] = true
		}
	}
	for i := range q.Queues {
		collectLimitGroups(&q.Queues[i], out)
	}
}

// group@path for every group limit of the tree
func collectLimitGroupPaths(q *configs.QueueConfig, path string, out map[string]bool) {
	for _, l := range q.Limits {
		for _, g := range l.Groups {
			out[g+"@"+path] = true
		}
	}
	for i := range q.Queues {
		collectLimitGroupPaths(&q.Queues[i], path+"."+q.Queues[i].Name, out)
	}
}

func annotateConf(conf *configs.SchedulerConfig) []interface{} {
	out := []interface{}{}
	for i := range conf.Partitions {
		p := &conf.Partitions[i]
		m := map[string]interface{}{"name": common.GetNormalizedPartitionName(p.Name, coreRM), "rulesBad": rulesRefused(p.PlacementRules)}
		if len(p.Queues) > 0 {
			m["root"] = annotateQueue(&p.Queues[0])
			lim := []interface{}{}
			collectLimits(&p.Queues[0], p.Queues[0].Name, &lim)
			b, err := json.Marshal(lim)
			if err != nil {
				panic(err)
			}
			m["limits"] = string(b)
			groups := map[string]bool{}
			collectLimitGroups(&p.Queues[0], groups)
			m["limitGroups"] = sortedKeys(groups)
			gp := map[string]bool{}
			collectLimitGroupPaths(&p.Queues[0], p.Queues[0].Name, gp)
			m["limitGroupPaths"] = sortedKeys(gp)
		}
		out = append(out, m)
	}
	return out
}

// ---------------------------------------------------------------- dump

func tplEnc(t *dao.TemplateInfo) interface{} {
	if t == nil {
		return nil
	}
	var mx, gr interface{}
	if len(t.MaxResource) > 0 {
		mx = mapRes(t.MaxResource)
	}
	if len(t.GuaranteedResource) > 0 {
		gr = mapRes(t.GuaranteedResource)
	}
	return map[string]interface{}{"apps": t.MaxApplications, "props": pairs(t.Properties), "max": mx, "guar": gr}
}

func durNs(s string) int64 {
	d, err := time.ParseDuration(s)
	if err != nil {
		return -1
	}
	return int64(d)
}

func dumpQueueExt(q *objects.Queue, out *[]map[string]interface{}) {
	d := q.GetPartitionQueueDAOInfo(false)
	apps := []string{}
	for id := range q.GetCopyOfApps() {
		apps = append(apps, id)
	}
	sort.Strings(apps)
	resv := [][]interface{}{}
	for a, n := range q.GetReservedApps() {
		resv = append(resv, []interface{}{a, n})
	}
	sort.Slice(resv, func(i, j int) bool { return resv[i][0].(string) < resv[j][0].(string) })
	preempt := "default"
	if !d.PreemptionEnabled {
		preempt = "disabled"
	} else if d.IsPreemptionFence {
		preempt = "fence"
	}
	allocating := append([]string{}, d.AllocatingAcceptedApps...)
	sort.Strings(allocating)
	*out = append(*out, map[string]interface{}{
		"path": d.QueueName, "parent": d.Parent, "leaf": d.IsLeaf, "managed": d.IsManaged, "state": d.Status,
		"max": encRes(q.VerifMaxResourceRaw()), "guaranteed": encRes(q.GetGuaranteedResource()), "maxApps": d.MaxRunningApps,
		"props": pairs(d.Properties), "tpl": tplEnc(d.TemplateInfo),
		"set": map[string]interface{}{"sort": d.SortingPolicy, "prioSort": d.PrioritySorting, "prioOffset": d.PriorityOffset, "prioFence": d.IsPriorityFence,
			"preempt": preempt, "preemptDelay": durNs(d.PreemptionDelay), "quotaDelay": durNs(d.QuotaPreemptionDelay),
			"backoff": q.GetMaxAppUnschedAskBackoff(), "backoffDelay": int64(q.GetBackoffDelay())},
		"allocated": resOrEmpty(q.GetAllocatedResource()), "pending": resOrEmpty(q.GetPendingResource()), "preempting": resOrEmpty(q.GetPreemptingResource()),
		"apps": apps, "reserved": resv, "running": d.RunningApps, "allocating": allocating,
		"offered": sortedCopy(q.VerifSortedChildren()),
	})
	children := q.GetCopyOfChildren()
	names := make([]string, 0, len(children))
	for n := range children {
		names = append(names, n)
	}
	sort.Strings(names)
	for _, n := range names {
		dumpQueueExt(children[n], out)
	}
}

// the order among ties depends on map iteration (and is C19's subject): the dump carries the set
func sortedCopy(l []string) []string {
	out := append([]string{}, l...)
	sort.Strings(out)
	return out
}

func dumpPartExt(p *scheduler.PartitionContext) map[string]interface{} {
	qs := []map[string]interface{}{}
	if root := p.GetQueue("root"); root != nil {
		dumpQueueExt(root, &qs)
	}
	weights := [][]interface{}{}
	w := p.GetNodeSortingResourceWeights()
	wk := make([]string, 0, len(w))
	for k := range w {
		wk = append(wk, k)
	}
	sort.Strings(wk)
	for _, k := range wk {
		weights = append(weights, []interface{}{k, fmt.Sprint(w[k])})
	}
	rules, err := json.Marshal(p.GetPlacementRules())
	if err != nil {
		panic(err)
	}
	// everything observable about the partition besides its queues: node sorting policy (type and resource weights),
	// preemption flags, the placement rules in force (names, and the whole rule DAOs as one canonical text)
	names := []string{}
	for _, r := range p.GetPlacementRules() {
		names = append(names, r.Name)
	}
	set := map[string]interface{}{"sort": p.GetNodeSortingPolicyType().String(), "weights": weights, "preempt": p.IsPreemptionEnabled(),
		"quota": p.IsQuotaPreemptionEnabled(), "ruleNames": names, "rules": string(rules)}
	prules, modelled := rulesFromDAO(p.GetPlacementRules())
	return map[string]interface{}{"name": p.Name, "queues": qs, "settings": set, "prules": prules, "prulesModelled": modelled}
}

// the placement rules in force in the form the placement model reads (name, value, create, parent); the recovery rule
// the manager always appends is left out (the model appends it itself). modelled = no rule carries a filter
func rulesFromDAO(rules []*dao.RuleDAO) ([]interface{}, bool) {
	out := []interface{}{}
	modelled := true
	var conv func(r *dao.RuleDAO) map[string]interface{}
	conv = func(r *dao.RuleDAO) map[string]interface{} {
		m := map[string]interface{}{"name": r.Name, "create": r.Parameters["create"] == "true"}
		switch r.Name {
		case "fixed":
			m["value"] = r.Parameters["queue"]
		case "tag":
			m["value"] = r.Parameters["tagName"]
		case "provided", "user":
		default:
			modelled = false
		}
		if r.Filter != nil {
			modelled = false
		}
		if r.ParentRule != nil {
			m["parent"] = conv(r.ParentRule)
		}
		return m
	}
	for i, r := range rules {
		if i == len(rules)-1 && r.Name == "recovery" {
			break
		}
		out = append(out, conv(r))
	}
	if len(rules) == 0 || rules[len(rules)-1].Name != "recovery" {
		modelled = false
	}
	return out, modelled
}

func (d *reloadDrv) dumpParts() []interface{} {
	out := []interface{}{}
	m := d.core.s.cc.GetPartitionMapClone()
	names := make([]string, 0, len(m))
	for n := range m {
		names = append(names, n)
	}
	sort.Strings(names)
	for _, n := range names {
		out = append(out, dumpPartExt(m[n]))
	}
	return out
}

// the tree a fresh load of every partition of the configuration gives: the dry run of the real update code
func freshParts(conf *configs.SchedulerConfig) []interface{} {
	out := []interface{}{}
	for _, p := range conf.Partitions {
		p.Name = common.GetNormalizedPartitionName(p.Name, coreRM)
		var m map[string]interface{}
		func() {
			defer func() {
				if r := recover(); r != nil {
					m = map[string]interface{}{"name": p.Name, "error": fmt.Sprint("panic: ", r)}
				}
			}()
			pc, err := scheduler.VerifFreshPartition(p, coreRM)
			if err != nil {
				m = map[string]interface{}{"name": p.Name, "error": err.Error()}
				return
			}
			m = dumpPartExt(pc)
		}()
		out = append(out, m)
	}
	return out
}

// ---------------------------------------------------------------- operations

func (d *reloadDrv) apply(op map[string]interface{}) { d.applyWithTap(op, nil) }

func (d *reloadDrv) applyWithTap(op map[string]interface{}, tap func([]map[string]interface{})) {
	op = norm(op)
	c := d.c
	line := map[string]interface{}{"c": "reload"}
	for k, v := range op {
		line[k] = v
	}
	name := op["op"].(string)
	c.stat("op:" + name)
	if d.core.s == nil && name != "reset" {
		return
	}
	done := make(chan interface{}, 1)
	go func() {
		defer func() { done <- recover() }()
		d.exec(name, op, line)
	}()
	limit := 10 * time.Second
	if name == "reload" {
		limit = 3 * time.Second
	}
	select {
	case r := <-done:
		if r != nil {
			line["panic"] = fmt.Sprint(r)
			c.stat("panic")
		}
	case <-time.After(limit):
		line["hang"] = true
		c.stat("hang")
		if name == "reload" {
			// the cluster context lock is held for good (partition removal): the stack is abandoned, the history ends here
			d.core.s = nil
			c.emit(line)
			return
		}
		c.emit(line)
		c.out.Flush()
		buf := make([]byte, 1<<20)
		n := runtime.Stack(buf, true)
		os.Stderr.Write(buf[:n])
		panic("reload harness: operation did not return within 10s: " + name)
	}
	if d.core.s != nil {
		d.core.settle()
		msgs := d.core.s.h.take()
		line["msgs"] = msgs
		if name == "app-add" {
			// the answer to the submission: accepted into which queue, or rejected with which text
			id := jsonStr(op["id"])
			placed := map[string]interface{}{"acc": false, "queue": "", "reason": ""}
			if app := d.core.s.part.GetApplication(id); app != nil {
				placed["acc"] = true
				placed["queue"] = app.GetQueuePath()
			}
			for _, m := range msgs {
				if m["t"] == "app-rejected" && m["app"] == id {
					placed["reason"] = m["reason"]
				}
			}
			line["placed"] = placed
		}
		st := d.core.s.dump()
		st["parts"] = d.dumpParts()
		line["st"] = st
		if tap != nil {
			tap(msgs)
		}
	}
	c.emit(line)
}

func (d *reloadDrv) exec(name string, op map[string]interface{}, line map[string]interface{}) {
	switch name {
	case "reset":
		conf := confFromJSON(op["conf"])
		y := confYAML(conf, int(jsonInt(op["pad"])))
		line["yaml"] = y
		line["cfg"] = annotateConf(conf)
		line["rules"] = rulesSummary(conf)
		loaded, verr := configs.LoadSchedulerConfigFromByteArray([]byte(y))
		line["valid"] = verr == nil
		if verr == nil {
			line["fresh"] = freshParts(loaded)
		}
		d.core.exec("reset", map[string]interface{}{"config": y, "deny": op["deny"]}, line)
		if d.core.s != nil {
			d.conf, d.yaml = conf, y
			line["out"] = true
		} else {
			line["out"] = false
		}
	case "reload":
		conf := confFromJSON(op["conf"])
		y := confYAML(conf, int(jsonInt(op["pad"])))
		line["yaml"] = y
		line["cfg"] = annotateConf(conf)
		line["rules"] = rulesSummary(conf)
		loaded, verr := configs.LoadSchedulerConfigFromByteArray([]byte(y))
		line["valid"] = verr == nil
		if verr == nil {
			line["fresh"] = freshParts(loaded)
		} else {
			line["invalid"] = verr.Error()
		}
		var ok bool
		var reason string
		if jsonStr(op["via"]) == "event" {
			ok, reason = d.core.s.cc.VerifConfigUpdate(coreRM, y, nil)
		} else {
			err := d.core.s.cc.UpdateRMSchedulerConfig(coreRM, []byte(y))
			ok = err == nil
			if err != nil {
				reason = err.Error()
			}
		}
		line["out"] = ok
		if !ok {
			line["error"] = reason
		}
		if ok {
			d.conf, d.yaml = conf, y
		}
	case "clean":
		for _, p := range d.core.s.cc.GetPartitionMapClone() {
			p.VerifCleanQueues()
		}
	case "probe":
		d.probe(int(jsonInt(op["n"])), line)
	default:
		d.core.exec(name, op, line)
	}
}

// ---------------------------------------------------------------- liveness probe

// probe checks that applications keep being scheduled whatever the state of their leaf: a node with room for
// everything is registered, every live application gets one small ask (cpu 1), scheduling cycles run until two in a row
// allocate nothing, and the line records for every probe ask whether it was allocated and, if not, whether anything the
// scheduler looks at stands in its way at that point (application state and run gates, back-off, queue headroom,
// user/group headroom, room on the node). The probe asks and the node are removed again afterwards.
func (d *reloadDrv) probe(n int, line map[string]interface{}) {
	s := d.core.s
	scratch := map[string]interface{}{}
	node := fmt.Sprintf("np%d", n)
	capacity := resources.NewResourceFromMap(map[string]resources.Quantity{"cpu": 100000, "mem": 100000, "gpu": 1000})
	d.core.exec("node", norm(map[string]interface{}{"id": node, "action": "create", "res": encRes(capacity)}), scratch)
	type probeAsk struct {
		app  *objects.Application
		key  string
		info map[string]interface{}
	}
	var asks []probeAsk
	apps := s.part.GetApplications()
	sort.Slice(apps, func(i, j int) bool { return apps[i].ApplicationID < apps[j].ApplicationID })
	one := resources.NewResourceFromMap(map[string]resources.Quantity{"cpu": 1})
	for _, app := range apps {
		st := app.CurrentState()
		if st != "New" && st != "Accepted" && st != "Running" && st != "Completing" {
			continue
		}
		q := s.part.GetQueue(app.GetQueuePath())
		if q == nil {
			continue
		}
		ancDraining, ancLeaf := false, false
		path := q.GetQueuePath()
		for i := strings.LastIndex(path, "."); i > 0; i = strings.LastIndex(path[:i], ".") {
			if a := s.part.GetQueue(path[:i]); a != nil {
				if a.IsDraining() {
					ancDraining = true
				}
				if a.IsLeafQueue() {
					ancLeaf = true
				}
			}
		}
		key := fmt.Sprintf("pk%d-%s", n, app.ApplicationID)
		info := map[string]interface{}{"app": app.ApplicationID, "key": key, "queue": path, "qstate": q.CurrentState(), "leaf": q.IsLeafQueue(),
			"managed": q.IsManaged(), "ancDraining": ancDraining, "ancLeaf": ancLeaf, "gang": !resources.IsZero(app.GetPlaceholderAsk()), "stateBefore": st}
		d.core.exec("alloc", norm(map[string]interface{}{"app": app.ApplicationID, "key": key, "res": encRes(one), "ctime": 900000 + n, "prio": 0, "preemptOther": false}), scratch)
		asks = append(asks, probeAsk{app, key, info})
	}
	cycles, idle := 0, 0
	for cycles < 400 && idle < 2 {
		cycles++
		if s.cc.VerifSchedule() {
			idle = 0
		} else {
			idle++
		}
	}
	line["cycles"] = cycles
	out := []interface{}{}
	nodeObj := s.part.GetNode(node)
	for _, a := range asks {
		allocated := false
		for _, al := range a.app.GetAllAllocations() {
			if al.GetAllocationKey() == a.key {
				allocated = true
			}
		}
		a.info["alloc"] = allocated
		a.info["stateAfter"] = a.app.CurrentState()
		if !allocated {
			// what the scheduler would look at now, in the order it does
			pending := false
			for _, r := range a.app.GetAllRequests() {
				if r.GetAllocationKey() == a.key && !r.IsAllocated() {
					pending = true
				}
			}
			a.info["pending"] = pending
			q := s.part.GetQueue(a.app.GetQueuePath())
			runnable := true
			if a.app.IsAccepted() && q != nil {
				runnable = q.VerifCanRunApp(a.app.ApplicationID) && ugmCanRun(a.app)
			}
			a.info["runnable"] = runnable
			dl := a.app.GetBackoffDeadline()
			a.info["backoff"] = !dl.IsZero() && time.Now().Before(dl)
			a.info["qfit"] = q != nil && q.VerifGetHeadRoom().FitInMaxUndef(one)
			a.info["ufit"] = ugmHeadroom(a.app).FitInMaxUndef(one)
			a.info["nodeRoom"] = nodeObj != nil && nodeObj.IsSchedulable() && nodeObj.GetAvailableResource().FitIn(one)
		}
		out = append(out, a.info)
	}
	line["probes"] = out
	// undo: the probe asks / allocations and the node
	for _, a := range asks {
		d.core.exec("release", norm(map[string]interface{}{"app": a.app.ApplicationID, "key": a.key, "type": "STOPPED_BY_RM"}), scratch)
	}
	d.core.exec("node", norm(map[string]interface{}{"id": node, "action": "decommission"}), scratch)
}

func ugmCanRun(app *objects.Application) bool {
	return ugm.GetUserManager().CanRunApp(app.GetQueuePath(), app.ApplicationID, app.GetUser())
}

func ugmHeadroom(app *objects.Application) *resources.Resource {
	return ugm.GetUserManager().Headroom(app.GetQueuePath(), app.ApplicationID, app.GetUser())
}

// ---------------------------------------------------------------- generator: configurations

var (
	rlPropKeys = []string{"application.sort.policy", "application.sort.priority", "priority.policy", "priority.offset", "preemption.policy", "preemption.delay",
		"quota.preemption.delay", "application.unschedasks.backoff", "application.unschedasks.backoff.delay", "custom.key"}
	rlPropVals = map[string][]string{
		"application.sort.policy":               {"fifo", "fair", "stateaware", "FIFO", "fair"},
		"application.sort.priority":             {"enabled", "disabled", "Disabled", "bogus"},
		"priority.policy":                       {"default", "fence", "Fence", "bogus"},
		"priority.offset":                       {"5", "-3", "+2", "abc", "99999999999", "0"},
		"preemption.policy":                     {"default", "fence", "disabled", "Disabled", "bogus"},
		"preemption.delay":                      {"10s", "1m", "500ms", "0s", "-5s", "abc", "1h"},
		"quota.preemption.delay":                {"20s", "0s", "5m", "x"},
		"application.unschedasks.backoff":       {"3", "0", "x", "-1", "12"},
		"application.unschedasks.backoff.delay": {"15s", "abc", "2m"},
		"custom.key":                            {"v1", "v2"},
	}
	rlUsers = []string{"alice", "bob", "carol"}
)

func (c *Ctx) rlProps(p float64) map[string]string {
	var m map[string]string
	for _, k := range rlPropKeys {
		if c.chance(p) {
			if m == nil {
				m = map[string]string{}
			}
			m[k] = c.one(rlPropVals[k])
		}
	}
	return m
}

func (c *Ctx) rlResources(depth int, q *configs.QueueConfig) {
	q.Resources = configs.Resources{}
	if c.chance(0.55) {
		mx := map[string]string{}
		lo, span := 20, 40
		if depth >= 2 {
			lo, span = 4, 16
		}
		if c.chance(0.85) {
			mx["cpu"] = fmt.Sprint(lo + c.pick(span))
		}
		if c.chance(0.4) {
			mx["mem"] = fmt.Sprint(lo + c.pick(span))
		}
		if len(mx) > 0 {
			q.Resources.Max = mx
		}
	}
	if c.chance(0.3) {
		g := 1 + c.pick(3)
		if depth < 2 {
			g = 8 + c.pick(6)
		}
		q.Resources.Guaranteed = map[string]string{"cpu": fmt.Sprint(g)}
	}
}

func (c *Ctx) rlTemplate() configs.ChildTemplate {
	t := configs.ChildTemplate{}
	if c.chance(0.7) {
		t.MaxApplications = uint64(1 + c.pick(4))
	}
	if c.chance(0.5) {
		t.Properties = c.rlProps(0.15)
	}
	if c.chance(0.5) {
		t.Resources.Max = map[string]string{"cpu": fmt.Sprint(5 + c.pick(20))}
	}
	if c.chance(0.25) {
		t.Resources.Guaranteed = map[string]string{"cpu": fmt.Sprint(1 + c.pick(3))}
	}
	return t
}

func (c *Ctx) rlLimits() []configs.Limit {
	var out []configs.Limit
	if c.chance(0.5) {
		out = append(out, configs.Limit{Limit: "named", Users: []string{c.one(rlUsers)}, MaxResources: map[string]string{"cpu": fmt.Sprint(5 + c.pick(30))}, MaxApplications: uint64(1 + c.pick(4))})
	}
	if c.chance(0.3) {
		out = append(out, configs.Limit{Limit: "group", Groups: []string{"dev"}, MaxResources: map[string]string{"cpu": fmt.Sprint(10 + c.pick(30))}, MaxApplications: uint64(2 + c.pick(4))})
	}
	if c.chance(0.3) {
		out = append(out, configs.Limit{Limit: "wild", Users: []string{"*"}, MaxResources: map[string]string{"cpu": fmt.Sprint(5 + c.pick(40))}, MaxApplications: uint64(1 + c.pick(5))})
	}
	return out
}

func (c *Ctx) rlLeaf(name string, depth int) configs.QueueConfig {
	q := configs.QueueConfig{Name: name}
	c.rlResources(depth, &q)
	if c.chance(0.3) {
		q.Properties = c.rlProps(0.2)
	}
	if c.chance(0.12) {
		q.Limits = c.rlLimits()
	}
	return q
}

// initial configuration: root -> a, b -> {b1, b2}, sometimes c (parent with a child template, for dynamic queues),
// d (leaf), e -> e1 -> e11 (two parent levels for inherited properties and templates); sometimes a second partition
func (c *Ctx) rlInitial() *configs.SchedulerConfig {
	root := configs.QueueConfig{Name: "root", Parent: true, SubmitACL: "*"}
	if c.chance(0.5) {
		root.Properties = c.rlProps(0.25)
	}
	if c.chance(0.4) {
		root.ChildTemplate = c.rlTemplate()
	}
	if c.chance(0.3) {
		root.Limits = c.rlLimits()
	}
	a := c.rlLeaf("a", 1)
	b := configs.QueueConfig{Name: "b", Parent: true}
	c.rlResources(1, &b)
	if c.chance(0.5) {
		b.Properties = c.rlProps(0.25)
	}
	if c.chance(0.3) {
		b.ChildTemplate = c.rlTemplate()
	}
	b.Queues = []configs.QueueConfig{c.rlLeaf("b1", 2), c.rlLeaf("b2", 2)}
	root.Queues = []configs.QueueConfig{a, b}
	if c.chance(0.6) {
		cq := configs.QueueConfig{Name: "c", Parent: true}
		if c.chance(0.5) {
			cq.ChildTemplate = c.rlTemplate()
		}
		if c.chance(0.4) {
			cq.Properties = c.rlProps(0.25)
		}
		root.Queues = append(root.Queues, cq)
	}
	if c.chance(0.4) {
		root.Queues = append(root.Queues, c.rlLeaf("d", 1))
	}
	if c.chance(0.55) {
		// the queue the placement manager falls back to when no rule places an application
		root.Queues = append(root.Queues, c.rlLeaf("default", 1))
	}
	if c.chance(0.4) {
		e := configs.QueueConfig{Name: "e", Parent: true, Properties: c.rlProps(0.3)}
		e1 := configs.QueueConfig{Name: c.one([]string{"e1", "E1"}), Parent: true}
		if c.chance(0.4) {
			e1.ChildTemplate = c.rlTemplate()
		}
		if c.chance(0.4) {
			e1.Properties = c.rlProps(0.2)
		}
		if c.chance(0.7) {
			e1.Queues = []configs.QueueConfig{c.rlLeaf("e11", 2)}
		}
		e.Queues = []configs.QueueConfig{e1}
		root.Queues = append(root.Queues, e)
	}
	if c.chance(0.25) {
		c.rlAllMaxApps(&root, 0)
	}
	p := configs.PartitionConfig{Name: "default", Queues: []configs.QueueConfig{root},
		PlacementRules: []configs.PlacementRule{{Name: "provided", Create: true}}}
	c.rlPartSettings(&p)
	conf := &configs.SchedulerConfig{Partitions: []configs.PartitionConfig{p}}
	if c.chance(0.25) {
		conf.Partitions = append(conf.Partitions, c.rlOtherPartition())
	}
	return conf
}

func (c *Ctx) rlPartSettings(p *configs.PartitionConfig) {
	p.NodeSortPolicy = configs.NodeSortingPolicy{}
	if c.chance(0.5) {
		p.NodeSortPolicy.Type = c.one([]string{"binpacking", "fair"})
	}
	if c.chance(0.4) {
		w := map[string]float64{}
		for _, k := range []string{"cpu", "mem", "vcore"} {
			if c.chance(0.5) {
				w[k] = []float64{0, 0.5, 1, 2, 3.5}[c.pick(5)]
			}
		}
		if len(w) > 0 {
			p.NodeSortPolicy.ResourceWeights = w
		}
	}
	p.Preemption = configs.PartitionPreemptionConfig{}
	if c.chance(0.6) {
		b := c.chance(0.7)
		p.Preemption.Enabled = &b
	}
	if c.chance(0.3) {
		b := c.chance(0.5)
		p.Preemption.QuotaPreemptionEnabled = &b
	}
}

func (c *Ctx) rlOtherPartition() configs.PartitionConfig {
	root := configs.QueueConfig{Name: "root", Parent: true, SubmitACL: "*"}
	root.Queues = []configs.QueueConfig{{Name: "x", MaxApplications: uint64(c.pick(4))}, {Name: "y", Parent: true, Queues: []configs.QueueConfig{{Name: "y1"}}}}
	return configs.PartitionConfig{Name: "other", Queues: []configs.QueueConfig{root}}
}

// maxapplications on every queue (a parent that sets it forces every child to set a smaller or equal one)
func (c *Ctx) rlAllMaxApps(q *configs.QueueConfig, depth int) {
	switch depth {
	case 0:
		q.MaxApplications = uint64(20 + c.pick(10))
	case 1:
		q.MaxApplications = uint64(6 + c.pick(5))
	case 2:
		q.MaxApplications = uint64(3 + c.pick(3))
	default:
		q.MaxApplications = uint64(1 + c.pick(2))
	}
	for i := range q.Queues {
		c.rlAllMaxApps(&q.Queues[i], depth+1)
	}
}

// all queue configurations of a tree with the path of each (pointers into the tree)
type qref struct {
	q     *configs.QueueConfig
	path  string
	depth int
	par   *configs.QueueConfig
}

func collectQ(q *configs.QueueConfig, path string, depth int, par *configs.QueueConfig, out *[]qref) {
	*out = append(*out, qref{q, path, depth, par})
	for i := range q.Queues {
		collectQ(&q.Queues[i], path+"."+strings.ToLower(q.Queues[i].Name), depth+1, q, out)
	}
}

func hasChild(q *configs.QueueConfig, name string) bool {
	for _, ch := range q.Queues {
		if strings.EqualFold(ch.Name, name) {
			return true
		}
	}
	return false
}

var rlNewNames = []string{"a", "b", "c", "d", "e", "f", "default", "n1", "n2", "dyn1", "dyn2", "dyn3", "sub", "b1", "b2", "b3", "X1", "root"}

// mutate applies one random mutation to the partition named part of conf; returns a label for the statistics
func (d *reloadDrv) mutate(conf *configs.SchedulerConfig, pi int) string {
	c := d.c
	p := &conf.Partitions[pi]
	var all []qref
	collectQ(&p.Queues[0], "root", 0, nil, &all)
	pickQ := func(filter func(qref) bool) *qref {
		var cand []int
		for i, r := range all {
			if filter(r) {
				cand = append(cand, i)
			}
		}
		if len(cand) == 0 {
			return nil
		}
		return &all[cand[c.pick(len(cand))]]
	}
	isParent := func(r qref) bool { return r.q.Parent || len(r.q.Queues) > 0 }
	switch k := c.pick(100); {
	case k < 14: // add a leaf below a parent (also below what is a leaf now: leaf -> parent flip when it has content)
		r := pickQ(func(r qref) bool { return isParent(r) || c.chance(0.15) })
		if r == nil {
			return "none"
		}
		n := c.one(rlNewNames)
		if hasChild(r.q, n) {
			return "none"
		}
		r.q.Queues = append(r.q.Queues, c.rlLeaf(n, r.depth+1))
		if r.q.MaxApplications != 0 {
			r.q.Queues[len(r.q.Queues)-1].MaxApplications = 1 + uint64(c.pick(int(r.q.MaxApplications)))
		}
		return "add-leaf"
	case k < 20: // add a parent with a child
		r := pickQ(isParent)
		if r == nil {
			return "none"
		}
		n := c.one(rlNewNames)
		if hasChild(r.q, n) {
			return "none"
		}
		nq := configs.QueueConfig{Name: n, Parent: true, Properties: c.rlProps(0.15)}
		if c.chance(0.4) {
			nq.ChildTemplate = c.rlTemplate()
		}
		if c.chance(0.6) {
			nq.Queues = []configs.QueueConfig{c.rlLeaf(c.one(rlNewNames), r.depth+2)}
		}
		r.q.Queues = append(r.q.Queues, nq)
		return "add-parent"
	case k < 34: // drop a queue with its subtree (remembered for re-adding)
		r := pickQ(func(r qref) bool { return r.depth > 0 })
		if r == nil {
			return "none"
		}
		for i := range r.par.Queues {
			if &r.par.Queues[i] == r.q {
				d.dropped = append(d.dropped, droppedQ{part: p.Name, parent: r.path[:strings.LastIndex(r.path, ".")], q: cloneConfQ(*r.q)})
				r.par.Queues = append(r.par.Queues[:i:i], r.par.Queues[i+1:]...)
				break
			}
		}
		return "drop"
	case k < 46: // re-add a dropped subtree (the same or with new settings)
		if len(d.dropped) == 0 {
			return "none"
		}
		i := c.pick(len(d.dropped))
		dq := d.dropped[i]
		if dq.part != p.Name {
			return "none"
		}
		r := pickQ(func(r qref) bool { return r.path == dq.parent })
		if r == nil || hasChild(r.q, dq.q.Name) {
			return "none"
		}
		d.dropped = append(d.dropped[:i], d.dropped[i+1:]...)
		q := cloneConfQ(dq.q)
		if c.chance(0.4) {
			c.rlResources(r.depth+1, &q)
		}
		r.q.Queues = append(r.q.Queues, q)
		return "re-add"
	case k < 52: // leaf -> parent
		r := pickQ(func(r qref) bool { return r.depth > 0 && !isParent(r) })
		if r == nil {
			return "none"
		}
		r.q.Parent = true
		if c.chance(0.6) {
			r.q.Queues = []configs.QueueConfig{c.rlLeaf(c.one(rlNewNames), r.depth+1)}
		}
		if c.chance(0.3) {
			r.q.ChildTemplate = c.rlTemplate()
		}
		return "leaf-to-parent"
	case k < 58: // parent -> leaf
		r := pickQ(func(r qref) bool { return r.depth > 0 && isParent(r) })
		if r == nil {
			return "none"
		}
		r.q.Parent = false
		r.q.Queues = nil
		if c.chance(0.7) {
			r.q.ChildTemplate = configs.ChildTemplate{}
		}
		return "parent-to-leaf"
	case k < 68: // resources
		r := pickQ(func(r qref) bool { return r.depth > 0 })
		if r == nil {
			return "none"
		}
		c.rlResources(r.depth, r.q)
		return "resources"
	case k < 74: // maxapplications
		r := pickQ(func(r qref) bool { return true })
		switch {
		case r.q.MaxApplications != 0 && c.chance(0.7):
			n := int(r.q.MaxApplications) + c.pick(5) - 2
			if n < 1 {
				n = 1
			}
			r.q.MaxApplications = uint64(n)
		case !isParent(*r):
			r.q.MaxApplications = uint64(c.pick(5))
		default:
			c.rlAllMaxApps(r.q, r.depth)
		}
		return "maxapps"
	case k < 86: // properties (on parents they are inherited)
		r := pickQ(func(r qref) bool { return isParent(r) || c.chance(0.4) })
		if r == nil {
			return "none"
		}
		switch c.pick(3) {
		case 0:
			r.q.Properties = c.rlProps(0.3)
		case 1:
			if r.q.Properties == nil {
				r.q.Properties = map[string]string{}
			}
			k := c.one(rlPropKeys)
			r.q.Properties[k] = c.one(rlPropVals[k])
		default:
			for k := range r.q.Properties {
				if c.chance(0.5) {
					delete(r.q.Properties, k)
				}
			}
			if len(r.q.Properties) == 0 {
				r.q.Properties = nil
			}
		}
		return "properties"
	case k < 92: // child template
		r := pickQ(isParent)
		if r == nil {
			return "none"
		}
		if c.chance(0.3) {
			r.q.ChildTemplate = configs.ChildTemplate{}
		} else {
			r.q.ChildTemplate = c.rlTemplate()
		}
		return "template"
	case k < 96: // user and group limits
		r := pickQ(func(r qref) bool { return r.depth <= 1 })
		r.q.Limits = c.rlLimits()
		return "limits"
	default: // partition settings and placement rules
		c.rlPartSettings(p)
		switch c.pick(7) {
		case 4:
			p.PlacementRules = nil
		case 5:
			p.PlacementRules = []configs.PlacementRule{{Name: "user", Create: false}, {Name: "provided", Create: false}}
		case 6:
			p.PlacementRules = []configs.PlacementRule{{Name: "tag", Value: "namespace", Create: false}, {Name: "provided", Create: c.chance(0.5)}}
		case 0:
			p.PlacementRules = []configs.PlacementRule{{Name: "provided", Create: true}}
		case 1:
			p.PlacementRules = []configs.PlacementRule{{Name: "provided", Create: true}, {Name: "user", Create: true, Parent: &configs.PlacementRule{Name: "fixed", Value: "root.c", Create: true}}}
		case 2:
			p.PlacementRules = []configs.PlacementRule{{Name: "provided", Create: c.chance(0.5)}, {Name: "fixed", Value: "root.a"}}
		}
		return "partition-settings"
	}
}

func cloneConfQ(q configs.QueueConfig) configs.QueueConfig {
	b, err := json.Marshal(q)
	if err != nil {
		panic(err)
	}
	var out configs.QueueConfig
	if err = json.Unmarshal(b, &out); err != nil {
		panic(err)
	}
	return out
}

// break makes the configuration one the validator refuses
func (d *reloadDrv) breakConf(conf *configs.SchedulerConfig) string {
	c := d.c
	p := &conf.Partitions[0]
	root := &p.Queues[0]
	if len(root.Queues) == 0 {
		root.Queues = append(root.Queues, configs.QueueConfig{Name: "bad name"})
		return "invalid-name"
	}
	switch c.pick(6) {
	case 0:
		root.Queues = append(root.Queues, configs.QueueConfig{Name: root.Queues[0].Name})
		return "invalid-duplicate"
	case 1:
		root.Queues = append(root.Queues, configs.QueueConfig{Name: "bad name"})
		return "invalid-name"
	case 2:
		root.Queues[0].Resources = configs.Resources{Max: map[string]string{"cpu": "5"}, Guaranteed: map[string]string{"cpu": "9"}}
		return "invalid-guaranteed-over-max"
	case 3:
		root.Resources.Max = map[string]string{"cpu": "100"}
		return "invalid-root-resources"
	case 4:
		p.PlacementRules = []configs.PlacementRule{{Name: "bad-rule!"}}
		return "invalid-rule-name"
	default:
		root.Queues[0].Resources = configs.Resources{Max: map[string]string{"cpu": "abc"}}
		return "invalid-quantity"
	}
}

// poison makes the configuration one the validator accepts and the loader refuses
func (d *reloadDrv) poison(conf *configs.SchedulerConfig, pi int) string {
	c := d.c
	p := &conf.Partitions[pi]
	root := &p.Queues[0]
	switch c.pick(4) {
	case 0:
		root.Queues = append(root.Queues, configs.QueueConfig{Name: "poison", Parent: true, ChildTemplate: configs.ChildTemplate{Resources: configs.Resources{Max: map[string]string{"memory": "abc"}}}})
		return "late-template-quantity"
	case 1:
		root.SubmitACL = "*"
		root.Queues = append(root.Queues, configs.QueueConfig{Name: "poison", SubmitACL: " bob grp"})
		return "late-acl"
	case 2:
		root.Name = "Root"
		return "late-root-name"
	default:
		p.PlacementRules = []configs.PlacementRule{{Name: "foo"}}
		return "late-rule-unknown"
	}
}

// lateRules makes the update one that is rejected LATE: the placement rule list passes the validator (rule names are
// only checked to be identifiers, the dry run swallows the error of the placement manager) and is refused by
// AppPlacementManager.UpdateRules in updatePartitionDetails — while the same configuration changes other settings of the
// partition: node sorting policy (type, resource weights), preemption flags, limits, queues
func (d *reloadDrv) lateRules(conf *configs.SchedulerConfig, pi int) string {
	c := d.c
	p := &conf.Partitions[pi]
	cands := [][]configs.PlacementRule{
		{{Name: "providedd", Create: true}},
		{{Name: "provided", Create: true}, {Name: "foo"}},
		{{Name: "user", Create: true, Parent: &configs.PlacementRule{Name: "fixedd", Value: "grp", Create: true}}, {Name: "provided", Create: true}},
		{{Name: "tag", Create: true}},
		{{Name: "provided"}, {Name: "tag"}},
		{{Name: "fixed", Create: true}},
		{{Name: "Provided_1"}},
		{{Name: "provided", Create: true}, {Name: "recovery"}},
		{{Name: "user", Parent: &configs.PlacementRule{Name: "tag", Create: true}}},
	}
	start := c.pick(len(cands))
	label := "late-rules-none"
	for i := range cands {
		p.PlacementRules = cands[(start+i)%len(cands)]
		if _, err := configs.LoadSchedulerConfigFromByteArray([]byte(confYAML(conf, 0))); err == nil && rulesRefused(p.PlacementRules) {
			label = "late-rules"
			break
		}
		p.PlacementRules = nil
	}
	// the node sorting policy always changes: the type flips, or the weights are new, or both
	flip := c.chance(0.7)
	if flip {
		if strings.EqualFold(p.NodeSortPolicy.Type, "binpacking") {
			p.NodeSortPolicy.Type = c.one([]string{"fair", ""})
		} else {
			p.NodeSortPolicy.Type = "binpacking"
		}
	}
	if !flip || c.chance(0.5) {
		w := map[string]float64{"cpu": []float64{0.25, 1.5, 4, 7}[c.pick(4)]}
		if old, ok := p.NodeSortPolicy.ResourceWeights["cpu"]; ok && old == w["cpu"] {
			w["cpu"] = old + 1
		}
		if c.chance(0.5) {
			w["mem"] = float64(c.pick(4))
		}
		p.NodeSortPolicy.ResourceWeights = w
	}
	if c.chance(0.5) {
		b := !(p.Preemption.Enabled == nil || *p.Preemption.Enabled)
		p.Preemption.Enabled = &b
	}
	if c.chance(0.3) {
		b := !(p.Preemption.QuotaPreemptionEnabled != nil && *p.Preemption.QuotaPreemptionEnabled)
		p.Preemption.QuotaPreemptionEnabled = &b
	}
	if c.chance(0.4) {
		p.Queues[0].Limits = c.rlLimits()
	}
	// queue changes in the same configuration; a mutation that replaces the rule list again is undone
	for n := c.pick(3); n > 0; n-- {
		rules := p.PlacementRules
		sortPolicy, pre := p.NodeSortPolicy, p.Preemption
		if d.mutate(conf, pi) == "partition-settings" {
			p = &conf.Partitions[pi]
			p.PlacementRules, p.NodeSortPolicy, p.Preemption = rules, sortPolicy, pre
		}
	}
	return label
}

// ---------------------------------------------------------------- generator: histories

func (d *reloadDrv) leaves() []string {
	out := []string{}
	var all []qref
	collectQ(&d.conf.Partitions[0].Queues[0], "root", 0, nil, &all)
	for _, r := range all {
		if !r.q.Parent && len(r.q.Queues) == 0 {
			out = append(out, r.path)
		}
	}
	return out
}

// queues that exist now in the default partition, with their state
func (d *reloadDrv) liveQueues() (draining []string, leafs []string) {
	qs := []map[string]interface{}{}
	dumpQueueExt(d.core.s.part.GetQueue("root"), &qs)
	for _, q := range qs {
		if q["leaf"].(bool) {
			leafs = append(leafs, q["path"].(string))
			if q["state"] == "Draining" {
				draining = append(draining, q["path"].(string))
			}
		}
	}
	return
}

func (d *reloadDrv) genReload() map[string]interface{} {
	c := d.c
	conf := cloneConf(d.conf)
	label := ""
	via := "event"
	if c.chance(0.3) {
		via = "direct"
	}
	pad := d.pad
	switch k := c.pick(100); {
	case k < 7:
		label = "identical"
	case k < 11:
		d.pad++
		pad = d.pad
		label = "comment-only"
	case k < 21:
		label = d.breakConf(conf)
	case k < 28:
		label = d.poison(conf, 0)
		if c.chance(0.5) {
			d.mutate(conf, 0)
		}
	case k < 37:
		label = d.lateRules(conf, 0)
	default:
		n := 1 + c.pick(3)
		labels := []string{}
		for i := 0; i < n; i++ {
			pi := 0
			if len(conf.Partitions) > 1 && c.chance(0.2) {
				pi = 1
			}
			labels = append(labels, d.mutate(conf, pi))
		}
		label = strings.Join(labels, "+")
		if len(conf.Partitions) == 1 && c.chance(0.06) {
			conf.Partitions = append(conf.Partitions, c.rlOtherPartition())
			label += "+add-partition"
		} else if len(conf.Partitions) > 1 && c.chance(0.25) {
			// a second partition the loader refuses after the first one has been updated
			label += "+" + d.poison(conf, 1) + "-second-partition"
		}
	}
	for _, l := range strings.Split(label, "+") {
		c.stat("reload:" + l)
	}
	return map[string]interface{}{"op": "reload", "via": via, "conf": confToJSON(conf), "pad": pad, "kind": label}
}

// drainScenario: a configured leaf that holds an application is dropped by an update (it goes Draining) and applications
// are submitted afterwards that end up at it: naming it directly (qualified or not), through a tag, through a fixed rule
// that comes last, or not placed by any rule so that the placement manager falls back to root.default — preferably the
// dropped leaf is root.default itself. The rule list of the update is one in which the deciding rule is the last one.
func (d *reloadDrv) drainScenario(s *shimSim, emit func(map[string]interface{})) {
	c := d.c
	if d.core.s == nil || len(d.conf.Partitions) == 0 {
		return
	}
	_, leafs := d.liveQueues()
	live := map[string]bool{}
	for _, l := range leafs {
		live[l] = true
	}
	var cands []string
	for _, l := range d.leaves() {
		if q := d.core.s.part.GetQueue(l); l != "root" && live[l] && q != nil && q.IsManaged() && !q.IsDraining() && strings.Count(l, ".") == 1 {
			cands = append(cands, l)
		}
	}
	if len(cands) == 0 {
		c.stat("drain-scenario:no-leaf")
		return
	}
	victim := c.one(cands)
	if live["root.default"] && c.chance(0.75) {
		for _, l := range cands {
			if l == "root.default" {
				victim = l
			}
		}
	}
	submit := func(q string, tags map[string]string) string {
		id := fmt.Sprintf("app-%d", len(s.appList)+1)
		op := map[string]interface{}{"op": "app-add", "id": id, "queue": q, "user": c.one(rlUsers), "groups": "dev"}
		if tags != nil {
			op["tags"] = tags
		}
		emit(op)
		s.appList = append(s.appList, id)
		s.apps[id] = true
		return id
	}
	// an application in the leaf (one may be there already)
	vq := d.core.s.part.GetQueue(victim)
	if len(vq.GetCopyOfApps()) == 0 || c.chance(0.3) {
		id := submit(victim, nil)
		if d.core.s == nil {
			return
		}
		if app := d.core.s.part.GetApplication(id); app == nil || app.GetQueuePath() != victim {
			c.stat("drain-scenario:no-app")
			if len(vq.GetCopyOfApps()) == 0 {
				return
			}
		}
	}
	// the update: the leaf is gone, the rule list is one whose last rule decides
	conf := cloneConf(d.conf)
	p := &conf.Partitions[0]
	root := &p.Queues[0]
	name := victim[len("root."):]
	for i := range root.Queues {
		if strings.EqualFold(root.Queues[i].Name, name) {
			d.dropped = append(d.dropped, droppedQ{part: p.Name, parent: "root", q: cloneConfQ(root.Queues[i])})
			root.Queues = append(root.Queues[:i:i], root.Queues[i+1:]...)
			break
		}
	}
	kind := c.pick(7)
	switch kind {
	case 0:
		p.PlacementRules = nil
	case 1:
		p.PlacementRules = []configs.PlacementRule{{Name: "provided", Create: false}}
	case 2:
		p.PlacementRules = []configs.PlacementRule{{Name: "user", Create: false}, {Name: "provided", Create: false}}
	case 3:
		p.PlacementRules = []configs.PlacementRule{{Name: "provided", Create: false}, {Name: "fixed", Value: victim, Create: true}}
	case 4:
		p.PlacementRules = []configs.PlacementRule{{Name: "provided", Create: true}}
	case 5:
		p.PlacementRules = []configs.PlacementRule{{Name: "tag", Value: "namespace", Create: false}, {Name: "provided", Create: false}}
	default:
		p.PlacementRules = []configs.PlacementRule{{Name: "tag", Value: "namespace", Create: false}}
	}
	c.stat(fmt.Sprintf("drain-scenario:rules-%d", kind))
	via := "event"
	if c.chance(0.3) {
		via = "direct"
	}
	emit(map[string]interface{}{"op": "reload", "via": via, "conf": confToJSON(conf), "pad": d.pad, "kind": "drain-scenario"})
	if d.core.s == nil {
		return
	}
	if q := d.core.s.part.GetQueue(victim); q == nil || !q.IsDraining() {
		c.stat("drain-scenario:not-draining")
		return
	}
	c.stat("drain-scenario:draining")
	if victim == "root.default" {
		c.stat("drain-scenario:default-draining")
	}
	// the submissions
	n := 2 + c.pick(3)
	for i := 0; i < n && d.core.s != nil; i++ {
		switch c.pick(6) {
		case 0:
			submit(victim, nil)
		case 1:
			submit(name, nil)
		case 2:
			submit(c.one([]string{"root.nosuch.q", "root.nosuch", "nosuch"}), nil)
		case 3:
			submit("", nil)
		case 4:
			submit(c.one([]string{"", "root.nosuch"}), map[string]string{"namespace": c.one([]string{name, victim, "nosuch"})})
		default:
			submit(c.one([]string{"root.b", "root"}), nil)
		}
		if c.chance(0.2) {
			emit(map[string]interface{}{"op": "clean"})
		}
	}
}

// flipScenario: a configured parent with one or two configured leaf children (some holding applications) is turned into
// a leaf by an update (no queues below it, parent flag not set): the recursion of updateQueues into it with the empty
// child list has to mark the old children for removal. Afterwards applications are submitted that name an old child
// (qualified, through a tag), a new queue below an old child, and the new leaf itself.
func (d *reloadDrv) flipScenario(s *shimSim, emit func(map[string]interface{})) {
	c := d.c
	if d.core.s == nil || len(d.conf.Partitions) == 0 {
		return
	}
	submit := func(q string, tags map[string]string) string {
		id := fmt.Sprintf("app-%d", len(s.appList)+1)
		op := map[string]interface{}{"op": "app-add", "id": id, "queue": q, "user": c.one(rlUsers), "groups": "dev"}
		if tags != nil {
			op["tags"] = tags
		}
		emit(op)
		s.appList = append(s.appList, id)
		s.apps[id] = true
		return id
	}
	pickParent := func(conf *configs.SchedulerConfig) *qref {
		var all []qref
		collectQ(&conf.Partitions[0].Queues[0], "root", 0, nil, &all)
		var cand []int
		for i, r := range all {
			if r.depth == 0 || len(r.q.Queues) == 0 || len(r.q.Queues) > 2 {
				continue
			}
			ok := true
			for _, ch := range r.q.Queues {
				if ch.Parent || len(ch.Queues) > 0 {
					ok = false
				}
			}
			q := d.core.s.part.GetQueue(r.path)
			if ok && q != nil && !q.IsLeafQueue() && !q.IsDraining() {
				cand = append(cand, i)
			}
		}
		if len(cand) == 0 {
			return nil
		}
		r := all[cand[c.pick(len(cand))]]
		return &r
	}
	if pickParent(d.conf) == nil {
		// no such parent: an update adds root.team with one or two leaves
		conf := cloneConf(d.conf)
		root := &conf.Partitions[0].Queues[0]
		if hasChild(root, "team") || d.core.s.part.GetQueue("root.team") != nil {
			c.stat("flip-scenario:no-parent")
			return
		}
		team := configs.QueueConfig{Name: "team", Parent: true, Queues: []configs.QueueConfig{c.rlLeaf("batch", 2)}}
		if c.chance(0.5) {
			team.Queues = append(team.Queues, c.rlLeaf("adhoc", 2))
		}
		if root.MaxApplications != 0 {
			c.rlAllMaxApps(&team, 1)
		}
		root.Queues = append(root.Queues, team)
		emit(map[string]interface{}{"op": "reload", "via": "direct", "conf": confToJSON(conf), "pad": d.pad, "kind": "flip-scenario-add"})
		if d.core.s == nil {
			return
		}
	}
	par := pickParent(d.conf)
	if par == nil {
		c.stat("flip-scenario:no-parent")
		return
	}
	parent := par.path
	var children []string
	for _, ch := range par.q.Queues {
		children = append(children, parent+"."+strings.ToLower(ch.Name))
	}
	// applications in some of the children
	for _, ch := range children {
		if q := d.core.s.part.GetQueue(ch); q != nil && q.IsLeafQueue() && !q.IsDraining() && c.chance(0.5) {
			submit(ch, nil)
			if d.core.s == nil {
				return
			}
		}
	}
	// the update: the parent is a leaf now
	conf := cloneConf(d.conf)
	p := &conf.Partitions[0]
	var all []qref
	collectQ(&p.Queues[0], "root", 0, nil, &all)
	for _, r := range all {
		if r.path == parent {
			r.q.Parent = false
			r.q.Queues = nil
			r.q.ChildTemplate = configs.ChildTemplate{}
		}
	}
	kind := c.pick(5)
	switch kind {
	case 0:
		p.PlacementRules = nil
	case 1:
		p.PlacementRules = []configs.PlacementRule{{Name: "provided", Create: false}}
	case 2:
		p.PlacementRules = []configs.PlacementRule{{Name: "provided", Create: true}}
	case 3:
		p.PlacementRules = []configs.PlacementRule{{Name: "tag", Value: "namespace", Create: c.chance(0.5)}, {Name: "provided", Create: false}}
	default:
		p.PlacementRules = []configs.PlacementRule{{Name: "user", Create: false}, {Name: "provided", Create: true}}
	}
	via := "event"
	if c.chance(0.3) {
		via = "direct"
	}
	emit(map[string]interface{}{"op": "reload", "via": via, "conf": confToJSON(conf), "pad": d.pad, "kind": "flip-scenario"})
	if d.core.s == nil {
		return
	}
	if q := d.core.s.part.GetQueue(parent); q == nil || !q.IsLeafQueue() {
		c.stat("flip-scenario:not-flipped")
		return
	}
	c.stat("flip-scenario:flipped")
	n := 2 + c.pick(3)
	for i := 0; i < n && d.core.s != nil; i++ {
		ch := c.one(children)
		switch c.pick(5) {
		case 0, 1:
			submit(ch, nil)
		case 2:
			submit(c.one([]string{"", "root.nosuch"}), map[string]string{"namespace": ch})
		case 3:
			submit(ch+".new", nil)
		default:
			submit(parent, nil)
		}
		c.stat("flip-scenario:submission")
	}
}

var rlDynQueues = []string{"root.dyn1", "root.b.dyn2", "root.c.dyn3", "root.c.sub.leaf", "root.e.e1.dyn4", "root.a.x", "root.dyn1.deep"}

func reloadHistory(c *Ctx, d *reloadDrv) {
	s := &shimSim{c: c, d: d.core, nodes: map[string]bool{}, apps: map[string]bool{}, asks: map[string]*shimAsk{}, bound: map[string]string{}, foreign: map[string]string{}, gang: map[string]bool{}}
	emit := func(op map[string]interface{}) { d.applyWithTap(op, s.absorb) }
	d.dropped = nil
	d.pad = 0
	deny := []string{}
	for i := 0; i < 4; i++ {
		if c.chance(0.5) {
			deny = append(deny, fmt.Sprintf("k%d|n%d", 1+c.pick(30), 1+c.pick(3)))
		}
	}
	for try := 0; ; try++ {
		conf := c.rlInitial()
		if _, err := configs.LoadSchedulerConfigFromByteArray([]byte(confYAML(conf, 0))); err != nil {
			c.stat("initial-config-rejected")
			if try < 20 {
				continue
			}
		}
		d.apply(map[string]interface{}{"op": "reset", "conf": confToJSON(conf), "pad": 0, "deny": strings.Join(deny, " ")})
		break
	}
	if d.core.s == nil {
		return
	}
	// a node or two, a few applications in configured and dynamic queues with asks, a scheduling cycle
	nn := 1 + c.pick(3)
	for i := 1; i <= nn; i++ {
		capacity := resources.NewResourceFromMap(map[string]resources.Quantity{"cpu": resources.Quantity(8 + c.pick(16)), "mem": resources.Quantity(8 + c.pick(16))})
		id := fmt.Sprintf("n%d", i)
		emit(map[string]interface{}{"op": "node", "id": id, "action": "create", "res": encRes(capacity)})
		s.nodes[id] = true
	}
	nops := 25 + c.pick(45)
	for j := 0; j < nops; j++ {
		apps := sortedKeys(s.apps)
		nodes := sortedKeys(s.nodes)
		switch p := c.pick(100); {
		case p < 16 || len(apps) == 0:
			if len(s.appList) >= 8 {
				break
			}
			id := fmt.Sprintf("app-%d", len(s.appList)+1)
			var q string
			draining, leafs := d.liveQueues()
			switch {
			case len(draining) > 0 && c.chance(0.35):
				q = c.one(draining)
				c.stat("submit-to-draining")
			case c.chance(0.3):
				q = c.one(rlDynQueues)
			case c.chance(0.1):
				q = c.one([]string{"root.b", "root.nosuch.q", "root", "root.e.e1"})
			case len(leafs) > 0:
				q = c.one(leafs)
			default:
				q = c.one(rlDynQueues)
			}
			op := map[string]interface{}{"op": "app-add", "id": id, "queue": q, "user": c.one(rlUsers), "groups": "dev"}
			if c.chance(0.15) {
				ph := resources.NewResource()
				ph.Resources["cpu"] = resources.Quantity(2 + c.pick(6))
				op["phAsk"] = encRes(ph)
				op["style"] = c.one([]string{"Soft", "Hard"})
				op["timeout"] = 3600000
				s.gang[id] = true
			}
			emit(op)
			s.appList = append(s.appList, id)
			s.apps[id] = true
		case p < 36:
			app := s.pickFrom(apps)
			key := s.newKey("k")
			ask := &shimAsk{app: app, key: key, res: s.askRes()}
			if c.chance(0.3) {
				// asks that do not fit right away: they get reserved (reservation delay 0) and stay pending across reloads
				ask.res.Resources["cpu"] = resources.Quantity(9 + c.pick(12))
			}
			op := map[string]interface{}{"op": "alloc", "app": app, "key": key, "res": encRes(ask.res), "ctime": s.seq, "prio": c.pick(3), "preemptOther": c.chance(0.5)}
			if s.gang[app] && c.chance(0.6) {
				ask.tg = "tg-1"
				op["tg"] = ask.tg
				if c.chance(0.6) {
					ask.ph = true
					op["ph"] = true
				}
			}
			emit(op)
			s.asks[key] = ask
		case p < 52:
			emit(map[string]interface{}{"op": "schedule"})
		case p < 58:
			keys := []string{}
			for k := range s.asks {
				keys = append(keys, k)
			}
			sort.Strings(keys)
			if len(keys) > 0 {
				k := s.pickFrom(keys)
				emit(map[string]interface{}{"op": "release", "app": s.asks[k].app, "key": k, "type": "STOPPED_BY_RM"})
				delete(s.asks, k)
				delete(s.bound, k)
			}
		case p < 63:
			if len(apps) > 0 {
				id := s.pickFrom(apps)
				emit(map[string]interface{}{"op": "app-remove", "id": id})
				delete(s.apps, id)
				for k, a := range s.asks {
					if a.app == id {
						delete(s.asks, k)
						delete(s.bound, k)
					}
				}
			}
		case p < 65:
			if len(nodes) > 0 && len(nodes) < 3 {
				id := fmt.Sprintf("n%d", len(nodes)+1)
				capacity := resources.NewResourceFromMap(map[string]resources.Quantity{"cpu": resources.Quantity(8 + c.pick(16)), "mem": resources.Quantity(8 + c.pick(16))})
				emit(map[string]interface{}{"op": "node", "id": id, "action": "create", "res": encRes(capacity)})
				s.nodes[id] = true
			}
		case p < 67:
			if len(s.appList) > 0 {
				emit(map[string]interface{}{"op": "state-timeout", "app": s.pickFrom(s.appList)})
			}
		case p < 75:
			emit(map[string]interface{}{"op": "clean"})
		case p < 79:
			d.drainScenario(s, emit)
		case p < 83:
			d.flipScenario(s, emit)
		default:
			if c.chance(0.5) {
				// a scheduling cycle right before the update: allocations and reservations are fresh
				emit(map[string]interface{}{"op": "schedule"})
			}
			emit(d.genReload())
			if c.chance(0.4) {
				// do the applications of every kind of leaf still get their asks allocated after this update?
				d.probes++
				emit(map[string]interface{}{"op": "probe", "n": d.probes})
			}
		}
		for len(s.pendConf) > 0 && c.chance(0.7) {
			conf := s.pendConf[0]
			s.pendConf = s.pendConf[1:]
			delete(s.asks, conf["key"].(string))
			delete(s.bound, conf["key"].(string))
			emit(conf)
		}
		if d.core.s == nil {
			return
		}
	}
	// drain: everything the history submitted leaves; the cleaner then removes what the configuration no longer names
	if c.chance(0.5) {
		for len(s.pendConf) > 0 {
			conf := s.pendConf[0]
			s.pendConf = s.pendConf[1:]
			emit(conf)
		}
		for _, id := range s.appList {
			emit(map[string]interface{}{"op": "app-remove", "id": id})
		}
		for len(s.pendConf) > 0 {
			conf := s.pendConf[0]
			s.pendConf = s.pendConf[1:]
			emit(conf)
		}
		emit(map[string]interface{}{"op": "clean"})
		emit(map[string]interface{}{"op": "clean"})
	}
}

var reloadInputKeys = map[string]bool{"st": true, "msgs": true, "c": true, "out": true, "panic": true, "error": true, "hang": true, "cfg": true, "fresh": true,
	"yaml": true, "valid": true, "invalid": true, "rules": true, "probes": true, "cycles": true, "placed": true}

func runReload(c *Ctx) {
	d := &reloadDrv{c: c, core: &coreDrv{c: c, id: "reload"}}
	defer func() {
		if d.core.s != nil {
			d.core.s.cc.Stop()
		}
	}()
	if replayFile != "" {
		for _, in := range readReplay(replayFile) {
			op := map[string]interface{}{}
			for k, v := range in {
				if !reloadInputKeys[k] {
					op[k] = v
				}
			}
			d.apply(op)
		}
		return
	}
	// -n counts units of 20 histories' worth of lines so that the check shards the run
	hist := c.n / 20
	if hist < 1 {
		hist = 1
	}
	for it := 0; it < hist; it++ {
		reloadHistory(c, d)
	}
}
