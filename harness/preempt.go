package main

// Component "preempt" (C07 victim eligibility, C08 guarantees / no kill without effect).
//
// A "reset" line describes a world: a real queue tree (depth <= 4, every mix of preemption.policy, priority.policy,
// priority.offset, guaranteed and max), real nodes, real applications with bound allocations carrying every flag
// combination, and one ask. Every following line rebuilds that world from scratch, runs ONE entry point of the real
// preemption code on it and records what the code did:
//   elig     Queue.FindEligiblePreemptionVictims + the snapshot arithmetic (GetRemainingGuaranteedResource,
//            GetPreemptableResource before/after Add/RemoveAllocation on the returned snapshots)
//   precond  NewPreemptor(...).CheckPreconditions under chosen delays / last check time
//   try      CheckPreconditions + TryPreemption, without plugin (first node rule) or with a mock predicate plugin
//   reqnode  NewRequiredNodePreemptor(...).tryPreemption (hook)
//   quota    a lowered maximum applied through ApplyConf/UpdateQueueProperties, then TryQuotaPreemption (synchronous hook)

import (
	"bufio"
	"encoding/json"
	"fmt"
	"hash/fnv"
	"io"
	"math"
	"math/rand"
	"os"
	"runtime/debug"
	"sort"
	"strconv"
	"strings"
	"sync"
	"time"

	"github.com/apache/yunikorn-core/pkg/common/configs"
	"github.com/apache/yunikorn-core/pkg/common/resources"
	"github.com/apache/yunikorn-core/pkg/common/security"
	"github.com/apache/yunikorn-core/pkg/plugins"
	"github.com/apache/yunikorn-core/pkg/rmproxy/rmevent"
	"github.com/apache/yunikorn-core/pkg/scheduler/objects"
	"github.com/apache/yunikorn-core/pkg/scheduler/ugm"
	siCommon "github.com/apache/yunikorn-scheduler-interface/lib/go/common"
	"github.com/apache/yunikorn-scheduler-interface/lib/go/si"
)

func init() { components["preempt"] = runPreempt }

type jm = map[string]interface{}

// ---------------------------------------------------------------- the world, rebuilt for every operation

type pWorld struct {
	spec    jm
	queues  []*objects.Queue
	qspecs  []jm
	nodes   []*objects.Node
	apps    map[string]*objects.Application
	allocs  []*objects.Allocation
	aspecs  []jm
	ask     *objects.Allocation
	askApp  *objects.Application
	askQ    *objects.Queue
	handler *relHandler
	now     time.Time
}

// relHandler records the release events sent to the shim
type relHandler struct {
	sync.Mutex
	rel [][]string
}

func (h *relHandler) HandleEvent(ev interface{}) {
	if v, ok := ev.(*rmevent.RMReleaseAllocationEvent); ok {
		keys := []string{}
		for _, r := range v.ReleasedAllocations {
			keys = append(keys, r.AllocationKey+":"+r.TerminationType.String())
		}
		h.Lock()
		h.rel = append(h.rel, keys)
		h.Unlock()
		if v.Channel != nil {
			go func() { v.Channel <- &rmevent.Result{Succeeded: true} }()
		}
	}
}

func arr(v interface{}) []interface{} {
	a, _ := v.([]interface{})
	return a
}

func qConf(m jm, hasChild bool) configs.QueueConfig {
	props := map[string]string{}
	if p, ok := m["props"].(map[string]interface{}); ok {
		for k, v := range p {
			props[k] = jsonStr(v)
		}
	}
	return configs.QueueConfig{Name: jsonStr(m["name"]), Parent: hasChild, Properties: props,
		Resources: configs.Resources{Max: confMap(decRes(m["cmax"])), Guaranteed: confMap(decRes(m["cguar"]))}}
}

func buildWorld(spec jm, askOver jm) *pWorld {
	um := ugm.GetUserManager()
	um.ClearUserTrackers()
	um.ClearGroupTrackers()
	um.ClearConfigLimits()
	w := &pWorld{spec: spec, apps: map[string]*objects.Application{}, handler: &relHandler{}, now: time.Now()}
	aqm := objects.NewAppQueueMapping()
	qs := arr(spec["queues"])
	hasChild := make([]bool, len(qs))
	for _, e := range qs {
		m := e.(map[string]interface{})
		if m["parent"] != nil {
			hasChild[jsonInt(m["parent"])] = true
		}
	}
	for i, e := range qs {
		m := e.(map[string]interface{})
		var parent *objects.Queue
		if m["parent"] != nil {
			parent = w.queues[jsonInt(m["parent"])]
		}
		q, err := objects.NewConfiguredQueue(qConf(m, hasChild[i]), parent, false, aqm)
		if err != nil {
			panic(err)
		}
		w.queues = append(w.queues, q)
		w.qspecs = append(w.qspecs, m)
	}
	total := resources.NewResource()
	for _, e := range arr(spec["nodes"]) {
		m := e.(map[string]interface{})
		cp := decRes(m["cap"])
		n := objects.NewNode(&si.NodeInfo{NodeID: jsonStr(m["id"]), SchedulableResource: toSI(cp)})
		if !jsonBool(m["sched"]) {
			n.SetSchedulable(false)
		}
		total.AddTo(cp)
		w.nodes = append(w.nodes, n)
	}
	w.queues[0].SetMaxResource(total)
	getApp := func(id string, qi int) *objects.Application {
		if a, ok := w.apps[id]; ok {
			return a
		}
		a := objects.NewApplication(&si.AddApplicationRequest{ApplicationID: id, QueueName: w.queues[qi].GetQueuePath(), PartitionName: "default",
			ExecutionTimeoutMilliSeconds: 3600000}, security.UserGroup{User: "u"}, w.handler, "rm")
		a.SetQueue(w.queues[qi])
		w.queues[qi].AddApplication(a)
		aqm.AddAppQueueMapping(id, w.queues[qi])
		w.apps[id] = a
		return a
	}
	base := w.now.Unix()
	for _, e := range arr(spec["allocs"]) {
		m := e.(map[string]interface{})
		qi := int(jsonInt(m["q"]))
		node := w.nodes[jsonInt(m["node"])]
		tags := map[string]string{siCommon.CreationTime: strconv.FormatInt(base-jsonInt(m["ct"]), 10)}
		if jsonBool(m["req"]) {
			tags[siCommon.DomainYuniKorn+siCommon.KeyRequiredNode] = node.NodeID
		}
		sa := &si.Allocation{AllocationKey: jsonStr(m["key"]), ApplicationID: jsonStr(m["app"]), NodeID: node.NodeID,
			ResourcePerAlloc: toSI(decRes(m["res"])), Priority: int32(jsonInt(m["prio"])), AllocationTags: tags, Originator: jsonBool(m["orig"]),
			PreemptionPolicy: &si.PreemptionPolicy{AllowPreemptSelf: jsonBool(m["self"]), AllowPreemptOther: true}}
		if jsonBool(m["ph"]) {
			sa.Placeholder = true
			sa.TaskGroupName = "tg"
		}
		al := objects.NewAllocationFromSI(sa)
		app := getApp(jsonStr(m["app"]), qi)
		if !node.TryAddAllocation(al) {
			panic("generator: allocation does not fit its node: " + jsonStr(m["key"]))
		}
		app.AddAllocation(al)
		w.queues[qi].IncAllocatedResource(al.GetAllocatedResource(), false)
		if jsonBool(m["released"]) {
			if err := al.SetReleased(true); err != nil {
				panic(err)
			}
		}
		if jsonBool(m["preempted"]) {
			if err := al.MarkPreempted(); err != nil {
				panic(err)
			}
			w.queues[qi].IncPreemptingResource(al.GetAllocatedResource())
		}
		w.allocs = append(w.allocs, al)
		w.aspecs = append(w.aspecs, m)
	}
	am := jm{}
	for k, v := range spec["ask"].(map[string]interface{}) {
		am[k] = v
	}
	for k, v := range askOver {
		am[k] = v
	}
	qi := int(jsonInt(am["q"]))
	tags := map[string]string{siCommon.CreationTime: strconv.FormatInt(base-jsonInt(am["age"]), 10)}
	if am["req"] != nil {
		tags[siCommon.DomainYuniKorn+siCommon.KeyRequiredNode] = w.nodes[jsonInt(am["req"])].NodeID
	}
	w.ask = objects.NewAllocationFromSI(&si.Allocation{AllocationKey: jsonStr(am["key"]), ApplicationID: jsonStr(am["app"]),
		ResourcePerAlloc: toSI(decRes(am["res"])), Priority: int32(jsonInt(am["prio"])), AllocationTags: tags,
		PreemptionPolicy: &si.PreemptionPolicy{AllowPreemptSelf: jsonBool(am["self"]), AllowPreemptOther: jsonBool(am["other"])}})
	w.askApp = getApp(jsonStr(am["app"]), qi)
	w.askQ = w.queues[qi]
	if err := w.askApp.AddAllocationAsk(w.ask); err != nil {
		panic(err)
	}
	if jsonBool(am["triggered"]) {
		w.ask.MarkTriggeredPreemption()
	}
	return w
}

type sliceIter struct{ nodes []*objects.Node }

func (s *sliceIter) ForEachNode(f func(*objects.Node) bool) {
	for _, n := range s.nodes {
		if !f(n) {
			return
		}
	}
}

func secs(d time.Duration) int64 { return int64(d / time.Second) }

// dump of the world as the real objects hold it (the model is fed with these effective values)
func (w *pWorld) dump() jm {
	qs := []jm{}
	for i, q := range w.queues {
		pp, off := q.GetPriorityPolicyAndOffset()
		var parent interface{}
		if w.qspecs[i]["parent"] != nil {
			parent = jsonInt(w.qspecs[i]["parent"])
		}
		qs = append(qs, jm{"path": q.GetQueuePath(), "parent": parent, "leaf": q.IsLeafQueue(), "max": encRes(q.VerifMaxResourceRaw()), "effMax": encRes(q.GetMaxResource()),
			"guar": encRes(q.GetGuaranteedResource()), "alloc": encRes(q.GetAllocatedResource()), "preempting": encRes(q.GetPreemptingResource()),
			"ppol": q.GetPreemptionPolicy().String(), "prpol": pp.String(), "off": off, "delay": secs(q.GetPreemptionDelay()), "managed": q.IsManaged()})
	}
	ns := []jm{}
	for _, n := range w.nodes {
		ns = append(ns, jm{"id": n.NodeID, "avail": encRes(n.GetAvailableResource()), "cap": encRes(n.GetCapacity()), "sched": n.IsSchedulable()})
	}
	return jm{"queues": qs, "nodes": ns}
}

func (w *pWorld) preemptedNow() map[string]bool {
	out := map[string]bool{}
	for _, a := range w.allocs {
		if a.IsPreempted() {
			out[a.GetAllocationKey()] = true
		}
	}
	return out
}

// what an operation changed: newly marked / unmarked allocations, release events, preempting per queue
func (w *pWorld) effects(line jm) {
	marked, unmarked := []string{}, []string{}
	for i, a := range w.allocs {
		was := jsonBool(w.aspecs[i]["preempted"])
		if a.IsPreempted() && !was {
			marked = append(marked, a.GetAllocationKey())
		}
		if !a.IsPreempted() && was {
			unmarked = append(unmarked, a.GetAllocationKey())
		}
	}
	sort.Strings(marked)
	sort.Strings(unmarked)
	line["marked"] = marked
	line["unmarked"] = unmarked
	preAfter, relAfter := []string{}, []string{}
	for _, a := range w.allocs {
		if a.IsPreempted() {
			preAfter = append(preAfter, a.GetAllocationKey())
		}
		if a.IsReleased() {
			relAfter = append(relAfter, a.GetAllocationKey())
		}
	}
	sort.Strings(preAfter)
	sort.Strings(relAfter)
	line["preemptedAfter"] = preAfter
	line["releasedAfter"] = relAfter
	w.handler.Lock()
	rel := [][]string{}
	for _, r := range w.handler.rel {
		c := append([]string{}, r...)
		sort.Strings(c)
		rel = append(rel, c)
	}
	w.handler.Unlock()
	sort.Slice(rel, func(i, j int) bool { return fmt.Sprint(rel[i]) < fmt.Sprint(rel[j]) })
	line["rel"] = rel
	pre := []interface{}{}
	for _, q := range w.queues {
		pre = append(pre, encRes(q.GetPreemptingResource()))
	}
	line["preemptingAfter"] = pre
}

func keysOf(l []*objects.Allocation, sorted bool) []string {
	out := []string{}
	for _, a := range l {
		out = append(out, a.GetAllocationKey())
	}
	if sorted {
		sort.Strings(out)
	}
	return out
}

func encSnaps(snaps map[string]*objects.QueuePreemptionSnapshot) interface{} {
	if snaps == nil {
		return nil
	}
	paths := []string{}
	for p := range snaps {
		paths = append(paths, p)
	}
	sort.Strings(paths)
	out := []jm{}
	for _, p := range paths {
		s := snaps[p]
		var parent interface{}
		if s.Parent != nil {
			parent = s.Parent.QueuePath
		}
		var askq interface{}
		if s.AskQueue != nil {
			askq = s.AskQueue.QueuePath
		}
		out = append(out, jm{"key": p, "path": s.QueuePath, "parent": parent, "leaf": s.Leaf, "alloc": encRes(s.AllocatedResource), "preempting": encRes(s.PreemptingResource),
			"max": encRes(s.MaxResource), "guar": encRes(s.GuaranteedResource), "victims": keysOf(s.PotentialVictims, true), "askq": askq,
			"rem": encRes(s.GetRemainingGuaranteedResource()), "pre": encRes(s.GetPreemptableResource())})
	}
	return out
}

// mock predicate plugin for preemption: per node {ok, extra}; records the checks it was asked
type prePlugin struct {
	sync.Mutex
	table  map[string]jm
	checks []jm
}

func (p *prePlugin) UpdateAllocation(*si.AllocationResponse) error   { return nil }
func (p *prePlugin) UpdateApplication(*si.ApplicationResponse) error { return nil }
func (p *prePlugin) UpdateNode(*si.NodeResponse) error               { return nil }
func (p *prePlugin) Predicates(args *si.PredicatesArgs) error {
	p.Lock()
	defer p.Unlock()
	p.checks = append(p.checks, jm{"node": args.NodeID, "keys": []string{}, "start": -1})
	if t, ok := p.table[args.NodeID]; ok && jsonBool(t["ok"]) {
		return nil
	}
	return fmt.Errorf("denied")
}
func (p *prePlugin) PreemptionPredicates(args *si.PreemptionPredicatesArgs) *si.PreemptionPredicatesResponse {
	p.Lock()
	defer p.Unlock()
	p.checks = append(p.checks, jm{"node": args.NodeID, "keys": append([]string{}, args.PreemptAllocationKeys...), "start": args.StartIndex})
	t, ok := p.table[args.NodeID]
	if !ok || !jsonBool(t["ok"]) {
		return &si.PreemptionPredicatesResponse{Success: false, Index: -1}
	}
	idx := int(args.StartIndex) + int(jsonInt(t["extra"]))
	if idx > len(args.PreemptAllocationKeys)-1 && !jsonBool(t["over"]) {
		idx = len(args.PreemptAllocationKeys) - 1
	}
	return &si.PreemptionPredicatesResponse{Success: true, Index: int32(idx)}
}
func (p *prePlugin) SendEvent([]*si.EventRecord)                                              {}
func (p *prePlugin) UpdateContainerSchedulingState(*si.UpdateContainerSchedulingStateRequest) {}

type preemptDrv struct {
	c    *Ctx
	spec jm
	last jm // the line of the last operation
}

// dry runs an operation on a fresh copy of the world without recording it (no line, no statistics) and returns its line
func (d *preemptDrv) dry(op jm) jm {
	saved := d.c
	d.c = &Ctx{rng: saved.rng, stats: map[string]int{}, out: bufio.NewWriter(io.Discard), n: saved.n, tier: saved.tier}
	defer func() { d.c = saved }()
	d.last = nil
	d.apply(op)
	return d.last
}

func (d *preemptDrv) apply(op jm) {
	op = norm(op)
	c := d.c
	name := jsonStr(op["op"])
	line := jm{"c": "preempt"}
	for k, v := range op {
		line[k] = v
	}
	d.last = line
	c.stat("op:" + name)
	defer func() {
		if r := recover(); r != nil {
			line["panic"] = fmt.Sprint(r)
			if os.Getenv("YKH_TRACE") != "" {
				debug.PrintStack()
			}
			c.stat("panic")
			c.emit(line)
		}
	}()
	if name == "reset" {
		d.spec = op
		w := buildWorld(d.spec, nil)
		line["st"] = w.dump()
		c.emit(line)
		return
	}
	var over jm
	if o, ok := op["ask"].(map[string]interface{}); ok {
		over = o
	}
	w := buildWorld(d.spec, over)
	switch name {
	case "elig":
		snaps := w.askQ.FindEligiblePreemptionVictims(w.askQ.GetQueuePath(), w.ask)
		line["snaps"] = encSnaps(snaps)
		if snaps != nil {
			c.stat("elig-snaps")
			nv := 0
			for _, s := range snaps {
				nv += len(s.PotentialVictims)
			}
			if nv > 0 {
				c.stat("elig-with-victims")
			}
		}
		// snapshot arithmetic on duplicates of the returned snapshots
		steps := []jm{}
		if snaps != nil {
			dup := map[string]*objects.QueuePreemptionSnapshot{}
			for _, s := range snaps {
				s.Duplicate(dup)
			}
			for _, e := range arr(op["steps"]) {
				m := e.(map[string]interface{})
				st := jm{"path": m["path"], "kind": m["kind"], "res": m["res"]}
				if s, ok := dup[jsonStr(m["path"])]; ok {
					if jsonStr(m["kind"]) == "add" {
						s.AddAllocation(decRes(m["res"]))
					} else {
						s.RemoveAllocation(decRes(m["res"]))
					}
					st["snaps"] = encSnaps(dup)
				}
				steps = append(steps, st)
			}
		}
		line["stepsOut"] = steps
	case "precond":
		old := objects.VerifSetPreemptAttemptFrequency(time.Duration(jsonInt(op["freq"])) * time.Second)
		defer objects.VerifSetPreemptAttemptFrequency(old)
		if jsonBool(op["checked"]) {
			w.ask.UpdatePreemptCheckTime()
		}
		before := w.ask.GetPreemptCheckTime()
		p := objects.NewPreemptor(w.askApp, resources.NewResource(), time.Duration(jsonInt(op["delay"]))*time.Second, w.ask, &sliceIter{w.nodes}, false)
		out := p.CheckPreconditions()
		line["out"] = out
		line["checkTimeUpdated"] = w.ask.GetPreemptCheckTime().After(before)
		if out {
			c.stat("precond-true")
		} else {
			c.stat("precond-false")
		}
	case "try":
		plugins.UnregisterSchedulerPlugins()
		var pl *prePlugin
		if t, ok := op["plugin"].(map[string]interface{}); ok {
			pl = &prePlugin{table: map[string]jm{}, checks: []jm{}}
			for k, v := range t {
				pl.table[k] = v.(map[string]interface{})
			}
			plugins.RegisterSchedulerPlugin(pl)
			defer plugins.UnregisterSchedulerPlugins()
		}
		p := objects.NewPreemptor(w.askApp, resources.NewResource(), w.askQ.GetPreemptionDelay(), w.ask, &sliceIter{w.nodes}, jsonBool(op["nodesTried"]))
		pre := p.CheckPreconditions()
		line["pre"] = pre
		ok := false
		node := ""
		// "lateRelease": allocations that are released (placeholder replaced / timed out: SetReleased(true)) AFTER the victims
		// were collected and BEFORE TryPreemption marks its final victims
		if late := arr(op["lateRelease"]); late != nil && pre {
			p.VerifInitQueueSnapshots()
			done := []string{}
			for _, k := range late {
				for _, a := range w.allocs {
					if a.GetAllocationKey() == jsonStr(k) && a.SetReleased(true) == nil {
						done = append(done, a.GetAllocationKey())
					}
				}
			}
			sort.Strings(done)
			line["lateReleased"] = done
			c.stat("try-late-release")
		}
		if pre {
			res, ok2 := p.TryPreemption()
			ok = ok2
			if res != nil {
				node = res.NodeID
				line["resultType"] = res.ResultType.String()
				line["resultKey"] = res.Request.GetAllocationKey()
			}
			if ok {
				c.stat("try-commit")
			} else {
				c.stat("try-abort")
			}
		} else {
			c.stat("try-precond-false")
		}
		line["ok"] = ok
		line["node"] = node
		line["trig"] = w.ask.HasTriggeredPreemption()
		askLog := []string{}
		for _, e := range w.ask.GetAllocationLog() {
			askLog = append(askLog, e.Message)
		}
		sort.Strings(askLog)
		line["askLog"] = askLog
		if pl != nil {
			sort.Slice(pl.checks, func(i, j int) bool { return jsonStr(pl.checks[i]["node"]) < jsonStr(pl.checks[j]["node"]) })
			line["checks"] = pl.checks
		}
		w.effects(line)
		if len(line["marked"].([]string)) > 0 {
			c.stat("try-marked")
		}
	case "reqnode":
		node := w.nodes[jsonInt(op["node"])]
		p := objects.NewRequiredNodePreemptor(node, w.ask, w.askApp)
		cands := p.VerifTryPreemption()
		line["cands"] = keysOf(cands, false)
		line["trig"] = w.ask.HasTriggeredPreemption()
		w.effects(line)
		if len(line["marked"].([]string)) > 0 {
			c.stat("reqnode-marked")
		}
	case "quota":
		qi := int(jsonInt(op["q"]))
		q := w.queues[qi]
		hasChild := !q.IsLeafQueue()
		conf := qConf(w.qspecs[qi], hasChild)
		conf.Resources.Max = confMap(decRes(op["max"]))
		if conf.Properties == nil {
			conf.Properties = map[string]string{}
		}
		if d := jsonStr(op["delay"]); d != "" {
			conf.Properties[configs.QuotaPreemptionDelay] = d
		}
		oldMax, err := q.ApplyConf(conf)
		if err != nil {
			panic(err)
		}
		q.UpdateQueueProperties(oldMax)
		if jsonBool(op["wait"]) {
			time.Sleep(3 * time.Millisecond)
		}
		_, startSet := q.VerifQuotaPreemptionState()
		line["startSet"] = startSet
		line["newMax"] = encRes(q.VerifMaxResourceRaw())
		// what the preemption would plan (pure); a panic here is a panic of the real planning code
		func() {
			defer func() {
				if r := recover(); r != nil {
					line["planPanic"] = fmt.Sprint(r)
					c.stat("quota-plan-panic")
				}
			}()
			top, plan := q.VerifQuotaPreemptable()
			line["top"] = encRes(top)
			pl := []interface{}{}
			paths := []string{}
			for p := range plan {
				paths = append(paths, p)
			}
			sort.Strings(paths)
			for _, p := range paths {
				pl = append(pl, []interface{}{p, encRes(plan[p])})
			}
			line["plan"] = pl
		}()
		if op["lateRelease"] != nil {
			// "lateRelease": the quota preemption is run step by step (hook); the allocations named here are released
			// (SetReleased(true)) AFTER filterAllocations / sortAllocations of their leaf queue listed them and BEFORE
			// preemptVictims marks its victims. "cands" records the filtered, sorted allocations per leaf queue.
			late := map[string]bool{}
			for _, k := range arr(op["lateRelease"]) {
				late[jsonStr(k)] = true
			}
			cands := []interface{}{}
			done := []string{}
			w.queues[0].VerifTryQuotaPreemptionSyncStepped(func(leaf string, filtered []*objects.Allocation) {
				cands = append(cands, []interface{}{leaf, keysOf(filtered, false)})
				for _, a := range filtered {
					if late[a.GetAllocationKey()] && a.SetReleased(true) == nil {
						done = append(done, a.GetAllocationKey())
					}
				}
			})
			sort.Slice(cands, func(i, j int) bool {
				return cands[i].([]interface{})[0].(string) < cands[j].([]interface{})[0].(string)
			})
			sort.Strings(done)
			line["cands"] = cands
			line["lateReleased"] = done
			c.stat("quota-stepped")
			if len(done) > 0 {
				c.stat("quota-late-release")
			}
		} else {
			w.queues[0].VerifTryQuotaPreemptionSync()
		}
		running, startAfter := q.VerifQuotaPreemptionState()
		line["runningAfter"] = running
		line["startAfter"] = startAfter
		w.effects(line)
		if len(line["marked"].([]string)) > 0 {
			c.stat("quota-marked")
		}
	case "quotaseq":
		// a history of configuration updates of one queue (maximum and quota.preemption.delay), clock advances and
		// quota preemption attempts; after every step: is a start time scheduled, how far away is it, did it fire
		qi := int(jsonInt(op["q"]))
		q := w.queues[qi]
		hasChild := !q.IsLeafQueue()
		trace := []jm{}
		for _, e := range arr(op["steps"]) {
			st := e.(map[string]interface{})
			ent := jm{}
			switch jsonStr(st["kind"]) {
			case "conf":
				conf := qConf(w.qspecs[qi], hasChild)
				conf.Resources.Max = confMap(decRes(st["max"]))
				if conf.Properties == nil {
					conf.Properties = map[string]string{}
				}
				if d := jsonStr(st["delay"]); d != "" {
					conf.Properties[configs.QuotaPreemptionDelay] = d
				}
				oldMax, err := q.ApplyConf(conf)
				if err != nil {
					panic(err)
				}
				q.UpdateQueueProperties(oldMax)
			case "advance":
				for _, x := range w.queues {
					x.VerifAdvanceQuotaPreemptionClock(time.Duration(jsonInt(st["sec"])) * time.Second)
				}
			case "try":
				before := !q.VerifQuotaPreemptionStart().IsZero()
				w.queues[0].VerifTryQuotaPreemptionSync()
				fired := before && q.VerifQuotaPreemptionStart().IsZero()
				ent["fired"] = fired
				if fired {
					c.stat("quotaseq-fired")
				}
			default:
				panic("unknown step")
			}
			t := q.VerifQuotaPreemptionStart()
			ent["startSet"] = !t.IsZero()
			if !t.IsZero() {
				ent["rem"] = int64(math.Round(time.Until(t).Seconds()))
				c.stat("quotaseq-scheduled")
			}
			ent["max"] = encRes(q.VerifMaxResourceRaw())
			trace = append(trace, ent)
		}
		line["trace"] = trace
		w.effects(line)
	default:
		panic("unknown op " + name)
	}
	c.emit(line)
}

// ---------------------------------------------------------------- generator

// genQuotaSteps: 3..8 steps over one queue with the given usage: configuration updates (maximum high above the usage,
// below it, lowered again, raised again, incomparable, removed; delay removed, 10m..2h, larger / smaller / equal),
// clock advances and attempts
func (c *Ctx) genQuotaSteps(usage *resources.Resource) []interface{} {
	keys := []string{}
	for _, k := range pKeys {
		if usage.Resources[k] >= 3 {
			keys = append(keys, k)
		}
	}
	mk := func(f func(k string, u int64) int64) interface{} {
		r := resources.NewResource()
		for _, k := range keys {
			if v := f(k, int64(usage.Resources[k])); v > 0 {
				r.Resources[k] = resources.Quantity(v)
			}
		}
		if len(r.Resources) == 0 {
			r.Resources["cpu"] = 1
		}
		return encRes(r)
	}
	high := mk(func(k string, u int64) int64 { return u + 5 })
	lowA := mk(func(k string, u int64) int64 { return u - 1 })
	lowB := mk(func(k string, u int64) int64 { return u - 2 })
	first := ""
	if len(keys) > 0 {
		first = keys[0]
	}
	incomp := mk(func(k string, u int64) int64 {
		if k == first {
			return u - 2
		}
		return u
	})
	if len(keys) < 2 {
		incomp = lowB
	}
	maxes := []interface{}{high, lowA, lowB, lowA, lowB, incomp, nil}
	delays := []string{"", "10m", "10m", "30m", "1h", "2h"}
	steps := []interface{}{jm{"kind": "conf", "max": high, "delay": delays[c.pick(len(delays))]}}
	n := 2 + c.pick(6)
	for i := 0; i < n; i++ {
		switch p := c.pick(10); {
		case p < 5:
			steps = append(steps, jm{"kind": "conf", "max": maxes[c.pick(len(maxes))], "delay": delays[c.pick(len(delays))]})
		case p < 8:
			steps = append(steps, jm{"kind": "advance", "sec": []int{0, 300, 600, 1200, 1800, 3600, 7200, 20000}[c.pick(8)]})
		default:
			steps = append(steps, jm{"kind": "try"})
		}
	}
	steps = append(steps, jm{"kind": "try"})
	return steps
}

var pKeys = []string{"cpu", "mem", "gpu"}

func (c *Ctx) posVec(lo, hi int, pGpu float64, sparse float64) *resources.Resource {
	r := resources.NewResource()
	for _, k := range pKeys[:2] {
		if !c.chance(sparse) {
			r.Resources[k] = resources.Quantity(lo + c.pick(hi-lo+1))
		}
	}
	if c.chance(pGpu) {
		r.Resources["gpu"] = resources.Quantity(1 + c.pick(3))
	}
	if len(r.Resources) == 0 {
		r.Resources[pKeys[c.pick(2)]] = resources.Quantity(lo + c.pick(hi-lo+1))
	}
	return r
}

// spell writes a property value in mixed case now and then (the conversions are case-insensitive)
func (c *Ctx) spell(v string) string {
	switch p := c.pick(10); {
	case p < 6:
		return v
	case p < 8:
		return strings.ToUpper(v[:1]) + v[1:]
	case p < 9:
		return strings.ToUpper(v)
	default:
		return v[:len(v)-1] + strings.ToUpper(v[len(v)-1:])
	}
}

var qNames = []string{"a", "ab", "b", "a1", "c"}

// limitWorld: preemption driven by a queue limit, not by node space: roomy nodes, a parent with a tight maximum, a victim
// leaf that is over its guarantee by less than one victim with several small victims, and an ask in an under-guaranteed
// sibling that is larger than one victim (victims then come from calculateAdditionalVictims one by one).
func limitWorld(c *Ctx) jm {
	v := 1 + c.pick(3)
	k := 2 + c.pick(3)
	usage := k * v
	g1 := usage - 1 - c.pick(v)
	if g1 < 1 {
		g1 = 1
	}
	askSize := v + 1 + c.pick(v)
	cpu := func(n int) interface{} {
		return encRes(resources.NewResourceFromMap(map[string]resources.Quantity{"cpu": resources.Quantity(n)}))
	}
	queues := []interface{}{
		jm{"name": "root", "parent": nil, "cmax": nil, "cguar": nil, "props": jm{}},
		jm{"name": "p", "parent": 0, "cmax": cpu(usage + 1 + c.pick(3)), "cguar": nil, "props": jm{}},
		jm{"name": "a", "parent": 1, "cmax": nil, "cguar": cpu(g1), "props": jm{}},
		jm{"name": "b", "parent": 1, "cmax": nil, "cguar": cpu(askSize + c.pick(3)), "props": jm{}},
	}
	nn := 1 + c.pick(3)
	nodes := []interface{}{}
	for i := 0; i < nn; i++ {
		nodes = append(nodes, jm{"id": fmt.Sprintf("n%d", i), "cap": cpu(20 + c.pick(20)), "sched": true})
	}
	allocs := []interface{}{}
	for i := 0; i < k; i++ {
		allocs = append(allocs, jm{"key": fmt.Sprintf("v%02d", i), "app": fmt.Sprintf("app-2-%d", c.pick(2)), "q": 2, "node": c.pick(nn), "res": cpu(v),
			"prio": c.pick(3), "released": false, "preempted": false, "req": false, "ph": false, "self": true, "orig": false, "ct": 2 + 2*i})
	}
	ask := jm{"key": "ask-0", "app": "app-3-0", "q": 3, "res": cpu(askSize), "prio": 2 + c.pick(3),
		"other": true, "self": c.chance(0.5), "req": nil, "age": 400, "triggered": false}
	return jm{"op": "reset", "queues": queues, "nodes": nodes, "allocs": allocs, "ask": ask}
}

func genWorld(c *Ctx) jm {
	if c.chance(0.06) {
		return limitWorld(c)
	}
	// 4% of the worlds use priorities from the edges of int32 (a priority gap may exceed MaxInt32)
	extremePrio := c.chance(0.04)
	prioOf := func(p int) int {
		if extremePrio && c.chance(0.5) {
			return []int{-2147483648, -2147483647, 2147483647, 2147483646, -1073741824, 1073741824}[c.pick(6)]
		}
		return p
	}
	// queue tree
	type gq struct {
		name   string
		parent int
		depth  int
		kids   int
	}
	qs := []gq{{"root", -1, 1, 0}}
	nq := 3 + c.pick(7)
	for len(qs) < nq {
		p := c.pick(len(qs))
		if c.chance(0.4) {
			p = len(qs) - 1
		}
		if qs[p].depth >= 4 || qs[p].kids >= len(qNames) {
			continue
		}
		// distinct sibling names, prefixes of each other on purpose
		used := map[string]bool{}
		for _, q := range qs {
			if q.parent == p {
				used[q.name] = true
			}
		}
		nm := qNames[c.pick(len(qNames))]
		if used[nm] {
			continue
		}
		qs[p].kids++
		qs = append(qs, gq{nm, p, qs[p].depth + 1, 0})
	}
	leaves := []int{}
	for i, q := range qs {
		if q.kids == 0 && i > 0 {
			leaves = append(leaves, i)
		}
	}
	askQ := leaves[c.pick(len(leaves))]
	onAskPath := map[int]bool{}
	for i := askQ; i >= 0; i = qs[i].parent {
		onAskPath[i] = true
	}
	queues := []interface{}{}
	for i, q := range qs {
		m := jm{"name": q.name, "parent": nil, "cmax": nil, "cguar": nil}
		props := jm{}
		if i > 0 {
			m["parent"] = q.parent
			if onAskPath[i] {
				if c.chance(0.7) {
					m["cguar"] = encRes(c.posVec(8, 40, 0.15, 0.2))
				}
			} else if c.chance(0.5) {
				m["cguar"] = encRes(c.posVec(1, 8, 0.1, 0.3))
			}
			switch p := c.pick(10); {
			case p < 5:
			case p < 8:
				m["cmax"] = encRes(c.posVec(20, 80, 0.2, 0.3))
			default:
				m["cmax"] = encRes(c.posVec(3, 14, 0.2, 0.3))
			}
			switch p := c.pick(20); {
			case p < 11:
			case p < 15:
				props[configs.PreemptionPolicy] = c.spell("fence")
			case p < 18:
				props[configs.PreemptionPolicy] = c.spell("disabled")
			default:
				props[configs.PreemptionPolicy] = c.spell("default")
			}
			if c.chance(0.3) {
				props[configs.PriorityPolicy] = c.spell("fence")
			} else if c.chance(0.05) {
				props[configs.PriorityPolicy] = c.spell("default")
			}
			if c.chance(0.45) {
				props[configs.PriorityOffset] = strconv.Itoa(c.pick(7) - 3)
			}
			// a delay on a parent is inherited by the leaves below it
			if (q.kids == 0 && c.chance(0.5)) || (q.kids > 0 && c.chance(0.25)) {
				props[configs.PreemptionDelay] = []string{"10s", "60s", "300s"}[c.pick(3)]
			}
		} else {
			// the root: offsets count on the way up; policies are handed down (filtered) to every queue
			if c.chance(0.2) {
				props[configs.PriorityOffset] = strconv.Itoa(c.pick(5) - 2)
			}
			if c.chance(0.04) {
				props[configs.PreemptionPolicy] = c.spell("disabled")
			} else if c.chance(0.05) {
				props[configs.PreemptionPolicy] = c.spell("fence")
			}
			if c.chance(0.05) {
				props[configs.PriorityPolicy] = c.spell("fence")
			}
			if c.chance(0.1) {
				props[configs.PreemptionDelay] = []string{"10s", "60s"}[c.pick(2)]
			}
		}
		m["props"] = props
		queues = append(queues, m)
	}
	// nodes
	nn := 1 + c.pick(6)
	nodes := []interface{}{}
	free := []*resources.Resource{}
	// 25% of the worlds have roomy nodes: the ask fits in the free space, preemption is driven by queue limits and the
	// victims come from calculateAdditionalVictims
	roomy := c.chance(0.25)
	for i := 0; i < nn; i++ {
		cp := resources.NewResource()
		cp.Resources["cpu"] = resources.Quantity(6 + c.pick(11))
		cp.Resources["mem"] = resources.Quantity(6 + c.pick(11))
		if roomy {
			cp.Resources["cpu"] += resources.Quantity(30 + c.pick(30))
			cp.Resources["mem"] += resources.Quantity(30 + c.pick(30))
		}
		if c.chance(0.4) {
			cp.Resources["gpu"] = resources.Quantity(1 + c.pick(4))
		}
		nodes = append(nodes, jm{"id": fmt.Sprintf("n%d", i), "cap": encRes(cp), "sched": !c.chance(0.1)})
		free = append(free, cp.Clone())
	}
	// allocations
	allocs := []interface{}{}
	na := 3 + c.pick(14)
	for i := 0; i < na; i++ {
		q := leaves[c.pick(len(leaves))]
		res := c.posVec(1, 6, 0.12, 0.15)
		// find a node with room (first fit from a random start)
		start := c.pick(nn)
		node := -1
		for j := 0; j < nn; j++ {
			k := (start + j) % nn
			if free[k].FitIn(res) {
				node = k
				break
			}
		}
		if node < 0 {
			continue
		}
		free[node].SubFrom(res)
		m := jm{"key": fmt.Sprintf("v%02d", i), "app": fmt.Sprintf("app-%d-%d", q, c.pick(2)), "q": q, "node": node, "res": encRes(res),
			"prio": prioOf(c.pick(8) - 2), "released": false, "preempted": false, "req": c.chance(0.08), "ph": c.chance(0.1),
			"self": c.chance(0.7), "orig": c.chance(0.12), "ct": 2 + 2*i}
		switch p := c.pick(100); {
		case p < 8:
			m["released"] = true
		case p < 16:
			m["preempted"] = true
		}
		allocs = append(allocs, m)
	}
	ask := jm{"key": "ask-0", "app": fmt.Sprintf("app-%d-%d", askQ, c.pick(3)), "q": askQ, "res": encRes(c.posVec(1, 12, 0.1, 0.2)), "prio": prioOf(c.pick(7) - 1),
		"other": !c.chance(0.08), "self": c.chance(0.5), "req": nil, "age": []int{5, 20, 45, 100, 400}[c.pick(5)], "triggered": c.chance(0.06)}
	if c.chance(0.06) {
		ask["req"] = c.pick(nn)
	}
	return jm{"op": "reset", "queues": queues, "nodes": nodes, "allocs": allocs, "ask": ask}
}

// lateQuotaVariants: for a "quota" operation that was just run, the same operation run step by step with 1..2 allocations
// released between the filtering of the candidates and the marking of the victims. A dry run (step by step, nothing
// released) tells which allocations become victims: the keys come from them (two variants when there are several, now
// and then mixed with a candidate that was not selected); an operation without victims gets a variant (30%) that
// releases candidates. Choices come from a generator seeded by the world and the operation (see lateVariants).
func (d *preemptDrv) lateQuotaVariants(op jm) {
	b, err := json.Marshal(jm{"w": d.spec, "op": op})
	if err != nil {
		panic(err)
	}
	h := fnv.New64a()
	h.Write(b)
	rng := rand.New(rand.NewSource(int64(h.Sum64() >> 1)))
	probe := jm{}
	for k, x := range op {
		probe[k] = x
	}
	probe["lateRelease"] = []string{}
	line := d.dry(probe)
	if line == nil || line["panic"] != nil || line["planPanic"] != nil {
		return
	}
	marked, _ := line["marked"].([]string)
	cands := []string{}
	if cl, ok := line["cands"].([]interface{}); ok {
		for _, e := range cl {
			cands = append(cands, e.([]interface{})[1].([]string)...)
		}
	}
	choose := func(from []string, n int) []string {
		idx := rng.Perm(len(from))
		out := []string{}
		for i := 0; i < n && i < len(idx); i++ {
			out = append(out, from[idx[i]])
		}
		return out
	}
	variants := 0
	switch {
	case len(marked) >= 2:
		variants = 2
	case len(marked) == 1:
		variants = 1
	case len(cands) > 0 && rng.Float64() < 0.3:
		variants = 1
	}
	for v := 0; v < variants; v++ {
		n := 1
		if rng.Float64() < 0.4 {
			n = 2
		}
		var keys []string
		if len(marked) > 0 {
			keys = choose(marked, n)
			if rng.Float64() < 0.25 {
				keys = append(keys, choose(cands, 1)...)
			}
		} else {
			keys = choose(cands, n)
		}
		late := jm{}
		for k, x := range op {
			late[k] = x
		}
		late["lateRelease"] = keys
		d.apply(late)
	}
}

// dryTry runs a "try" operation on a fresh copy of the world WITHOUT recording it: did the preconditions pass, which
// allocations were potential victims (in snapshot order) and which were marked (the final victims)
func (d *preemptDrv) dryTry(op jm) (pre bool, potential, marked []string) {
	defer func() {
		if r := recover(); r != nil {
			if os.Getenv("YKH_TRACE") != "" {
				fmt.Fprintln(os.Stderr, "dryTry panic:", r)
			}
			pre, potential, marked = false, nil, nil
		}
	}()
	op = norm(op)
	var over jm
	if o, ok := op["ask"].(map[string]interface{}); ok {
		over = o
	}
	w := buildWorld(d.spec, over)
	plugins.UnregisterSchedulerPlugins()
	if t, ok := op["plugin"].(map[string]interface{}); ok {
		pl := &prePlugin{table: map[string]jm{}, checks: []jm{}}
		for k, v := range t {
			pl.table[k] = v.(map[string]interface{})
		}
		plugins.RegisterSchedulerPlugin(pl)
		defer plugins.UnregisterSchedulerPlugins()
	}
	snaps := w.askQ.FindEligiblePreemptionVictims(w.askQ.GetQueuePath(), w.ask)
	paths := []string{}
	for p := range snaps {
		paths = append(paths, p)
	}
	sort.Strings(paths)
	for _, p := range paths {
		potential = append(potential, keysOf(snaps[p].PotentialVictims, true)...)
	}
	p := objects.NewPreemptor(w.askApp, resources.NewResource(), w.askQ.GetPreemptionDelay(), w.ask, &sliceIter{w.nodes}, jsonBool(op["nodesTried"]))
	pre = p.CheckPreconditions()
	if pre {
		p.TryPreemption()
	}
	for i, a := range w.allocs {
		if a.IsPreempted() && !jsonBool(w.aspecs[i]["preempted"]) {
			marked = append(marked, a.GetAllocationKey())
		}
	}
	sort.Strings(marked)
	return pre, potential, marked
}

// lateVariants: for a "try" operation that was just run, the same operation with 1..2 allocations released between the
// victim collection and the marking of the final victims. The keys come from the final victims of the undisturbed run
// (any position; two variants when there are several), now and then mixed with a potential victim that was not chosen;
// an attempt that marks nothing gets a variant (30%) that releases potential victims / any allocation.
// The choices use a generator of their own, seeded from the world and the operation: the stream of worlds and of the
// other operations is the same with and without these cases.
func (d *preemptDrv) lateVariants(op jm) {
	b, err := json.Marshal(jm{"w": d.spec, "op": op})
	if err != nil {
		panic(err)
	}
	h := fnv.New64a()
	h.Write(b)
	rng := rand.New(rand.NewSource(int64(h.Sum64() >> 1)))
	pre, potential, marked := d.dryTry(op)
	if !pre {
		return
	}
	choose := func(from []string, n int) []string {
		idx := rng.Perm(len(from))
		out := []string{}
		for i := 0; i < n && i < len(idx); i++ {
			out = append(out, from[idx[i]])
		}
		return out
	}
	variants := 0
	switch {
	case len(marked) >= 2:
		variants = 2
	case len(marked) == 1:
		variants = 1
	case rng.Float64() < 0.3:
		variants = 1
	}
	for v := 0; v < variants; v++ {
		n := 1
		if rng.Float64() < 0.4 {
			n = 2
		}
		var keys []string
		if len(marked) > 0 {
			keys = choose(marked, n)
			if rng.Float64() < 0.25 {
				others := []string{}
				for _, k := range potential {
					if sort.SearchStrings(marked, k) == len(marked) || marked[sort.SearchStrings(marked, k)] != k {
						others = append(others, k)
					}
				}
				if len(others) > 0 {
					keys = append(keys[:len(keys)-1], choose(others, 1)...)
					if n == 1 {
						keys = append(keys, choose(marked, 1)...)
					}
				}
			}
		} else if len(potential) > 0 && rng.Float64() < 0.8 {
			keys = choose(potential, n)
		} else {
			all := []string{}
			for _, e := range arr(d.spec["allocs"]) {
				all = append(all, jsonStr(e.(map[string]interface{})["key"]))
			}
			keys = choose(all, n)
		}
		if len(keys) == 0 {
			continue
		}
		late := jm{}
		for k, x := range op {
			late[k] = x
		}
		late["lateRelease"] = keys
		d.apply(late)
	}
}

func runPreempt(c *Ctx) {
	d := &preemptDrv{c: c}
	if replayFile != "" {
		inputs := []string{"op", "queues", "nodes", "allocs", "ask", "steps", "freq", "delay", "checked", "plugin", "nodesTried", "node", "q", "max", "wait", "lateRelease"}
		for _, in := range readReplay(replayFile) {
			op := jm{}
			for _, k := range inputs {
				if v, ok := in[k]; ok {
					op[k] = v
				}
			}
			d.apply(op)
		}
		return
	}
	for it := 0; it < c.n; it++ {
		world := genWorld(c)
		d.apply(world)
		world = norm(world)
		qs := arr(world["queues"])
		nodes := arr(world["nodes"])
		// paths of the queues as the model will see them
		paths := make([]string, len(qs))
		for i, e := range qs {
			m := e.(map[string]interface{})
			if m["parent"] == nil {
				paths[i] = "root"
			} else {
				paths[i] = paths[jsonInt(m["parent"])] + "." + jsonStr(m["name"])
			}
		}
		// elig + snapshot arithmetic steps
		steps := []interface{}{}
		for j := 0; j < 1+c.pick(5); j++ {
			kind := "remove"
			if c.chance(0.4) {
				kind = "add"
			}
			steps = append(steps, jm{"path": paths[c.pick(len(paths))], "kind": kind, "res": encRes(c.posVec(1, 8, 0.15, 0.2))})
		}
		d.apply(jm{"op": "elig", "steps": steps})
		// preconditions under chosen delays
		for j := 0; j < 2; j++ {
			d.apply(jm{"op": "precond", "delay": []int{0, 10, 30, 60, 200}[c.pick(5)], "freq": []int{0, 15, 100}[c.pick(3)], "checked": c.chance(0.4)})
		}
		// queue preemption without plugin and with the mock plugin; every attempt is followed by its late-release variants
		tryOp := func(op jm) {
			d.apply(op)
			d.lateVariants(op)
		}
		tryOp(jm{"op": "try", "plugin": nil, "nodesTried": c.chance(0.5)})
		table := jm{}
		for _, e := range nodes {
			id := jsonStr(e.(map[string]interface{})["id"])
			table[id] = jm{"ok": !c.chance(0.25), "extra": []int{0, 0, 0, 1, 2}[c.pick(5)], "over": c.chance(0.03)}
		}
		tryOp(jm{"op": "try", "plugin": table, "nodesTried": c.chance(0.5)})
		// a variant that always passes the preconditions
		if c.chance(0.6) {
			tryOp(jm{"op": "try", "plugin": nil, "nodesTried": c.chance(0.5), "ask": jm{"other": true, "req": nil, "age": 1000, "triggered": false}})
		}
		// required node preemption on a chosen node
		ni := c.pick(len(nodes))
		d.apply(jm{"op": "reqnode", "node": ni, "ask": jm{"req": ni}})
		// quota change on a non-root queue
		if len(qs) > 1 {
			qi := 1 + c.pick(len(qs)-1)
			delay := []string{"1ms", "1ms", "1ms", "1h", ""}[c.pick(5)]
			// the lowered maximum stays a valid configuration: not below the guaranteed resources of the queue
			// and of the queues below it
			nm := c.posVec(1, 10, 0.15, 0.25)
			for j, e := range qs {
				inSub := false
				for k := j; k >= 0; {
					if k == qi {
						inSub = true
						break
					}
					pm := qs[k].(map[string]interface{})["parent"]
					if pm == nil {
						break
					}
					k = int(jsonInt(pm))
				}
				if !inSub {
					continue
				}
				if g := decRes(e.(map[string]interface{})["cguar"]); g != nil {
					for k, v := range g.Resources {
						if cur, ok := nm.Resources[k]; ok && cur < v {
							nm.Resources[k] = v
						}
					}
				}
			}
			// a 1ms delay is always waited for (not waiting would race with the clock); "delay not elapsed" is the 1h case
			quotaOp := jm{"op": "quota", "q": qi, "max": encRes(nm), "delay": delay, "wait": delay == "1ms" || c.chance(0.5)}
			d.apply(quotaOp)
			d.lateQuotaVariants(quotaOp)
		}
		// a history of quota changes on a queue that uses something
		if len(qs) > 1 {
			usage := make([]*resources.Resource, len(qs))
			for j := range qs {
				usage[j] = resources.NewResource()
			}
			for _, e := range arr(world["allocs"]) {
				m := e.(map[string]interface{})
				for k := int(jsonInt(m["q"])); ; {
					usage[k].AddTo(decRes(m["res"]))
					pm := qs[k].(map[string]interface{})["parent"]
					if pm == nil {
						break
					}
					k = int(jsonInt(pm))
				}
			}
			qi := 1 + c.pick(len(qs)-1)
			for t := 0; t < 4 && len(usage[qi].Resources) == 0; t++ {
				qi = 1 + c.pick(len(qs)-1)
			}
			d.apply(jm{"op": "quotaseq", "q": qi, "steps": c.genQuotaSteps(usage[qi])})
		}
	}
}
