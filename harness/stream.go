package main

import (
	"time"

	"github.com/apache/yunikorn-core/pkg/events"
	"github.com/apache/yunikorn-scheduler-interface/lib/go/si"
)

func init() { components["stream"] = runStream }

// streamCase runs one schedule of {add, pub, reg, hist} steps against the real EventStreaming + ring buffer.
// "reg" starts CreateEventStream and waits until it reached the yield point after registration;
// "hist" releases it (it reads the history and starts the bridging goroutine).
func streamCase(c *Ctx, capacity uint64, count uint64, sched []string) {
	ring := events.VerifNewRing(capacity)
	es := events.VerifNewEventStreaming(ring)
	reached := make(chan struct{})
	release := make(chan struct{})
	events.VerifYieldHook = func(point string) {
		if point == "stream-registered" {
			reached <- struct{}{}
			<-release
		}
	}
	defer func() { events.VerifYieldHook = nil }()
	var stream *events.EventStream
	created := make(chan struct{})
	var pending *si.EventRecord
	tag := int64(0)
	for _, s := range sched {
		switch s {
		case "add":
			tag++
			pending = &si.EventRecord{TimestampNano: tag}
			ring.Add(pending)
		case "pub":
			es.PublishEvent(pending)
			pending = nil
		case "reg":
			go func() {
				stream = es.CreateEventStream("verif", count)
				close(created)
			}()
			<-reached
		case "hist":
			release <- struct{}{}
			<-created
		}
	}
	out := []int64{}
	if stream != nil {
		for {
			select {
			case e := <-stream.Events:
				out = append(out, evTag(e))
				continue
			case <-time.After(15 * time.Millisecond):
			}
			break
		}
		es.RemoveEventStream(stream)
	}
	es.Close()
	c.emit(map[string]interface{}{"c": "stream", "cap": capacity, "count": count, "sched": sched, "out": out})
}

func runStream(c *Ctx) {
	if replayFile != "" {
		for _, in := range readReplay(replayFile) {
			var sched []string
			for _, s := range in["sched"].([]interface{}) {
				sched = append(sched, s.(string))
			}
			streamCase(c, jsonU64(in["cap"]), jsonU64(in["count"]), sched)
		}
		return
	}
	for i := 0; i < c.n; i++ {
		// random valid schedule: event loop add/pub alternate; creator reg then hist at random points
		n := c.pick(6)
		loop := []string{}
		for k := 0; k < n; k++ {
			loop = append(loop, "add", "pub")
		}
		if c.chance(0.3) {
			loop = append(loop, "add")
		}
		regAt := c.pick(len(loop) + 1)
		histAt := regAt + c.pick(len(loop)-regAt+1)
		sched := []string{}
		for k := 0; k <= len(loop); k++ {
			if k == regAt {
				sched = append(sched, "reg")
			}
			if k == histAt {
				sched = append(sched, "hist")
			}
			if k < len(loop) {
				sched = append(sched, loop[k])
			}
		}
		window := 0
		for k := regAt; k < histAt; k++ {
			if loop[k] == "pub" {
				window++
			}
		}
		capacity := uint64(1 + c.pick(8))
		counts := []uint64{0, 1, 2, 3, 10, capacity, 1 << 40}
		count := counts[c.pick(len(counts))]
		if window > 0 {
			c.stat("window>0")
		}
		if count > 0 && uint64(window) > count {
			c.stat("window>count>0")
		}
		streamCase(c, capacity, count, sched)
	}
}
