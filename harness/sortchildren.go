package main

// sort component, op `children` (C19): the production path that builds the candidate list of a parent queue.
// A REAL parent queue with 2..6 real children is built; Queue.sortQueues() (through the hook VerifSortedChildren) filters
// the stopped children and those without pending resources, collects child.GetFairMaxResource() per candidate and sorts.
// The tree is built several times: the children created in different orders (GetCopyOfChildren is a Go map, every call
// iterates it in another order) and once with a subset of the siblings.

import (
	"fmt"
	"strings"

	"github.com/apache/yunikorn-core/pkg/common/configs"
	"github.com/apache/yunikorn-core/pkg/common/resources"
	"github.com/apache/yunikorn-core/pkg/common/security"
	"github.com/apache/yunikorn-core/pkg/scheduler/objects"
	"github.com/apache/yunikorn-core/pkg/scheduler/policies"
	"github.com/apache/yunikorn-scheduler-interface/lib/go/si"
)

type chSpec struct {
	name    string
	max     *resources.Resource // configured max (sparse); the queue keeps it only if strictly greater than zero
	guar    *resources.Resource
	alloc   *resources.Resource
	pending *resources.Resource
	state   string   // Active, Draining, Stopped
	pr      prSpec   // priority.policy / priority.offset and the applications of a leaf child
	kids    []prSpec // not empty: the child is a parent queue, these are its leaf queues
}

// prAsk is an ask of an application: added with its priority, possibly removed again afterwards. recovered: not an ask
// but an allocation that arrives already bound to a node (recovery after a restart / placed by the RM: the path
// partition.UpdateAllocation takes for an unknown allocation with a node id: RecoverAllocationAsk + AddAllocation),
// before the asks are added or (late) after the removals. It is not outstanding: it must not count for the priority.
type prAsk struct {
	prio      int32
	removed   bool
	recovered bool
	late      bool
}

// prSpec is what the priority of a queue is made of: the policy and offset properties (texts as configured, "" = not set)
// and, for a leaf, its applications (each a list of asks).
type prSpec struct {
	name   string
	policy string
	offset string
	apps   [][]prAsk
}

type chCase struct {
	rootMax  *resources.Resource   // nil: no node registered
	chain    []*resources.Resource // configured max of the queues between the root and the children, the parent last
	prioProp string                // application.sort.priority on the parent: "", enabled, disabled
	children []chSpec
	trees    [][]string // creation orders; the last one may be a subset of the siblings
}

var chTypes = []string{"cpu", "mem", "gpu"}

func (c *Ctx) sparseRes(p float64, lo, span int, zeroP float64) *resources.Resource {
	r := resources.NewResource()
	for _, k := range chTypes {
		if c.chance(p) {
			v := lo + c.pick(span)
			if c.chance(zeroP) {
				v = 0
			}
			r.Resources[k] = resources.Quantity(v)
		}
	}
	return r
}

func encChSpec(cs chCase) map[string]interface{} {
	kids := []map[string]interface{}{}
	for _, k := range cs.children {
		sub := []interface{}{}
		for _, g := range k.kids {
			sub = append(sub, encPrSpec(g))
		}
		kids = append(kids, map[string]interface{}{"name": k.name, "max": encRes(k.max), "guaranteed": encRes(k.guar), "alloc": encRes(k.alloc),
			"pending": encRes(k.pending), "state": k.state, "pr": encPrSpec(k.pr), "kids": sub})
	}
	chain := []interface{}{}
	for _, r := range cs.chain {
		chain = append(chain, encRes(r))
	}
	return map[string]interface{}{"rootMax": encRes(cs.rootMax), "chain": chain, "prioProp": cs.prioProp, "children": kids, "trees": cs.trees}
}

func encPrSpec(p prSpec) map[string]interface{} {
	apps := []interface{}{}
	for _, a := range p.apps {
		asks := []interface{}{}
		for _, k := range a {
			asks = append(asks, map[string]interface{}{"prio": k.prio, "removed": k.removed, "recovered": k.recovered, "late": k.late})
		}
		apps = append(apps, asks)
	}
	return map[string]interface{}{"name": p.name, "policy": p.policy, "offset": p.offset, "apps": apps}
}

func decPrSpec(v interface{}) prSpec {
	m := v.(map[string]interface{})
	p := prSpec{name: jsonStr(m["name"]), policy: jsonStr(m["policy"]), offset: jsonStr(m["offset"])}
	for _, a := range m["apps"].([]interface{}) {
		asks := []prAsk{}
		for _, k := range a.([]interface{}) {
			km := k.(map[string]interface{})
			asks = append(asks, prAsk{prio: int32(jsonInt(km["prio"])), removed: jsonBool(km["removed"]), recovered: jsonBool(km["recovered"]), late: jsonBool(km["late"])})
		}
		p.apps = append(p.apps, asks)
	}
	return p
}

func decChSpec(v interface{}) chCase {
	m := v.(map[string]interface{})
	cs := chCase{rootMax: decRes(m["rootMax"]), prioProp: jsonStr(m["prioProp"])}
	for _, r := range m["chain"].([]interface{}) {
		cs.chain = append(cs.chain, decRes(r))
	}
	for _, e := range m["children"].([]interface{}) {
		k := e.(map[string]interface{})
		ch := chSpec{name: jsonStr(k["name"]), max: decRes(k["max"]), guar: decRes(k["guaranteed"]), alloc: decRes(k["alloc"]),
			pending: decRes(k["pending"]), state: jsonStr(k["state"]), pr: decPrSpec(k["pr"])}
		for _, g := range k["kids"].([]interface{}) {
			ch.kids = append(ch.kids, decPrSpec(g))
		}
		cs.children = append(cs.children, ch)
	}
	for _, t := range m["trees"].([]interface{}) {
		order := []string{}
		for _, x := range t.([]interface{}) {
			order = append(order, x.(string))
		}
		cs.trees = append(cs.trees, order)
	}
	return cs
}

// buildChildrenTree creates root -> chain... -> children (in the given order) out of real queues.
func buildChildrenTree(cs chCase, order []string) (*objects.Queue, []*objects.Queue, map[string]*objects.Queue) {
	root, err := objects.NewConfiguredQueue(configs.QueueConfig{Name: "root", Parent: true}, nil, false, nil)
	if err != nil {
		panic(err)
	}
	if cs.rootMax != nil {
		root.SetMaxResource(cs.rootMax)
	}
	path := []*objects.Queue{root}
	cur := root
	for i, mx := range cs.chain {
		conf := configs.QueueConfig{Name: fmt.Sprintf("l%d", i), Parent: true, Resources: configs.Resources{Max: confMap(mx)}}
		if i == len(cs.chain)-1 && cs.prioProp != "" {
			conf.Properties = map[string]string{configs.ApplicationSortPriority: cs.prioProp}
		}
		q, err := objects.NewConfiguredQueue(conf, cur, false, nil)
		if err != nil {
			panic(err)
		}
		path = append(path, q)
		cur = q
	}
	byName := map[string]chSpec{}
	for _, k := range cs.children {
		byName[k.name] = k
	}
	kids := map[string]*objects.Queue{}
	for _, name := range order {
		k := byName[name]
		conf := configs.QueueConfig{Name: k.name, Parent: len(k.kids) > 0, Resources: configs.Resources{Max: confMap(k.max), Guaranteed: confMap(k.guar)},
			Properties: prProps(k.pr)}
		q, err := objects.NewConfiguredQueue(conf, cur, false, nil)
		if err != nil {
			panic(err)
		}
		// the priority of the queue comes from the real path: asks added to / removed from real applications in the leaf
		// queues (Application.AddAllocationAsk / RemoveAllocationAsk -> Queue.UpdateApplicationPriority -> parent.UpdateQueuePriority)
		if len(k.kids) > 0 {
			for _, g := range k.kids {
				leaf, err := objects.NewConfiguredQueue(configs.QueueConfig{Name: g.name, Properties: prProps(g)}, q, false, nil)
				if err != nil {
					panic(err)
				}
				prApply(leaf, g)
			}
		} else {
			prApply(q, k.pr)
		}
		q.VerifSetUsage(k.pending.Clone(), k.alloc.Clone())
		switch k.state {
		case "Draining":
			q.MarkQueueForRemoval()
		case "Stopped":
			if err := q.VerifStop(); err != nil {
				panic(err)
			}
		}
		kids[name] = q
	}
	return cur, path, kids
}

func prProps(p prSpec) map[string]string {
	props := map[string]string{}
	if p.policy != "" {
		props[configs.PriorityPolicy] = p.policy
	}
	if p.offset != "" {
		props[configs.PriorityOffset] = p.offset
	}
	return props
}

var chAppSeq int

// prApply creates the applications of a leaf queue and adds / removes their asks.
func prApply(leaf *objects.Queue, p prSpec) {
	for ai, asks := range p.apps {
		chAppSeq++
		id := fmt.Sprintf("app-%d-%d", chAppSeq, ai)
		app := objects.NewApplication(&si.AddApplicationRequest{ApplicationID: id, QueueName: leaf.GetQueuePath(), PartitionName: "default",
			ExecutionTimeoutMilliSeconds: 3600000}, security.UserGroup{User: "u"}, &relHandler{}, "rm")
		app.SetQueue(leaf)
		leaf.AddApplication(app)
		recoverAlloc := func(i int, a prAsk) {
			// as partition.UpdateAllocation does for an allocation it does not know that is already bound to a node
			alloc := objects.NewAllocationFromSI(&si.Allocation{AllocationKey: fmt.Sprintf("%s-k%d", id, i), ApplicationID: id, Priority: a.prio,
				NodeID: "node-1", ResourcePerAlloc: &si.Resource{Resources: map[string]*si.Quantity{"cpu": {Value: 1}}}})
			if !alloc.IsAllocated() {
				panic("recovered allocation is not allocated")
			}
			app.RecoverAllocationAsk(alloc)
			app.AddAllocation(alloc)
		}
		for i, a := range asks {
			if a.recovered {
				if !a.late {
					recoverAlloc(i, a)
				}
				continue
			}
			ask := objects.NewAllocationFromSI(&si.Allocation{AllocationKey: fmt.Sprintf("%s-k%d", id, i), ApplicationID: id, Priority: a.prio,
				ResourcePerAlloc: &si.Resource{Resources: map[string]*si.Quantity{"cpu": {Value: 1}}}})
			if err := app.AddAllocationAsk(ask); err != nil {
				panic(err)
			}
		}
		for i, a := range asks {
			if a.removed && !a.recovered {
				app.RemoveAllocationAsk(fmt.Sprintf("%s-k%d", id, i))
			}
		}
		for i, a := range asks {
			if a.recovered && a.late {
				recoverAlloc(i, a)
			}
		}
	}
}

// prDump reads policy and offset back from the real queue; the asks are inputs.
func prDump(q *objects.Queue, p prSpec) map[string]interface{} {
	pol, off := q.GetPriorityPolicyAndOffset()
	apps := []interface{}{}
	for _, asks := range p.apps {
		// what the application holds: [priority, allocated] — outstanding asks and the recovered (allocated) entries
		left := [][]interface{}{}
		for _, a := range asks {
			if a.recovered {
				left = append(left, []interface{}{a.prio, true})
			} else if !a.removed {
				left = append(left, []interface{}{a.prio, false})
			}
		}
		apps = append(apps, left)
	}
	return map[string]interface{}{"fence": pol == policies.FencePriorityPolicy, "offset": off, "apps": apps}
}

func lastPart(paths []string) []string {
	out := make([]string, len(paths))
	for i, p := range paths {
		out[i] = p[strings.LastIndex(p, ".")+1:]
	}
	return out
}

func sortChildrenCase(c *Ctx, cs chCase) {
	line := map[string]interface{}{"c": "sort", "kind": "children", "op": "children", "spec": encChSpec(cs)}
	defer func() {
		if r := recover(); r != nil {
			line["panic"] = fmt.Sprint(r)
		}
		c.emit(line)
	}()
	trees := []map[string]interface{}{}
	for ti, order := range cs.trees {
		parent, path, kids := buildChildrenTree(cs, order)
		names := sortedCopy(order)
		if ti == 0 {
			// what the model needs, read from the real queues
			anc := []interface{}{}
			for _, q := range path[1:] {
				anc = append(anc, encRes(q.VerifMaxResourceRaw()))
			}
			line["rootMax"] = encRes(path[0].VerifMaxResourceRaw())
			line["anc"] = anc
			line["prioConfigured"] = parent.IsPrioritySortEnabled()
			enc := []map[string]interface{}{}
			for _, n := range names {
				q := kids[n]
				var spec chSpec
				for _, k := range cs.children {
					if k.name == n {
						spec = k
					}
				}
				pq := prDump(q, spec.pr)
				sub := []interface{}{}
				for _, g := range spec.kids {
					sub = append(sub, prDump(q.GetChildQueue(g.name), g))
				}
				pq["leaf"] = len(spec.kids) == 0
				pq["kids"] = sub
				enc = append(enc, map[string]interface{}{"name": n, "max": encRes(q.VerifMaxResourceRaw()), "guaranteed": encRes(q.GetGuaranteedResource()),
					"allocated": encRes(q.GetAllocatedResource()), "pending": encRes(q.GetPendingResource()), "prio": q.GetCurrentPriority(), "state": q.CurrentState(),
					"prioQueue": pq})
			}
			line["children"] = enc
		}
		// the real fair max of every child and the rank of its share (floats enter only for this cross-check)
		fms := [][]interface{}{}
		ranks := [][]interface{}{}
		fm := map[string]*resources.Resource{}
		for _, n := range names {
			fm[n] = kids[n].GetFairMaxResource()
			fms = append(fms, []interface{}{n, encRes(fm[n])})
		}
		for _, x := range names {
			rank := 0
			for _, y := range names {
				if resources.CompUsageRatioSeparately(kids[y].GetAllocatedResource(), kids[y].GetGuaranteedResource(), fm[y],
					kids[x].GetAllocatedResource(), kids[x].GetGuaranteedResource(), fm[x]) < 0 {
					rank++
				}
			}
			ranks = append(ranks, []interface{}{x, rank})
		}
		runs := []map[string]interface{}{}
		call := func() [][]string {
			return [][]string{lastPart(parent.VerifSortedChildren()), lastPart(parent.VerifSortedChildren())}
		}
		// as configured: a parent queue sorts with the fair policy, priority as the property says
		runs = append(runs, map[string]interface{}{"fair": true, "prio": parent.IsPrioritySortEnabled(), "configured": true, "outs": call()})
		for _, fair := range []bool{true, false} {
			for _, prio := range []bool{true, false} {
				st := policies.FifoSortPolicy
				if fair {
					st = policies.FairSortPolicy
				}
				parent.VerifSetChildSortPolicy(st, prio)
				runs = append(runs, map[string]interface{}{"fair": fair, "prio": prio, "configured": false, "outs": call()})
			}
		}
		prios := [][]interface{}{}
		for _, n := range names {
			prios = append(prios, []interface{}{n, kids[n].GetCurrentPriority()})
		}
		trees = append(trees, map[string]interface{}{"order": order, "fairMax": fms, "share": ranks, "prios": prios, "runs": runs})
	}
	line["trees"] = trees
}

func genChildrenCase(c *Ctx) {
	cs := chCase{}
	chRecover = c.chance(0.35)
	switch c.pick(10) {
	case 0:
		// no node registered: the root has no max
	case 1, 2:
		cs.rootMax = c.sparseRes(0.7, 20, 80, 0)
	default:
		cs.rootMax = resources.NewResourceFromMap(map[string]resources.Quantity{"cpu": resources.Quantity(50 + c.pick(100)), "mem": resources.Quantity(50 + c.pick(100))})
		if c.chance(0.5) {
			cs.rootMax.Resources["gpu"] = resources.Quantity(10 + c.pick(30))
		}
	}
	depth := 1 + c.pick(2)
	for i := 0; i < depth; i++ {
		var mx *resources.Resource
		if c.chance(0.75) {
			mx = c.sparseRes(0.6, 10, 50, 0.1)
		}
		cs.chain = append(cs.chain, mx)
	}
	cs.prioProp = []string{"", "enabled", "disabled"}[c.pick(3)]
	n := 2 + c.pick(5)
	names := []string{}
	for i := 0; i < n; i++ {
		k := chSpec{name: fmt.Sprintf("c%d", i), state: "Active"}
		edges := c.chance(0.4)
		if c.chance(0.2) {
			// the child is itself a parent queue: its priority is made of the values its leaf queues report
			k.pr = c.genPrSpec(k.name, edges, false)
			for g := 0; g < 1+c.pick(2); g++ {
				k.kids = append(k.kids, c.genPrSpec(fmt.Sprintf("g%d", g), edges, true))
			}
		} else {
			k.pr = c.genPrSpec(k.name, edges, true)
		}
		names = append(names, k.name)
		if c.chance(0.7) {
			k.max = c.sparseRes(0.5, 4, 26, 0.12)
		}
		if c.chance(0.4) {
			k.guar = c.sparseRes(0.5, 1, 10, 0.1)
		}
		switch p := c.pick(20); {
		case p == 0:
			// no usage at all
		case p == 1:
			k.alloc = resources.NewResource()
		default:
			k.alloc = c.sparseRes(0.75, 0, 13, 0.1)
		}
		switch p := c.pick(20); {
		case p == 0:
			// nil pending
		case p == 1:
			k.pending = resources.NewResource()
		case p == 2:
			k.pending = resources.NewResourceFromMap(map[string]resources.Quantity{"cpu": 0, "mem": 0})
		case p == 3:
			k.pending = resources.NewResourceFromMap(map[string]resources.Quantity{"cpu": resources.Quantity(1 + c.pick(3)), "mem": -1})
		default:
			k.pending = c.sparseRes(0.7, 0, 5, 0.15)
		}
		switch p := c.pick(10); {
		case p == 0:
			k.state = "Stopped"
		case p <= 2:
			k.state = "Draining"
		}
		if i > 0 && c.chance(0.3) {
			// many ties: the share-relevant fields of the previous child
			p := cs.children[i-1]
			k.alloc, k.guar, k.max = p.alloc.Clone(), p.guar.Clone(), p.max.Clone()
			if c.chance(0.5) {
				k.pr, k.kids = p.pr, p.kids
				k.pr.name = k.name
			}
		}
		cs.children = append(cs.children, k)
	}
	cs.trees = [][]string{permute(c, names), permute(c, names)}
	// a third tree with some of the siblings missing (at least two stay)
	if n > 2 {
		keep := 2 + c.pick(n-2)
		sub := permute(c, names)[:keep]
		cs.trees = append(cs.trees, sub)
	}
	sortChildrenCase(c, cs)
}

var prEdges = []int32{0, 1, -1, 100, 1000000000, 2000000000, 2000001000, 2147483646, 2147483647, -2147483648, -2147483647, -2000000000, -1000000000}
var prOffsets = []string{"0", "1", "-1", "1000", "1000000000", "-1000000000", "2000000000", "-2000000000", "2147483647", "-2147483647", "-2147483648", "2147483648", "abc"}

// genPrSpec: policy / offset properties and (for a leaf) 0..3 applications with 0..3 asks each. edges: offsets and ask
// priorities from the edges of int32 (sums that leave the range), else small values with many ties.
// chRecover: this case has recovered / pre-placed allocations (set per case in genChildrenCase)
var chRecover bool

func (c *Ctx) genPrSpec(name string, edges bool, leaf bool) prSpec {
	p := prSpec{name: name}
	if edges {
		if c.chance(0.7) {
			p.offset = prOffsets[c.pick(len(prOffsets))]
		}
		switch c.pick(5) {
		case 0:
			p.policy = "fence"
		case 1:
			p.policy = "default"
		}
	} else if c.chance(0.15) {
		p.offset = []string{"1", "2", "-1"}[c.pick(3)]
	}
	if !leaf {
		return p
	}
	napps, lo := c.pick(4), 0
	if !edges {
		napps, lo = 1+c.pick(2), 1
	}
	for a := 0; a < napps; a++ {
		asks := []prAsk{}
		nasks := lo + c.pick(3)
		for k := 0; k < nasks; k++ {
			ask := prAsk{prio: int32(c.pick(3)), removed: c.chance(0.2)}
			if edges {
				ask.prio = prEdges[c.pick(len(prEdges))]
			}
			asks = append(asks, ask)
		}
		if chRecover && c.chance(0.6) {
			// an allocation that arrives allocated: above, equal to or below the priorities of the pending asks
			hi := int32(0)
			for _, a := range asks {
				if a.prio > hi {
					hi = a.prio
				}
			}
			rec := prAsk{recovered: true, late: c.chance(0.4)}
			switch p := c.pick(10); {
			case p < 6:
				rec.prio = hi + 1 + int32(c.pick(3))
				if hi > 2147483000 {
					rec.prio = 2147483647
				}
			case p < 8:
				rec.prio = hi
			default:
				rec.prio = hi - 1
			}
			if edges && c.chance(0.3) {
				rec.prio = prEdges[c.pick(len(prEdges))]
			}
			pos := c.pick(len(asks) + 1)
			asks = append(asks[:pos], append([]prAsk{rec}, asks[pos:]...)...)
		}
		p.apps = append(p.apps, asks)
	}
	return p
}

func replayChildrenCase(c *Ctx, in map[string]interface{}) {
	sortChildrenCase(c, decChSpec(in["spec"]))
}
