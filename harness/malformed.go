package main

// Malformed-stream harness (property C13): raw si.AllocationRequest / si.ApplicationRequest / si.NodeRequest messages
// with every field combination a protobuf decoder can produce (unknown / duplicate / empty ids, unset sub-messages,
// nil maps, zero / negative / huge quantities, releases of things that do not exist, every termination type on every
// kind of key, updates for removed nodes and terminated applications, node actions in any order, unknown partitions
// and resource managers, …; never a nil list element or nil map value) are injected at random points of the
// mostly-valid histories of coregen.go / coregang.go.
//
// Injection layer: the scheduler API the shim calls — rmproxy.RMProxy.UpdateAllocation / UpdateApplication /
// UpdateNode (registration check, partition name normalisation, attribute map creation) — with a scheduler-side event
// handler that hands the event synchronously to the real ClusterContext handlers (hooks VerifHandle*), so the request
// passes the RM proxy checks and then the core on the calling goroutine. Around each injected request: recover(), a
// hang timeout with a goroutine dump, the messages the core sent to the shim (with rejection reasons) and the full
// ledger dump afterwards (the dump before is the previous line).

import (
	"fmt"
	"math"
	"os"
	"runtime"
	"sort"
	"time"

	"github.com/apache/yunikorn-core/pkg/rmproxy"
	"github.com/apache/yunikorn-core/pkg/rmproxy/rmevent"
	"github.com/apache/yunikorn-core/pkg/scheduler/objects"
	siCommon "github.com/apache/yunikorn-scheduler-interface/lib/go/common"
	"github.com/apache/yunikorn-scheduler-interface/lib/go/si"
)

func init() {
	components["mal"] = runMal
}

// ---------------------------------------------------------------- plumbing: RM proxy in front of the real context

type malCallback struct{}

func (malCallback) UpdateAllocation(*si.AllocationResponse) error   { return nil }
func (malCallback) UpdateApplication(*si.ApplicationResponse) error { return nil }
func (malCallback) UpdateNode(*si.NodeResponse) error               { return nil }
func (malCallback) Predicates(*si.PredicatesArgs) error             { return nil }
func (malCallback) PreemptionPredicates(*si.PreemptionPredicatesArgs) *si.PreemptionPredicatesResponse {
	return &si.PreemptionPredicatesResponse{}
}
func (malCallback) SendEvent([]*si.EventRecord)                                              {}
func (malCallback) UpdateContainerSchedulingState(*si.UpdateContainerSchedulingStateRequest) {}

// malForward is the scheduler-side handler of the RM proxy: what scheduler.Scheduler's event loop would do, synchronously.
type malForward struct{ m *malRun }

func (f *malForward) HandleEvent(ev interface{}) {
	switch v := ev.(type) {
	case *rmevent.RMRegistrationEvent:
		go func() { v.Channel <- &rmevent.Result{Succeeded: true} }()
	case *rmevent.RMUpdateAllocationEvent:
		f.m.d.s.cc.VerifHandleAllocations(v.Request)
	case *rmevent.RMUpdateApplicationEvent:
		f.m.d.s.cc.VerifHandleApps(v.Request)
	case *rmevent.RMUpdateNodeEvent:
		f.m.d.s.cc.VerifHandleNodes(v.Request)
	default:
		panic(fmt.Sprintf("malForward: unexpected event %T", ev))
	}
}

// malHandler is the shim-side handler: the recorder of core.go plus the rejection reasons.
type malHandler struct{ h *shimHandler }

func (mh *malHandler) HandleEvent(ev interface{}) {
	mh.h.HandleEvent(ev)
	mh.h.Lock()
	defer mh.h.Unlock()
	annotate := func(t string, reasons []string) {
		// the recorder appended one entry per rejected item, in order: the last len(reasons) entries of type t
		idx := []int{}
		for i := len(mh.h.msgs) - 1; i >= 0 && len(idx) < len(reasons); i-- {
			if mh.h.msgs[i]["t"] == t {
				idx = append(idx, i)
			}
		}
		for j, i := range idx {
			mh.h.msgs[i]["reason"] = reasons[len(reasons)-1-j]
		}
	}
	switch v := ev.(type) {
	case *rmevent.RMRejectedAllocationEvent:
		rs := []string{}
		for _, r := range v.RejectedAllocations {
			rs = append(rs, r.Reason)
		}
		annotate("alloc-rejected", rs)
	case *rmevent.RMNodeUpdateEvent:
		rs := []string{}
		for _, r := range v.RejectedNodes {
			rs = append(rs, r.Reason)
		}
		annotate("node-rejected", rs)
	}
}

type malHang struct{}

type malRun struct {
	c         *Ctx
	d         *coreDrv
	rmp       *rmproxy.RMProxy
	busy      bool
	inject    bool
	wild      bool // this history may contain items of the known gap classes and quantities near the int64 range
	seq       int
	seenNodes map[string]bool
	seenApps  map[string]bool
}

func runMal(c *Ctx) {
	m := &malRun{c: c, d: &coreDrv{c: c, id: "mal", lite: true}}
	m.rmp = rmproxy.NewRMProxy(&malForward{m: m})
	if _, err := m.rmp.RegisterResourceManager(&si.RegisterResourceManagerRequest{RmID: coreRM, PolicyGroup: "policygroup"}, malCallback{}); err != nil {
		panic(err)
	}
	m.d.hook = m.afterOp
	// no real-time timers: the histories fire the state timers explicitly (a slow run must not see the 30 s completing timer)
	objects.SetCompletingTimeout(time.Hour)
	defer func() {
		if r := recover(); r != nil {
			if _, ok := r.(malHang); ok {
				return // the line with "hang" has been written; the process cannot continue (locks are held)
			}
			panic(r)
		}
	}()
	if replayFile != "" {
		for _, in := range readReplay(replayFile) {
			if jsonStr(in["op"]) == "completing-timeout" {
				// witnesses only: the completing timer of the core in milliseconds (default here: one hour)
				objects.SetCompletingTimeout(time.Duration(jsonInt(in["ms"])) * time.Millisecond)
				continue
			}
			if jsonStr(in["op"]) == "si" {
				req, _ := in["req"].(map[string]interface{})
				if m.d.s != nil && req != nil {
					m.execSI(req)
				}
				continue
			}
			op := map[string]interface{}{}
			for k, v := range in {
				if k != "st" && k != "msgs" && k != "c" && k != "out" && k != "panic" && k != "error" && k != "hang" && k != "pre" {
					op[k] = v
				}
			}
			m.d.apply(op)
		}
		return
	}
	m.inject = true
	// -n counts quarters of a history (a history is 30..120 operations plus ~35 injected requests)
	for it := 0; it < (c.n+3)/4; it++ {
		switch it % 5 {
		case 0, 1:
			coreHistory(c, m.d)
		case 2, 3:
			gangHistory(c, m.d)
		default:
			preemptHistory(c, m.d)
		}
	}
}

// afterOp runs after every operation of the valid history
func (m *malRun) afterOp(name string) {
	if m.d.s == nil || m.busy {
		return
	}
	if name == "reset" {
		m.d.s.cc.VerifSetEventHandler(&malHandler{h: m.d.s.h})
		m.seenNodes, m.seenApps = map[string]bool{}, map[string]bool{}
		m.wild = m.inject && m.c.chance(0.35)
		if m.wild {
			m.c.stat("mal:history:wild")
		} else {
			m.c.stat("mal:history:tame")
		}
	}
	if name == "app-remove" {
		// the terminated callback of the removed application runs in its own goroutine: let it finish before the id can be
		// submitted again (KNOWN_FINDINGS C13.stale-terminated-callback is what happens when it does not)
		runtime.Gosched()
		time.Sleep(2 * time.Millisecond)
	}
	if !m.inject {
		return
	}
	for _, n := range m.d.s.part.GetNodes() {
		m.seenNodes[n.NodeID] = true
	}
	for _, a := range m.d.s.part.GetApplications() {
		m.seenApps[a.ApplicationID] = true
	}
	if !m.c.chance(0.3) {
		return
	}
	m.busy = true
	defer func() { m.busy = false }()
	k := 1
	if m.c.chance(0.25) {
		k = 2 + m.c.pick(2)
	}
	for i := 0; i < k; i++ {
		req := m.genRequest()
		// items of the known gap classes damage the ledgers for the rest of the history (the driver then attributes later
		// damage to them): they are confined to the "wild" histories
		for try := 0; !m.wild && try < 30 && m.gapLike(req); try++ {
			req = m.genRequest()
		}
		if !m.wild && m.gapLike(req) {
			continue
		}
		m.execSI(req)
	}
}

func resHuge(v interface{}) bool {
	for _, e := range jsonList(v) {
		if q := jsonInt(e.([]interface{})[1]); q >= 1<<40 || q <= -(1<<40) {
			return true
		}
	}
	return false
}

func resNeg(v interface{}) bool {
	for _, e := range jsonList(v) {
		if jsonInt(e.([]interface{})[1]) < 0 {
			return true
		}
	}
	return false
}

// gapLike: the request contains an item of a class the unchanged code is known to mishandle (KNOWN_FINDINGS C13.G-*),
// or a quantity near the int64 range (saturating arithmetic: the exact-arithmetic clauses are muted afterwards)
func (m *malRun) gapLike(req map[string]interface{}) bool {
	req = norm(req)
	p := m.d.s.part
	for _, x := range jsonList(req["allocs"]) {
		a := x.(map[string]interface{})
		key, app := jsonStr(a["key"]), jsonStr(a["app"])
		_, foreign := siMap(a["tags"])[siCommon.Foreign]
		if key == "" || resHuge(a["res"]) {
			return true
		}
		for _, other := range p.GetApplications() {
			inReq := other.GetAllocationAsk(key)
			var bound *objects.Allocation
			for _, b := range other.GetAllAllocations() {
				if b.GetAllocationKey() == key {
					bound = b
				}
			}
			switch {
			case foreign && (inReq != nil || bound != nil):
				return true
			case !foreign && other.ApplicationID != app && (inReq != nil || bound != nil):
				return true
			case !foreign && other.ApplicationID == app && inReq == nil && bound != nil:
				return true
			case !foreign && other.ApplicationID == app && inReq != nil && bound == nil && inReq.IsAllocated() && !inReq.HasRelease():
				return true
			}
		}
		if !foreign {
			for _, k := range p.VerifForeignAllocs() {
				if k == key {
					return true
				}
			}
		}
	}
	for _, x := range jsonList(req["new"]) {
		a := x.(map[string]interface{})
		if jsonStr(a["id"]) == "" || resHuge(a["phAsk"]) {
			return true
		}
	}
	for _, x := range jsonList(req["nodes"]) {
		n := x.(map[string]interface{})
		act := jsonInt(n["action"])
		if resHuge(n["res"]) || ((act == 1 || act == 6 || act == 2) && resNeg(n["res"]) && jsonStr(n["id"]) != "") {
			return true
		}
	}
	return false
}

// ---------------------------------------------------------------- JSON description -> si message

func siRes(v interface{}) *si.Resource {
	if v == nil {
		return nil
	}
	r := &si.Resource{Resources: map[string]*si.Quantity{}}
	for _, e := range v.([]interface{}) {
		p := e.([]interface{})
		r.Resources[p[0].(string)] = &si.Quantity{Value: jsonInt(p[1])}
	}
	return r
}

func siMap(v interface{}) map[string]string {
	if v == nil {
		return nil
	}
	out := map[string]string{}
	for k, x := range v.(map[string]interface{}) {
		out[k] = jsonStr(x)
	}
	return out
}

func jsonList(v interface{}) []interface{} {
	l, _ := v.([]interface{})
	return l
}

func siAllocation(v interface{}) *si.Allocation {
	j := v.(map[string]interface{})
	a := &si.Allocation{AllocationKey: jsonStr(j["key"]), ApplicationID: jsonStr(j["app"]), NodeID: jsonStr(j["node"]), PartitionName: jsonStr(j["part"]),
		TaskGroupName: jsonStr(j["tg"]), Placeholder: jsonBool(j["ph"]), Originator: jsonBool(j["orig"]), Priority: int32(jsonInt(j["prio"])),
		ResourcePerAlloc: siRes(j["res"]), AllocationTags: siMap(j["tags"])}
	if pp, ok := j["pp"].(map[string]interface{}); ok {
		a.PreemptionPolicy = &si.PreemptionPolicy{AllowPreemptSelf: jsonBool(pp["self"]), AllowPreemptOther: jsonBool(pp["other"])}
	}
	return a
}

func siRelease(v interface{}) *si.AllocationRelease {
	j := v.(map[string]interface{})
	return &si.AllocationRelease{PartitionName: jsonStr(j["part"]), ApplicationID: jsonStr(j["app"]), AllocationKey: jsonStr(j["key"]),
		TerminationType: si.TerminationType(int32(jsonInt(j["type"]))), Message: jsonStr(j["msg"])}
}

func siAppNew(v interface{}) *si.AddApplicationRequest {
	j := v.(map[string]interface{})
	a := &si.AddApplicationRequest{ApplicationID: jsonStr(j["id"]), QueueName: jsonStr(j["queue"]), PartitionName: jsonStr(j["part"]), Tags: siMap(j["tags"]),
		ExecutionTimeoutMilliSeconds: jsonInt(j["timeout"]), PlaceholderAsk: siRes(j["phAsk"]), GangSchedulingStyle: jsonStr(j["style"])}
	if u, ok := j["ugi"].(map[string]interface{}); ok {
		a.Ugi = &si.UserGroupInformation{User: jsonStr(u["user"])}
		for _, g := range jsonList(u["groups"]) {
			a.Ugi.Groups = append(a.Ugi.Groups, jsonStr(g))
		}
	}
	return a
}

func siNode(v interface{}) *si.NodeInfo {
	j := v.(map[string]interface{})
	return &si.NodeInfo{NodeID: jsonStr(j["id"]), Action: si.NodeInfo_ActionFromRM(int32(jsonInt(j["action"]))), Attributes: siMap(j["attrs"]),
		SchedulableResource: siRes(j["res"])}
}

// send builds the request and passes it through the RM proxy into the core
func (m *malRun) send(req map[string]interface{}) error {
	rm := jsonStr(req["rm"])
	switch jsonStr(req["t"]) {
	case "alloc":
		r := &si.AllocationRequest{RmID: rm}
		for _, a := range jsonList(req["allocs"]) {
			r.Allocations = append(r.Allocations, siAllocation(a))
		}
		if req["rel"] != nil {
			r.Releases = &si.AllocationReleasesRequest{}
			for _, x := range jsonList(req["rel"]) {
				r.Releases.AllocationsToRelease = append(r.Releases.AllocationsToRelease, siRelease(x))
			}
		}
		return m.rmp.UpdateAllocation(r)
	case "app":
		r := &si.ApplicationRequest{RmID: rm}
		for _, a := range jsonList(req["new"]) {
			r.New = append(r.New, siAppNew(a))
		}
		for _, x := range jsonList(req["remove"]) {
			j := x.(map[string]interface{})
			r.Remove = append(r.Remove, &si.RemoveApplicationRequest{ApplicationID: jsonStr(j["id"]), PartitionName: jsonStr(j["part"])})
		}
		return m.rmp.UpdateApplication(r)
	case "node":
		r := &si.NodeRequest{RmID: rm}
		for _, n := range jsonList(req["nodes"]) {
			r.Nodes = append(r.Nodes, siNode(n))
		}
		return m.rmp.UpdateNode(r)
	case "conf":
		// a configuration update that carries the configuration in force (nothing may change) under the registered, an
		// empty or an unknown policy group; run synchronously through the guarded hook (the RM proxy hands the event to
		// the scheduler's event goroutine and waits for the answer)
		ok, reason := m.d.s.cc.VerifConfigUpdateFor(rm, jsonStr(req["pg"]), m.d.s.conf, nil)
		if !ok {
			return fmt.Errorf("update of configuration failed: %v", reason)
		}
		return nil
	}
	panic("mal: unknown request type " + jsonStr(req["t"]))
}

// execSI executes one injected request on the implementation and writes its line
func (m *malRun) execSI(req map[string]interface{}) {
	req = norm(req)
	c := m.c
	line := map[string]interface{}{"c": m.d.id, "op": "si", "req": req, "pre": m.d.s.dump()}
	c.stat("op:si")
	c.stat("si:" + jsonStr(req["t"]))
	done := make(chan interface{}, 1)
	var perr error
	go func() {
		defer func() { done <- recover() }()
		perr = m.send(req)
	}()
	select {
	case r := <-done:
		if r != nil {
			line["panic"] = fmt.Sprint(r)
			c.stat("panic")
		}
	case <-time.After(10 * time.Second):
		line["hang"] = true
		c.stat("hang")
		c.emit(line)
		c.out.Flush()
		buf := make([]byte, 1<<20)
		n := runtime.Stack(buf, true)
		os.Stderr.Write(buf[:n])
		panic(malHang{})
	}
	if perr != nil {
		line["err"] = perr.Error()
		c.stat("si-proxy-error")
	}
	if len(jsonList(req["remove"])) > 0 {
		// the terminated callback of a removed application runs in its own goroutine: let it finish before the id can be
		// submitted again (KNOWN_FINDINGS C13.stale-terminated-callback is what happens when it does not)
		runtime.Gosched()
		time.Sleep(2 * time.Millisecond)
	}
	if id := jsonStr(req["lateCallback"]); id != "" {
		// witnesses only: the terminated callback of an earlier application object with this id runs now (it runs in its
		// own goroutine in the core; the harness picks the moment)
		m.d.s.part.VerifMoveTerminatedApp(id)
	}
	if w := jsonInt(req["wait"]); w > 0 {
		// witnesses only: give an armed timer of the core the time to fire before the state is dumped
		time.Sleep(time.Duration(w) * time.Millisecond)
	}
	m.d.settle()
	msgs := m.d.s.h.take()
	line["msgs"] = msgs
	for _, mm := range msgs {
		c.stat("si-answer:" + fmt.Sprint(mm["t"]))
	}
	if len(msgs) == 0 {
		c.stat("si-answer:none")
	}
	line["st"] = m.d.s.dump()
	c.emit(line)
}

// ---------------------------------------------------------------- generator

type malRef struct{ app, key, node string }

type malView struct {
	nodes, apps, doneApps, goneNodes, goneApps                       []string
	pending, bound, phBound, phSwap, realInflight, released, foreign []malRef
}

func (m *malRun) view() *malView {
	v := &malView{}
	p := m.d.s.part
	for _, n := range p.GetNodes() {
		v.nodes = append(v.nodes, n.NodeID)
		for _, a := range n.GetForeignAllocations() {
			v.foreign = append(v.foreign, malRef{"", a.GetAllocationKey(), n.NodeID})
		}
	}
	sort.Strings(v.nodes)
	live := map[string]bool{}
	for _, app := range p.GetApplications() {
		id := app.ApplicationID
		live[id] = true
		v.apps = append(v.apps, id)
		bound := map[string]bool{}
		for _, a := range app.GetAllAllocations() {
			bound[a.GetAllocationKey()] = true
			r := malRef{id, a.GetAllocationKey(), a.GetNodeID()}
			switch {
			case a.IsPlaceholder() && a.HasRelease():
				v.phSwap = append(v.phSwap, r)
			case a.IsPlaceholder():
				v.phBound = append(v.phBound, r)
			default:
				v.bound = append(v.bound, r)
			}
			if a.IsReleased() || a.IsPreempted() {
				v.released = append(v.released, r)
			}
		}
		for _, a := range app.GetAllRequests() {
			if bound[a.GetAllocationKey()] {
				continue
			}
			r := malRef{id, a.GetAllocationKey(), a.GetNodeID()}
			if a.IsAllocated() {
				v.realInflight = append(v.realInflight, r)
			} else {
				v.pending = append(v.pending, r)
			}
		}
	}
	sort.Strings(v.apps)
	for _, a := range append(p.GetCompletedApplications(), p.GetRejectedApplications()...) {
		v.doneApps = append(v.doneApps, a.ApplicationID)
	}
	sort.Strings(v.doneApps)
	known := map[string]bool{}
	for _, n := range v.nodes {
		known[n] = true
	}
	for _, n := range sortedKeys(m.seenNodes) {
		if !known[n] {
			v.goneNodes = append(v.goneNodes, n)
		}
	}
	for _, a := range sortedKeys(m.seenApps) {
		if !live[a] {
			v.goneApps = append(v.goneApps, a)
		}
	}
	for _, l := range []*[]malRef{&v.pending, &v.bound, &v.phBound, &v.phSwap, &v.realInflight, &v.released, &v.foreign} {
		ll := *l
		sort.Slice(ll, func(i, j int) bool { return ll[i].app+"/"+ll[i].key < ll[j].app+"/"+ll[j].key })
	}
	return v
}

func (m *malRun) str(l []string, dflt string) string {
	if len(l) == 0 {
		return dflt
	}
	return l[m.c.pick(len(l))]
}

func (m *malRun) ref(l []malRef) (malRef, bool) {
	if len(l) == 0 {
		return malRef{}, false
	}
	return l[m.c.pick(len(l))], true
}

// weighted choice: returns the index
func (m *malRun) w(weights ...int) int {
	t := 0
	for _, x := range weights {
		t += x
	}
	r := m.c.pick(t)
	for i, x := range weights {
		if r < x {
			return i
		}
		r -= x
	}
	return len(weights) - 1
}

func (m *malRun) part() string {
	switch m.w(30, 25, 25, 4, 4, 4, 3, 3, 2) {
	case 0:
		return corePart
	case 1:
		return "default"
	case 2:
		return ""
	case 3:
		return "other"
	case 4:
		return "[" + coreRM + "]other"
	case 5:
		return "[rm-other]default"
	case 6:
		return "["
	case 7:
		return "default "
	}
	return "Default"
}

func (m *malRun) rm() string {
	switch m.w(94, 3, 3) {
	case 0:
		return coreRM
	case 1:
		return "rm-unknown"
	}
	return ""
}

// malRes: unset, empty, zero, negative, mixed, huge and ordinary vectors
func (m *malRun) res(tag string) interface{} {
	c := m.c
	pair := func(k string, v int64) []interface{} { return []interface{}{k, v} }
	switch m.w(44, 7, 6, 6, 7, 6, 5, 4, 4, 4, 3, 4) {
	case 0:
		c.stat(tag + ":normal")
		out := []interface{}{pair("cpu", int64(1+c.pick(8)))}
		if c.chance(0.5) {
			out = append(out, pair("mem", int64(1+c.pick(8))))
		}
		return out
	case 1:
		c.stat(tag + ":unset")
		return nil
	case 2:
		c.stat(tag + ":empty")
		return []interface{}{}
	case 3:
		c.stat(tag + ":zero")
		return []interface{}{pair("cpu", 0), pair("mem", 0)}
	case 4:
		c.stat(tag + ":negative")
		return []interface{}{pair("cpu", -int64(1+c.pick(5)))}
	case 5:
		c.stat(tag + ":mixed-sign")
		return []interface{}{pair("cpu", int64(1+c.pick(5))), pair("mem", -int64(1+c.pick(3)))}
	case 6:
		c.stat(tag + ":zero-and-positive")
		return []interface{}{pair("cpu", 0), pair("mem", int64(1+c.pick(5)))}
	case 7:
		c.stat(tag + ":max-int64")
		return []interface{}{pair("cpu", math.MaxInt64)}
	case 8:
		c.stat(tag + ":min-int64")
		return []interface{}{pair("cpu", math.MinInt64)}
	case 9:
		c.stat(tag + ":max-and-min")
		return []interface{}{pair("cpu", math.MaxInt64), pair("mem", math.MinInt64), pair("gpu", math.MaxInt64-1)}
	case 10:
		c.stat(tag + ":odd-type-names")
		return []interface{}{pair("", int64(1+c.pick(3))), pair("a b/c", 1)}
	}
	c.stat(tag + ":new-type")
	return []interface{}{pair("gpu", int64(1+c.pick(2)))}
}

func (m *malRun) newKey(prefix string) string {
	m.seq++
	return fmt.Sprintf("%s%d", prefix, m.seq)
}

func (m *malRun) anyApp(v *malView) string {
	switch m.w(58, 10, 8, 12, 12) {
	case 0:
		return m.str(v.apps, "app-unknown")
	case 1:
		return "app-unknown"
	case 2:
		return ""
	case 3:
		return m.str(v.doneApps, "app-unknown")
	}
	return m.str(v.goneApps, "app-gone")
}

func (m *malRun) anyNode(v *malView, empty int) string {
	switch m.w(empty, 40, 12, 10, 3) {
	case 0:
		return ""
	case 1:
		return m.str(v.nodes, "n-unknown")
	case 2:
		return "n-unknown"
	case 3:
		return m.str(v.goneNodes, "n-gone")
	}
	return " "
}

func (m *malRun) genAlloc(v *malView) map[string]interface{} {
	c := m.c
	a := map[string]interface{}{"part": m.part(), "prio": []int64{0, 1, 2, -1, math.MaxInt32, math.MinInt32}[m.w(40, 20, 20, 8, 6, 6)], "orig": c.chance(0.1)}
	app := m.anyApp(v)
	key := m.newKey("mk")
	node := m.anyNode(v, 50)
	shape := "new-key"
	pickRef := func(name string, l []malRef) bool {
		r, ok := m.ref(l)
		if !ok {
			return false
		}
		shape = name
		key = r.key
		if c.chance(0.85) {
			app = r.app
		}
		if c.chance(0.4) {
			node = r.node
		}
		return true
	}
	switch m.w(34, 14, 14, 8, 6, 6, 6, 6, 6) {
	case 1:
		pickRef("pending-key", v.pending)
	case 2:
		pickRef("bound-key", v.bound)
	case 3:
		pickRef("placeholder-key", v.phBound)
	case 4:
		pickRef("swapping-placeholder-key", v.phSwap)
	case 5:
		pickRef("inflight-real-key", v.realInflight)
	case 6:
		pickRef("released-key", v.released)
	case 7:
		pickRef("foreign-key", v.foreign)
	case 8:
		shape = "empty-key"
		key = ""
	}
	tags := map[string]interface{}{}
	var tagsV interface{} = tags
	switch m.w(60, 12, 12, 8, 8) {
	case 0:
		tags[siCommon.CreationTime] = fmt.Sprint(1000 + m.seq)
	case 1:
		tagsV = nil
		shape += "+tags-unset"
	case 2:
		shape += "+tags-empty"
	case 3:
		tags[siCommon.CreationTime] = "not-a-number"
	case 4:
		tags[siCommon.CreationTime] = "99999999999999999999"
	}
	if tagsV != nil && c.chance(0.22) {
		// foreign allocation
		tags[siCommon.Foreign] = []string{siCommon.AllocTypeDefault, siCommon.AllocTypeStatic, "", "bogus"}[m.w(50, 20, 15, 15)]
		shape += "+foreign"
		if c.chance(0.7) {
			app = ""
		}
		if c.chance(0.75) {
			node = m.str(v.nodes, "n-unknown")
		}
		if r, ok := m.ref(v.foreign); ok && c.chance(0.45) {
			key = r.key
			shape += "-existing"
			if c.chance(0.8) {
				node = r.node
			}
		} else if c.chance(0.6) {
			key = m.newKey("mf")
		}
	}
	if tagsV != nil && c.chance(0.08) {
		tags[siCommon.DomainYuniKorn+siCommon.KeyRequiredNode] = m.anyNode(v, 5)
		shape += "+required-node"
	}
	a["tags"] = tagsV
	a["app"], a["key"], a["node"] = app, key, node
	a["res"] = m.res("alloc-res")
	if c.chance(0.28) {
		a["ph"] = true
		shape += "+placeholder"
	}
	switch m.w(55, 30, 15) {
	case 1:
		a["tg"] = "tg-1"
	case 2:
		a["tg"] = "tg-x"
	}
	if jsonBool(a["ph"]) && jsonStr(a["tg"]) == "" {
		shape += "-no-taskgroup"
	}
	if c.chance(0.5) {
		a["pp"] = map[string]interface{}{"self": c.chance(0.5), "other": c.chance(0.5)}
	}
	c.stat("mal:alloc:" + shape)
	return a
}

func (m *malRun) genRelease(v *malView) map[string]interface{} {
	c := m.c
	r := map[string]interface{}{"part": m.part(), "type": []int64{0, 1, 2, 3, 4, 7, -1}[m.w(18, 20, 18, 18, 18, 4, 4)], "msg": "mal"}
	app, key, shape := m.anyApp(v), "k-unknown", "unknown-key"
	pickRef := func(name string, l []malRef) {
		if x, ok := m.ref(l); ok {
			shape, key = name, x.key
			if c.chance(0.85) {
				app = x.app
			}
		}
	}
	switch m.w(12, 16, 16, 12, 12, 8, 8, 8, 8) {
	case 1:
		pickRef("pending-ask", v.pending)
	case 2:
		pickRef("bound-allocation", v.bound)
	case 3:
		pickRef("placeholder", v.phBound)
	case 4:
		pickRef("swapping-placeholder", v.phSwap)
	case 5:
		pickRef("inflight-real", v.realInflight)
	case 6:
		pickRef("released-by-core", v.released)
	case 7:
		pickRef("foreign", v.foreign)
		if c.chance(0.5) {
			app = ""
		}
	case 8:
		shape, key = "all-of-application", ""
	}
	r["app"], r["key"] = app, key
	c.stat(fmt.Sprintf("mal:release:%s:type%d", shape, r["type"]))
	return r
}

func (m *malRun) genAppNew(v *malView) map[string]interface{} {
	c := m.c
	a := map[string]interface{}{"part": m.part()}
	shape := ""
	switch m.w(50, 15, 10, 10, 15) {
	case 0:
		a["id"] = m.newKey("mapp-")
		shape = "new-id"
	case 1:
		a["id"] = m.str(v.apps, "app-1")
		shape = "duplicate-id"
	case 2:
		a["id"] = ""
		shape = "empty-id"
	case 3:
		a["id"] = m.str(v.doneApps, m.newKey("mapp-"))
		shape = "terminated-id"
	case 4:
		a["id"] = m.str(v.goneApps, m.newKey("mapp-"))
		shape = "removed-id"
	}
	queues := append([]string{"", "root", "a", "root.a.", "root..a", "root.a b", "ROOT.A", "root." + fmt.Sprintf("%065d", 7), "root.@recovery@"}, coreQueues...)
	if c.chance(0.6) {
		a["queue"] = coreQueues[c.pick(len(coreQueues))]
	} else {
		a["queue"] = queues[c.pick(len(queues))]
		shape += "+odd-queue"
	}
	switch m.w(50, 12, 10, 10, 10, 8) {
	case 0:
		a["ugi"] = map[string]interface{}{"user": []string{"alice", "bob", "carol"}[c.pick(3)], "groups": []interface{}{"dev"}}
	case 1:
		shape += "+ugi-unset"
	case 2:
		a["ugi"] = map[string]interface{}{"user": "", "groups": []interface{}{"dev"}}
		shape += "+user-empty"
	case 3:
		a["ugi"] = map[string]interface{}{"user": "alice", "groups": []interface{}{}}
		shape += "+groups-empty"
	case 4:
		a["ugi"] = map[string]interface{}{"user": []string{"a b", "1abc", "-x", "é", "user$", "user$$"}[c.pick(6)], "groups": []interface{}{"dev"}}
		shape += "+user-invalid"
	case 5:
		a["ugi"] = map[string]interface{}{"user": "x y", "groups": []interface{}{}}
		shape += "+user-invalid-groups-empty"
	}
	tags := map[string]interface{}{}
	var tagsV interface{} = tags
	switch m.w(40, 15, 15, 30) {
	case 1:
		tagsV = nil
		shape += "+tags-unset"
	case 2:
		shape += "+tags-empty"
	case 3:
		if c.chance(0.5) {
			tags[siCommon.AppTagCreateForce] = []string{"true", "TRUE", "1", "yes", "", "false"}[c.pick(6)]
			shape += "+force-tag"
		}
		if c.chance(0.3) {
			tags[siCommon.AppTagNamespaceResourceQuota] = []string{`{"resources":{"cpu":{"value":5}}}`, `{"resources":{"cpu":{"value":-5}}}`, `{`, ``, `{"resources":null}`, `{"resources":{"cpu":null}}`, `{"resources":{"cpu":{}}}`, `null`, `{"resources":{"":{"value":1}}}`, `[]`}[c.pick(10)]
			shape += "+quota-tag"
		}
		if c.chance(0.3) {
			tags[siCommon.AppTagNamespaceResourceGuaranteed] = []string{`{"resources":{"cpu":{"value":2}}}`, `garbage`, `{"resources":{"cpu":{"value":9223372036854775807}}}`, `{"resources":{"mem":null,"cpu":{"value":1}}}`, `null`}[c.pick(5)]
			shape += "+guaranteed-tag"
		}
		if c.chance(0.3) {
			tags[siCommon.AppTagNamespaceResourceMaxApps] = []string{"1", "0", "-1", "abc", "99999999999999999999"}[c.pick(5)]
			shape += "+maxapps-tag"
		}
		if c.chance(0.2) {
			tags[siCommon.DomainYuniKorn+siCommon.CreationTime] = []string{"4102444800", "abc", "", "99999999999999999999"}[c.pick(4)] // (a creation time in the past arms a 1 ms placeholder timer: real time is not part of the protocol lines)
			shape += "+creation-tag"
		}
		if c.chance(0.2) {
			tags["application.stateaware.disable"] = "x"
		}
	}
	a["tags"] = tagsV
	a["timeout"] = []int64{0, 3600000, -1, 7200000, math.MaxInt64, math.MinInt64}[m.w(40, 30, 8, 8, 7, 7)] // (no short timeouts: timers are fired explicitly by the history)
	if c.chance(0.4) {
		a["phAsk"] = m.res("app-phask")
		shape += "+placeholder-ask"
	}
	a["style"] = []string{"", "Soft", "Hard", "soft", "bogus"}[m.w(40, 20, 20, 10, 10)]
	c.stat("mal:app-new:" + shape)
	return a
}

func (m *malRun) genAppRemove(v *malView) map[string]interface{} {
	r := map[string]interface{}{"part": m.part()}
	switch m.w(25, 25, 15, 20, 15) {
	case 0:
		r["id"] = m.str(v.apps, "app-unknown")
		m.c.stat("mal:app-remove:live")
	case 1:
		r["id"] = "app-unknown"
		m.c.stat("mal:app-remove:unknown")
	case 2:
		r["id"] = ""
		m.c.stat("mal:app-remove:empty-id")
	case 3:
		r["id"] = m.str(v.doneApps, "app-unknown")
		m.c.stat("mal:app-remove:terminated")
	case 4:
		r["id"] = m.str(v.goneApps, "app-gone")
		m.c.stat("mal:app-remove:removed")
	}
	return r
}

func (m *malRun) genNode(v *malView) map[string]interface{} {
	c := m.c
	n := map[string]interface{}{}
	shape := ""
	switch m.w(40, 20, 8, 17, 15) {
	case 0:
		n["id"] = m.str(v.nodes, "n1")
		shape = "known"
	case 1:
		n["id"] = "n-unknown"
		shape = "unknown"
	case 2:
		n["id"] = ""
		shape = "empty-id"
	case 3:
		n["id"] = m.str(v.goneNodes, "n-gone")
		shape = "removed"
	case 4:
		n["id"] = m.newKey("mn")
		shape = "new"
	}
	act := []int64{0, 1, 2, 3, 4, 5, 6, 9, -1}[m.w(6, 22, 22, 10, 8, 10, 12, 5, 5)]
	n["action"] = act
	switch m.w(60, 10, 10, 10, 10) {
	case 0:
		n["attrs"] = map[string]interface{}{siCommon.NodePartition: m.part(), siCommon.HostName: "h", siCommon.InstanceType: "it"}
	case 1:
		shape += "+attrs-unset"
	case 2:
		n["attrs"] = map[string]interface{}{}
		shape += "+attrs-empty"
	case 3:
		n["attrs"] = map[string]interface{}{siCommon.NodePartition: m.part()}
	case 4:
		n["attrs"] = map[string]interface{}{siCommon.HostName: "h"}
		shape += "+no-partition-attr"
	}
	n["res"] = m.res("node-res")
	c.stat(fmt.Sprintf("mal:node:%s:action%d", shape, act))
	return n
}

// genRequest: one request, mostly with a single item (the driver compares every item with the model's classification)
func (m *malRun) genRequest() map[string]interface{} {
	c := m.c
	v := m.view()
	req := map[string]interface{}{"rm": m.rm()}
	count := func() int {
		switch m.w(80, 12, 6, 2) {
		case 0:
			return 1
		case 1:
			return 2
		case 2:
			return 3
		}
		return 0
	}
	// now and then a configuration update that carries the configuration in force, under the registered, an empty or an
	// unknown policy group: it changes nothing and must be answered
	if c.chance(0.03) {
		req["t"] = "conf"
		req["rm"] = coreRM
		req["pg"] = []string{"policygroup", "", "other-group"}[c.pick(3)]
		return req
	}
	switch m.w(32, 30, 12, 8, 18) {
	case 0:
		req["t"] = "alloc"
		l := []interface{}{}
		for i, k := 0, count(); i < k; i++ {
			l = append(l, m.genAlloc(v))
		}
		req["allocs"] = l
		if c.chance(0.08) {
			req["rel"] = []interface{}{} // Releases set, nothing in it
		}
	case 1:
		req["t"] = "alloc"
		req["allocs"] = []interface{}{}
		l := []interface{}{}
		for i, k := 0, count(); i < k; i++ {
			l = append(l, m.genRelease(v))
		}
		req["rel"] = l
		if c.chance(0.1) {
			req["allocs"] = []interface{}{m.genAlloc(v)}
		}
	case 2:
		req["t"] = "app"
		l := []interface{}{}
		for i, k := 0, count(); i < k; i++ {
			l = append(l, m.genAppNew(v))
		}
		req["new"], req["remove"] = l, []interface{}{}
	case 3:
		req["t"] = "app"
		l := []interface{}{}
		for i, k := 0, count(); i < k; i++ {
			l = append(l, m.genAppRemove(v))
		}
		req["new"], req["remove"] = []interface{}{}, l
		if c.chance(0.15) {
			req["new"] = []interface{}{m.genAppNew(v)}
		}
	default:
		req["t"] = "node"
		l := []interface{}{}
		for i, k := 0, count(); i < k; i++ {
			l = append(l, m.genNode(v))
		}
		req["nodes"] = l
	}
	return req
}
