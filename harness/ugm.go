package main

// Component "ugm" (C05): drives the real ugm.Manager singleton — configuration reloads interleaved with
// Headroom / CanRunApp / IncreaseTrackedResource / DecreaseTrackedResource for several users, groups and
// applications — and dumps the complete manager state (hook VerifState; cross-checked against the REST DAOs)
// after every operation.

import (
	"encoding/json"
	"fmt"
	"sort"
	"strconv"

	"github.com/apache/yunikorn-core/pkg/common/configs"
	"github.com/apache/yunikorn-core/pkg/common/resources"
	"github.com/apache/yunikorn-core/pkg/common/security"
	"github.com/apache/yunikorn-core/pkg/scheduler/ugm"
	"github.com/apache/yunikorn-core/pkg/webservice/dao"
)

func init() { components["ugm"] = runUgm }

var ugmKeys = []string{"cpu", "mem"}

type ugmDrv struct {
	c      *Ctx
	silent bool
	sts    []string // marshalled state after every operation of the current case (order-dependence check)
}

// ---------------------------------------------------------------------------------------------- encoding

func encLimit(l ugm.VerifLimit) interface{} {
	return map[string]interface{}{"res": encRes(l.MaxRes), "apps": l.MaxApps}
}

func ugmSortedKeys[V any](m map[string]V) []string {
	ks := make([]string, 0, len(m))
	for k := range m {
		ks = append(ks, k)
	}
	sort.Strings(ks)
	return ks
}

func encNodes(ns []ugm.VerifNode) []interface{} {
	out := []interface{}{}
	for _, n := range ns {
		apps := n.Apps
		if apps == nil {
			apps = []string{}
		}
		out = append(out, map[string]interface{}{"path": n.Path, "usage": encRes(n.Usage), "apps": apps, "max": encRes(n.MaxRes),
			"maxApps": n.MaxApps, "wild": n.WildCard})
	}
	return out
}

func ugmState() map[string]interface{} {
	s := ugm.GetUserManager().VerifState()
	users := []interface{}{}
	for _, u := range s.Users {
		ag := []interface{}{}
		for _, a := range ugmSortedKeys(u.AppGroups) {
			ag = append(ag, []interface{}{a, u.AppGroups[a]})
		}
		users = append(users, map[string]interface{}{"name": u.Name, "nodes": encNodes(u.Nodes), "appGroups": ag})
	}
	groups := []interface{}{}
	for _, g := range s.Groups {
		au := []interface{}{}
		for _, a := range ugmSortedKeys(g.AppUsers) {
			au = append(au, []interface{}{a, g.AppUsers[a]})
		}
		groups = append(groups, map[string]interface{}{"name": g.Name, "nodes": encNodes(g.Nodes), "apps": au})
	}
	lim2 := func(m map[string]map[string]ugm.VerifLimit) []interface{} {
		out := []interface{}{}
		for _, p := range ugmSortedKeys(m) {
			in := []interface{}{}
			for _, n := range ugmSortedKeys(m[p]) {
				in = append(in, []interface{}{n, encLimit(m[p][n])})
			}
			out = append(out, []interface{}{p, in})
		}
		return out
	}
	lim1 := func(m map[string]ugm.VerifLimit) []interface{} {
		out := []interface{}{}
		for _, p := range ugmSortedKeys(m) {
			out = append(out, []interface{}{p, encLimit(m[p])})
		}
		return out
	}
	cg := []interface{}{}
	for _, p := range ugmSortedKeys(s.ConfiguredGroups) {
		cg = append(cg, []interface{}{p, s.ConfiguredGroups[p]})
	}
	return map[string]interface{}{"users": users, "groups": groups, "userLimits": lim2(s.UserLimits), "groupLimits": lim2(s.GroupLimits),
		"userWild": lim1(s.UserWildCard), "groupWild": lim1(s.GroupWildCard), "confGroups": cg}
}

// daoCheck compares the hook dump with what the REST DAOs report (usage, running applications, max resources, max
// applications per queue): returns a description of the first difference, "" when they agree.
func daoCheck() string {
	um := ugm.GetUserManager()
	s := um.VerifState()
	var walk func(d *dao.ResourceUsageDAOInfo, out map[string]*dao.ResourceUsageDAOInfo)
	walk = func(d *dao.ResourceUsageDAOInfo, out map[string]*dao.ResourceUsageDAOInfo) {
		if d == nil {
			return
		}
		out[d.QueuePath] = d
		for _, ch := range d.Children {
			walk(ch, out)
		}
	}
	cmp := func(kind, name string, nodes []ugm.VerifNode, d *dao.ResourceUsageDAOInfo) string {
		m := map[string]*dao.ResourceUsageDAOInfo{}
		walk(d, m)
		if len(m) != len(nodes) {
			return fmt.Sprintf("%s %s: %d queues in DAO, %d trackers", kind, name, len(m), len(nodes))
		}
		for _, n := range nodes {
			q := m[n.Path]
			if q == nil {
				return fmt.Sprintf("%s %s: %s missing in DAO", kind, name, n.Path)
			}
			if !sameRes(resources.NewResourceFromMap(toQ(q.ResourceUsage)), orEmpty(n.Usage)) || !sameRes(resources.NewResourceFromMap(toQ(q.MaxResources)), orEmpty(n.MaxRes)) ||
				q.MaxApplications != n.MaxApps || len(q.RunningApplications) != len(n.Apps) {
				return fmt.Sprintf("%s %s: %s differs", kind, name, n.Path)
			}
		}
		return ""
	}
	for _, u := range s.Users {
		ut := um.GetUserTracker(u.Name)
		if ut == nil {
			return "user tracker " + u.Name + " not returned"
		}
		if r := cmp("user", u.Name, u.Nodes, ut.GetResourceUsageDAOInfo().Queues); r != "" {
			return r
		}
	}
	for _, g := range s.Groups {
		gt := um.GetGroupTracker(g.Name)
		if gt == nil {
			return "group tracker " + g.Name + " not returned"
		}
		if r := cmp("group", g.Name, g.Nodes, gt.GetResourceUsageDAOInfo().Queues); r != "" {
			return r
		}
	}
	return ""
}

func toQ(m map[string]int64) map[string]resources.Quantity {
	out := map[string]resources.Quantity{}
	for k, v := range m {
		out[k] = resources.Quantity(v)
	}
	return out
}

func orEmpty(r *resources.Resource) *resources.Resource {
	if r == nil {
		return resources.NewResource()
	}
	return r
}

// ---------------------------------------------------------------------------------------------- configuration

// decode the protocol form of a queue configuration: {"name":..,"limits":[{"users":[..],"groups":[..],"res":[[k,v]..]|null,"apps":n}],"queues":[..]}
func decQueueConf(v interface{}) configs.QueueConfig {
	m := v.(map[string]interface{})
	q := configs.QueueConfig{Name: jsonStr(m["name"])}
	if ls, ok := m["limits"].([]interface{}); ok {
		for i, e := range ls {
			lm := e.(map[string]interface{})
			l := configs.Limit{Limit: "limit-" + strconv.Itoa(i), MaxApplications: uint64(jsonInt(lm["apps"]))}
			for _, u := range lm["users"].([]interface{}) {
				l.Users = append(l.Users, u.(string))
			}
			for _, g := range lm["groups"].([]interface{}) {
				l.Groups = append(l.Groups, g.(string))
			}
			if r := decRes(lm["res"]); r != nil {
				l.MaxResources = map[string]string{}
				for k, q := range r.Resources {
					l.MaxResources[k] = strconv.FormatInt(int64(q), 10)
				}
			}
			q.Limits = append(q.Limits, l)
		}
	}
	if qs, ok := m["queues"].([]interface{}); ok {
		for _, e := range qs {
			q.Queues = append(q.Queues, decQueueConf(e))
		}
	}
	q.Parent = len(q.Queues) > 0
	return q
}

func validConf(q configs.QueueConfig) error {
	sc := &configs.SchedulerConfig{Partitions: []configs.PartitionConfig{{Name: "default", Queues: []configs.QueueConfig{q}}}}
	return configs.Validate(sc)
}

// ---------------------------------------------------------------------------------------------- operations

func ugi(op map[string]interface{}) security.UserGroup {
	u := security.UserGroup{User: jsonStr(op["user"])}
	if gs, ok := op["groups"].([]interface{}); ok {
		for _, g := range gs {
			u.Groups = append(u.Groups, g.(string))
		}
	}
	return u
}

func (d *ugmDrv) apply(op map[string]interface{}) map[string]interface{} {
	op = norm(op)
	c := d.c
	line := map[string]interface{}{"c": "ugm"}
	for k, v := range op {
		line[k] = v
	}
	name := op["op"].(string)
	if !d.silent {
		c.stat("op:" + name)
	}
	um := ugm.GetUserManager()
	finish := func() {
		st := ugmState()
		line["st"] = st
		if r := daoCheck(); r != "" {
			line["dao"] = r
		}
		b, _ := json.Marshal(st)
		d.sts = append(d.sts, string(b)+fmt.Sprint(line["out"]))
		if !d.silent {
			c.emit(line)
		}
	}
	defer func() {
		if r := recover(); r != nil {
			line["panic"] = fmt.Sprint(r)
			if !d.silent {
				c.stat("panic")
			}
			finish()
		}
	}()
	q := jsonStr(op["q"])
	app := jsonStr(op["app"])
	switch name {
	case "reset":
		um.ClearUserTrackers()
		um.ClearGroupTrackers()
		um.ClearConfigLimits()
		d.sts = nil
		line["out"] = true
	case "conf":
		conf := decQueueConf(op["cfg"])
		err := um.UpdateConfig(conf, conf.Name)
		line["out"] = err == nil
	case "headroom":
		line["out"] = encRes(um.Headroom(q, app, ugi(op)))
	case "canRun":
		line["out"] = um.CanRunApp(q, app, ugi(op))
	case "inc":
		um.IncreaseTrackedResource(q, app, decRes(op["res"]), ugi(op))
		line["out"] = true
	case "dec":
		um.DecreaseTrackedResource(q, app, decRes(op["res"]), ugi(op), jsonBool(op["rm"]))
		line["out"] = true
	case "sched":
		// what the scheduler does for one ask of an application: the application gate when it holds nothing yet
		// (Queue.TryAllocate), the headroom check (Application.tryAllocate), then the allocation is booked
		res := decRes(op["res"])
		out := map[string]interface{}{"canRun": nil, "hr": nil, "fit": false}
		ok := true
		if jsonBool(op["first"]) {
			ok = um.CanRunApp(q, app, ugi(op))
			out["canRun"] = ok
		}
		if ok {
			hr := um.Headroom(q, app, ugi(op))
			out["hr"] = encRes(hr)
			fit := hr.FitInMaxUndef(res)
			out["fit"] = fit
			if fit {
				um.IncreaseTrackedResource(q, app, res, ugi(op))
			}
		}
		line["out"] = out
	default:
		panic("unknown op " + name)
	}
	finish()
	return line
}

// ---------------------------------------------------------------------------------------------- generator

type ugmApp struct {
	id     string
	q      string
	user   string
	groups []string
	allocs []*resources.Resource
}

func btoi(b bool) int {
	if b {
		return 1
	}
	return 0
}

func (c *Ctx) ugmRes(maxv int) *resources.Resource {
	r := resources.NewResource()
	for _, k := range ugmKeys {
		if c.chance(0.6) {
			r.Resources[k] = resources.Quantity(1 + c.pick(maxv))
		}
	}
	if len(r.Resources) == 0 && c.chance(0.85) {
		r.Resources[ugmKeys[c.pick(len(ugmKeys))]] = resources.Quantity(1 + c.pick(maxv))
	}
	return r
}

// one limit entry for a queue at the given depth (values shrink with the depth so that most trees validate)
func (c *Ctx) ugmLimit(users, groups []string, depth int) map[string]interface{} {
	var res interface{}
	apps := 0
	maxv := 12 - 3*depth
	switch c.pick(4) {
	case 0:
		apps = 1 + c.pick(4-depth)
	case 1:
		r := c.ugmRes(maxv)
		if len(r.Resources) == 0 {
			r.Resources["mem"] = resources.Quantity(1 + c.pick(maxv))
		}
		res = encRes(r)
	default:
		r := c.ugmRes(maxv)
		if len(r.Resources) == 0 {
			r.Resources["cpu"] = resources.Quantity(1 + c.pick(maxv))
		}
		res = encRes(r)
		apps = c.pick(5 - depth)
	}
	return map[string]interface{}{"users": users, "groups": groups, "res": res, "apps": apps}
}

var ugmUsers = []string{"u1", "u2", "u3"}
var ugmGroups = []string{"g1", "g2", "g3"}

func (c *Ctx) subset(from []string, p float64) []string {
	out := []string{}
	for _, s := range from {
		if c.chance(p) {
			out = append(out, s)
		}
	}
	return out
}

func (c *Ctx) ugmQueueLimits(depth int, density float64) []interface{} {
	limits := []interface{}{}
	if !c.chance(density) {
		return limits
	}
	users := c.subset(ugmUsers, 0.4)
	groups := c.subset(ugmGroups[:2], 0.35)
	c.rng.Shuffle(len(users), func(i, j int) { users[i], users[j] = users[j], users[i] })
	c.rng.Shuffle(len(groups), func(i, j int) { groups[i], groups[j] = groups[j], groups[i] })
	// split the names over one or two entries
	for len(users) > 0 || len(groups) > 0 {
		nu, ng := len(users), len(groups)
		if c.chance(0.5) {
			nu = c.pick(len(users) + 1)
			ng = c.pick(len(groups) + 1)
		}
		if nu == 0 && ng == 0 {
			nu, ng = len(users), len(groups)
		}
		limits = append(limits, c.ugmLimit(append([]string{}, users[:nu]...), append([]string{}, groups[:ng]...), depth))
		users, groups = users[nu:], groups[ng:]
	}
	wu := c.chance(0.4)
	wg := c.chance(0.25)
	// a wildcard group limit needs a named group limit in the same queue
	hasGroup := false
	for _, l := range limits {
		if len(l.(map[string]interface{})["groups"].([]string)) > 0 {
			hasGroup = true
		}
	}
	if wg && !hasGroup {
		wg = false
	}
	if wu && wg && c.chance(0.5) {
		limits = append(limits, c.ugmLimit([]string{"*"}, []string{"*"}, depth))
	} else {
		if wu {
			limits = append(limits, c.ugmLimit([]string{"*"}, []string{}, depth))
		}
		if wg {
			limits = append(limits, c.ugmLimit([]string{}, []string{"*"}, depth))
		}
	}
	return limits
}

// queue tree over the fixed universe root, root.a, root.a.b, root.c; `have` says which of a, a.b, c exist
func (c *Ctx) ugmConf(have [3]bool, density float64) map[string]interface{} {
	for try := 0; try < 30; try++ {
		root := map[string]interface{}{"name": "root", "limits": c.ugmQueueLimits(0, density), "queues": []interface{}{}}
		qs := []interface{}{}
		if have[0] {
			a := map[string]interface{}{"name": "a", "limits": c.ugmQueueLimits(1, density), "queues": []interface{}{}}
			if have[1] {
				a["queues"] = []interface{}{map[string]interface{}{"name": "b", "limits": c.ugmQueueLimits(2, density), "queues": []interface{}{}}}
			}
			qs = append(qs, a)
		}
		if have[2] {
			qs = append(qs, map[string]interface{}{"name": "c", "limits": c.ugmQueueLimits(1, density), "queues": []interface{}{}})
		}
		root["queues"] = qs
		if err := validConf(decQueueConf(norm(root))); err == nil {
			return root
		}
		c.stat("conf-rejected-by-validator")
	}
	c.stat("conf-fallback-empty")
	return map[string]interface{}{"name": "root", "limits": []interface{}{}, "queues": []interface{}{}}
}

// ---------------------------------------------------------------------------------------------- targeted reloads
//
// A reload whose ONLY change is the set (or the values) of the NAMED user / group limits of one queue that also carries
// a wildcard limit, the wildcard entry staying exactly as it was: the users that fall back from their named limit to the
// wildcard (or leave it for a named limit) must be under the limit of the latest configuration although "nothing
// changed" for the wildcard itself.

func ugmNames(l map[string]interface{}, key string) []string {
	out := []string{}
	if a, ok := l[key].([]interface{}); ok {
		for _, e := range a {
			out = append(out, e.(string))
		}
	}
	return out
}

func ugmHas(l []string, s string) bool {
	for _, e := range l {
		if e == s {
			return true
		}
	}
	return false
}

func ugmWalk(q map[string]interface{}, parent string, depth int, f func(path string, depth int, q map[string]interface{})) {
	path := jsonStr(q["name"])
	if parent != "" {
		path = parent + "." + path
	}
	f(path, depth, q)
	if qs, ok := q["queues"].([]interface{}); ok {
		for _, e := range qs {
			ugmWalk(e.(map[string]interface{}), path, depth+1, f)
		}
	}
}

func ugmUnder(q, anc string) bool {
	return q == anc || (len(q) > len(anc) && q[:len(anc)] == anc && q[len(anc)] == '.')
}

// the principals (users, or groups with groupSide) that hold live allocations in the queue or below it
func ugmBusy(apps []*ugmApp, path string, groupSide bool) []string {
	out := []string{}
	for _, a := range apps {
		if len(a.allocs) == 0 || !ugmUnder(a.q, path) {
			continue
		}
		if !groupSide {
			if !ugmHas(out, a.user) {
				out = append(out, a.user)
			}
			continue
		}
		for _, g := range a.groups {
			if !ugmHas(out, g) {
				out = append(out, g)
			}
		}
	}
	return out
}

// ugmForceNamedAndWild returns a copy of the configuration in which the queue carries a named limit for the user (and for
// the group, if any) AND a wildcard user limit (a wildcard group limit as well when a group is given and wildGroup is set);
// nil when the validator refuses every attempt
func (c *Ctx) ugmForceNamedAndWild(cfg map[string]interface{}, path, user, group string, wildGroup bool) map[string]interface{} {
	for try := 0; try < 12; try++ {
		n := norm(cfg)
		ugmWalk(n, "", 0, func(p string, depth int, q map[string]interface{}) {
			if p != path {
				return
			}
			ls, _ := q["limits"].([]interface{})
			namedU, namedG, wildU, wildG := false, false, false, false
			for _, e := range ls {
				l := e.(map[string]interface{})
				us, gs := ugmNames(l, "users"), ugmNames(l, "groups")
				namedU = namedU || ugmHas(us, user)
				namedG = namedG || (group != "" && ugmHas(gs, group))
				wildU = wildU || ugmHas(us, "*")
				wildG = wildG || ugmHas(gs, "*")
			}
			front := []interface{}{}
			if !namedU {
				front = append(front, c.ugmLimit([]string{user}, []string{}, depth))
			}
			if group != "" && !namedG {
				front = append(front, c.ugmLimit([]string{}, []string{group}, depth))
			}
			ls = append(front, ls...)
			if !wildU {
				ls = append(ls, c.ugmLimit([]string{"*"}, []string{}, depth))
			}
			if group != "" && wildGroup && !wildG {
				ls = append(ls, c.ugmLimit([]string{}, []string{"*"}, depth))
			}
			q["limits"] = ls
		})
		n = norm(n)
		if validConf(decQueueConf(n)) == nil {
			return n
		}
	}
	return nil
}

// ugmMutateNamed returns a copy of the configuration that differs in the named user (group) limits of ONE queue with a
// wildcard user (group) limit only - a name dropped, a name added, or the values of a named entry changed - and what was
// done ("drop" / "add" / "change", + ":busy" when the principal holds allocations there); nil when there is no such queue
// or the validator refuses the attempts
func (c *Ctx) ugmMutateNamed(cfg map[string]interface{}, apps []*ugmApp, groupSide bool) (map[string]interface{}, string) {
	key, universe := "users", ugmUsers
	if groupSide {
		key, universe = "groups", ugmGroups[:2]
	}
	type cand struct {
		path  string
		named []string
	}
	cands := []cand{}
	ugmWalk(norm(cfg), "", 0, func(p string, depth int, q map[string]interface{}) {
		ls, _ := q["limits"].([]interface{})
		wild := false
		named := []string{}
		for _, e := range ls {
			for _, nm := range ugmNames(e.(map[string]interface{}), key) {
				if nm == "*" {
					wild = true
				} else if !ugmHas(named, nm) {
					named = append(named, nm)
				}
			}
		}
		if wild {
			cands = append(cands, cand{p, named})
		}
	})
	if len(cands) == 0 {
		return nil, ""
	}
	for try := 0; try < 10; try++ {
		cd := cands[c.pick(len(cands))]
		busy := ugmBusy(apps, cd.path, groupSide)
		kind := []string{"drop", "drop", "add", "change"}[c.pick(4)]
		who := ""
		switch kind {
		case "drop", "change":
			if len(cd.named) == 0 {
				continue
			}
			who = cd.named[c.pick(len(cd.named))]
			for _, b := range busy { // prefer a principal that holds allocations there
				if ugmHas(cd.named, b) && c.chance(0.7) {
					who = b
					break
				}
			}
		case "add":
			free := []string{}
			for _, nm := range universe {
				if !ugmHas(cd.named, nm) {
					free = append(free, nm)
				}
			}
			if len(free) == 0 {
				continue
			}
			who = free[c.pick(len(free))]
			for _, b := range busy {
				if ugmHas(free, b) && c.chance(0.7) {
					who = b
					break
				}
			}
		}
		n := norm(cfg)
		ugmWalk(n, "", 0, func(p string, depth int, q map[string]interface{}) {
			if p != cd.path {
				return
			}
			ls, _ := q["limits"].([]interface{})
			out := []interface{}{}
			if kind == "add" {
				if groupSide {
					out = append(out, c.ugmLimit([]string{}, []string{who}, depth))
				} else {
					out = append(out, c.ugmLimit([]string{who}, []string{}, depth))
				}
			}
			for _, e := range ls {
				l := e.(map[string]interface{})
				us, gs := ugmNames(l, "users"), ugmNames(l, "groups")
				if ugmHas(us, "*") || ugmHas(gs, "*") || !ugmHas(ugmNames(l, key), who) {
					out = append(out, l) // the wildcard entry (and every entry that does not name the principal) stays as it is
					continue
				}
				switch kind {
				case "drop":
					keep := []interface{}{}
					for _, nm := range ugmNames(l, key) {
						if nm != who {
							keep = append(keep, nm)
						}
					}
					l[key] = keep
					if len(ugmNames(l, "users"))+len(ugmNames(l, "groups")) > 0 {
						out = append(out, l)
					}
				case "change":
					f := c.ugmLimit([]string{}, []string{}, depth)
					l["res"], l["apps"] = f["res"], f["apps"]
					out = append(out, l)
				default:
					out = append(out, l)
				}
			}
			q["limits"] = out
		})
		n = norm(n)
		if b1, _ := json.Marshal(n); true {
			if b0, _ := json.Marshal(norm(cfg)); string(b0) == string(b1) {
				continue
			}
		}
		if validConf(decQueueConf(n)) != nil {
			c.stat("conf-rejected-by-validator")
			continue
		}
		if ugmHas(busy, who) {
			kind += ":busy"
		}
		return n, kind
	}
	return nil, ""
}

// genAndRun generates one case while executing it (the generator needs the answers of "sched" to know what is booked);
// returns the operations for the re-runs
func (d *ugmDrv) genAndRun() []map[string]interface{} {
	c := d.c
	ops := []map[string]interface{}{}
	do := func(op map[string]interface{}) map[string]interface{} {
		ops = append(ops, op)
		return d.apply(op)
	}
	do(map[string]interface{}{"op": "reset"})
	have := [3]bool{c.chance(0.85), c.chance(0.7), c.chance(0.5)}
	paths := []string{"root"}
	if have[0] {
		paths = append(paths, "root.a")
		if have[1] {
			paths = append(paths, "root.a.b")
		}
	}
	if have[2] {
		paths = append(paths, "root.c")
	}
	density := 0.35 + 0.5*c.rng.Float64()
	// users with their group lists (fixed for the case, as the shim resolves them once)
	ug := map[string][]string{}
	for _, u := range ugmUsers {
		gs := c.subset(ugmGroups, 0.5)
		c.rng.Shuffle(len(gs), func(i, j int) { gs[i], gs[j] = gs[j], gs[i] })
		ug[u] = gs
	}
	apps := []*ugmApp{}
	napps := 3 + c.pick(4)
	for i := 0; i < napps; i++ {
		u := ugmUsers[c.pick(len(ugmUsers))]
		p := paths[c.pick(len(paths))]
		if c.chance(0.6) {
			p = paths[len(paths)-1-c.pick(min(2, len(paths)))] // prefer the deeper queues
		}
		apps = append(apps, &ugmApp{id: "app" + strconv.Itoa(i+1), q: p, user: u, groups: ug[u]})
	}
	base := func(a *ugmApp, name string) map[string]interface{} {
		return map[string]interface{}{"op": name, "q": a.q, "app": a.id, "user": a.user, "groups": a.groups}
	}
	// half of the cases aim at the fall back between a named and the wildcard limit: the first configuration gives the
	// queue of one application a named limit for its user (and one of its groups) beside a wildcard limit, the
	// application gets an allocation at once (its trackers exist), and most reloads only touch the named limits
	var curCfg map[string]interface{}
	fallback := c.chance(0.5)
	if fallback || c.chance(0.9) {
		cfg := c.ugmConf(have, density)
		var ta *ugmApp
		if fallback {
			ta = apps[c.pick(len(apps))]
			g := ""
			for _, x := range ta.groups {
				if ugmHas(ugmGroups[:2], x) && c.chance(0.5) {
					g = x
					break
				}
			}
			if f := c.ugmForceNamedAndWild(cfg, ta.q, ta.user, g, c.chance(0.6)); f != nil {
				cfg = f
				c.stat("conf:named-and-wildcard-on-queue-of-app")
			} else {
				ta = nil
			}
		}
		curCfg = norm(cfg)
		do(map[string]interface{}{"op": "conf", "cfg": cfg})
		if ta != nil {
			res := c.ugmRes(3)
			op := base(ta, "inc")
			op["res"] = encRes(res)
			do(op)
			ta.allocs = append(ta.allocs, res)
		}
	}
	nops := 10 + c.pick(26)
	nconf := 0
	nmut := 0
	offContract := false
	for j := 0; j < nops; j++ {
		a := apps[c.pick(len(apps))]
		var op map[string]interface{}
		booked := false
		var res *resources.Resource
		switch p := c.pick(100); {
		case p < 34:
			op = base(a, "sched")
			res = c.ugmRes(5)
			op["res"] = encRes(res)
			op["first"] = len(a.allocs) == 0
		case p < 42:
			op = base(a, "headroom")
		case p < 48:
			op = base(a, "canRun")
		case p < 54:
			// RM-forced / recovered allocation: booked without a check
			op = base(a, "inc")
			res = c.ugmRes(6)
			op["res"] = encRes(res)
			booked = true
		case p < 76:
			if len(a.allocs) == 0 {
				continue
			}
			i := c.pick(len(a.allocs))
			op = base(a, "dec")
			op["res"] = encRes(a.allocs[i])
			a.allocs = append(a.allocs[:i], a.allocs[i+1:]...)
			op["rm"] = len(a.allocs) == 0
		case p < 78:
			// off-contract calls (never made by the core): release of something that is not booked, removeApp while
			// allocations remain; the accounting clauses are not evaluated for the rest of the case
			op = base(a, "dec")
			op["res"] = encRes(c.ugmRes(4))
			op["rm"] = c.chance(0.5)
			offContract = true
		default:
			if pm := 0.25 + 0.5*float64(btoi(fallback)); curCfg != nil && nmut < 4 && c.chance(pm) {
				side := c.chance(0.3)
				if mc, kind := c.ugmMutateNamed(curCfg, apps, side); mc != nil {
					nmut++
					c.stat("reload:named-only-beside-same-wildcard")
					c.stat("reload:named-" + kind + "-beside-same-wildcard:" + map[bool]string{false: "user", true: "group"}[side])
					op = map[string]interface{}{"op": "conf", "cfg": mc}
					break
				}
			}
			if nconf >= 4 {
				continue
			}
			nconf++
			h := have
			if c.chance(0.25) {
				h[c.pick(3)] = c.chance(0.5)
			}
			dd := density
			if c.chance(0.3) {
				dd = c.rng.Float64()
			}
			op = map[string]interface{}{"op": "conf", "cfg": c.ugmConf(h, dd)}
		}
		if offContract {
			op["offc"] = true
		}
		if op["op"] == "conf" {
			curCfg = norm(op["cfg"].(map[string]interface{}))
		}
		line := do(op)
		if op["op"] == "sched" {
			if o, ok := line["out"].(map[string]interface{}); ok && o["fit"] == true {
				booked = true
			}
		}
		if booked {
			a.allocs = append(a.allocs, res)
		}
	}
	return ops
}

// run re-executes the operations of a case
func (d *ugmDrv) run(ops []map[string]interface{}) {
	for _, op := range ops {
		d.apply(op)
	}
}

var ugmInputKeys = []string{"op", "cfg", "q", "app", "user", "groups", "res", "rm", "first", "offc"}

func runUgm(c *Ctx) {
	d := &ugmDrv{c: c}
	if replayFile != "" {
		for _, in := range readReplay(replayFile) {
			op := map[string]interface{}{}
			for _, k := range ugmInputKeys {
				if v, ok := in[k]; ok {
					op[k] = v
				}
			}
			d.apply(op)
		}
		return
	}
	for it := 0; it < c.n; it++ {
		ops := d.genAndRun()
		// the update code iterates over Go maps: re-run the case twice and compare every intermediate state
		first := d.sts
		for rep := 0; rep < 2; rep++ {
			d.silent = true
			d.sts = nil
			d.run(ops)
			d.silent = false
			for i := range first {
				if i < len(d.sts) && d.sts[i] != first[i] {
					c.stat("order-dependent")
					c.emit(map[string]interface{}{"c": "ugm", "op": "nondet", "at": i, "opname": ops[i]["op"], "a": first[i], "b": d.sts[i]})
					rep = 2
					break
				}
			}
		}
		d.sts = nil
	}
}
