package main

import (
	"math"

	"github.com/apache/yunikorn-core/pkg/events"
	"github.com/apache/yunikorn-scheduler-interface/lib/go/si"
)

func init() { components["ring"] = runRing }

func evTag(e *si.EventRecord) int64 {
	if e == nil {
		return -1
	}
	return e.TimestampNano
}

func encEvs(l []*si.EventRecord) []int64 {
	out := make([]int64, len(l))
	for i, e := range l {
		out[i] = evTag(e)
	}
	return out
}

type ringDrv struct {
	c   *Ctx
	r   *events.VerifRing
	es  *events.EventStore
	tag int64
}

func (d *ringDrv) st() []uint64 {
	c, h, f, id, lo, off := d.r.Fields()
	fb := uint64(0)
	if f {
		fb = 1
	}
	return []uint64{c, h, fb, id, lo, off}
}

// apply executes one protocol op on the implementation and emits the line with the observed result.
func (d *ringDrv) apply(op map[string]interface{}) {
	c := d.c
	line := map[string]interface{}{"c": "ring"}
	for k, v := range op {
		line[k] = v
	}
	name := op["op"].(string)
	c.stat("op:" + name)
	defer func() {
		if r := recover(); r != nil {
			line["panic"] = true
			line["out"] = []int64{-2}
			line["lo"], line["hi"] = 0, 0
			line["st"] = []uint64{0, 0, 0, 0, 0, 0}
			line["cnt"] = -1
			c.stat("panic")
			c.emit(line)
		}
	}()
	switch name {
	case "reset":
		d.r = events.VerifNewRing(uint64(jsonInt(op["cap"])))
	case "add":
		d.r.Add(&si.EventRecord{TimestampNano: jsonInt(op["ev"])})
		line["st"] = d.st()
	case "resize":
		d.r.Resize(uint64(jsonInt(op["n"])))
		line["st"] = d.st()
	case "get":
		out, lo, hi := d.r.GetEventsFromID(jsonU64(op["start"]), jsonU64(op["count"]))
		line["out"], line["lo"], line["hi"] = encEvs(out), lo, hi
		if len(out) > 0 {
			c.stat("get-nonempty")
		} else {
			c.stat("get-empty")
		}
	case "recent":
		line["out"] = encEvs(d.r.GetRecentEvents(jsonU64(op["count"])))
	case "sreset":
		d.es = events.VerifNewEventStore(uint64(jsonInt(op["size"])))
	case "sstore":
		d.es.Store(&si.EventRecord{TimestampNano: jsonInt(op["ev"])})
		line["cnt"] = d.es.CountStoredEvents()
	case "ssetsize":
		d.es.SetStoreSize(uint64(jsonInt(op["size"])))
	case "scollect":
		line["out"] = encEvs(d.es.CollectEvents())
	}
	c.emit(line)
}

func runRing(c *Ctx) {
	d := &ringDrv{c: c}
	if replayFile != "" {
		for _, in := range readReplay(replayFile) {
			op := map[string]interface{}{}
			for _, k := range []string{"op", "cap", "ev", "n", "start", "count", "size"} {
				if v, ok := in[k]; ok {
					op[k] = v
				}
			}
			d.apply(op)
		}
		return
	}
	maxCap := 24
	for i := 0; i < c.n; i++ {
		if c.chance(0.15) {
			// event store history
			size := c.pick(8)
			d.apply(map[string]interface{}{"op": "sreset", "size": size})
			nops := 5 + c.pick(40)
			for j := 0; j < nops; j++ {
				switch p := c.pick(10); {
				case p < 6:
					d.tag++
					d.apply(map[string]interface{}{"op": "sstore", "ev": d.tag})
				case p < 8:
					d.apply(map[string]interface{}{"op": "scollect"})
				default:
					d.apply(map[string]interface{}{"op": "ssetsize", "size": c.pick(8)})
				}
			}
			continue
		}
		cap := 1 + c.pick(maxCap)
		if c.chance(0.3) {
			cap = 1 + c.pick(4)
		}
		d.tag = 0
		d.apply(map[string]interface{}{"op": "reset", "cap": cap})
		nops := 10 + c.pick(60)
		curCap := cap
		for j := 0; j < nops; j++ {
			switch p := c.pick(20); {
			case p < 10:
				d.tag++
				d.apply(map[string]interface{}{"op": "add", "ev": d.tag})
			case p < 11:
				// burst: wrap the buffer
				k := c.pick(2*curCap + 2)
				for ; k > 0; k-- {
					d.tag++
					d.apply(map[string]interface{}{"op": "add", "ev": d.tag})
				}
			case p < 13:
				n := 1 + c.pick(2*maxCap)
				if c.chance(0.5) {
					n = 1 + c.pick(2*curCap)
				}
				curCap = n
				d.apply(map[string]interface{}{"op": "resize", "n": n})
			case p < 19:
				_, _, _, id, lo, _ := d.r.Fields()
				var start uint64
				switch c.pick(6) {
				case 0:
					start = uint64(c.pick(int(id) + 3))
				case 1:
					if lo >= 2 {
						start = lo - uint64(c.pick(3))
					}
				case 2:
					start = id - uint64(min64(int64(id), int64(c.pick(3)))) + uint64(c.pick(3))
				default:
					if id > lo {
						start = lo + uint64(c.pick(int(id-lo)))
					}
				}
				counts := []uint64{0, 1, 2, 3, uint64(curCap) - 1, uint64(curCap), uint64(curCap) + 1, math.MaxUint64, uint64(c.pick(curCap + 2)), 1 << 40}
				if curCap == 0 {
					counts[4] = 0
				}
				cnt := counts[c.pick(len(counts))]
				d.apply(map[string]interface{}{"op": "get", "start": start, "count": cnt})
			default:
				counts := []uint64{0, 1, 2, uint64(curCap), uint64(curCap) + 3, math.MaxUint64, uint64(c.pick(curCap + 2))}
				d.apply(map[string]interface{}{"op": "recent", "count": counts[c.pick(len(counts))]})
			}
		}
	}
}

func min64(a, b int64) int64 {
	if a < b {
		return a
	}
	return b
}
